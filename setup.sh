#!/bin/sh
# Builds the two analysers from files on disk only (offline). No /repo code is executed.
set -e
cd "$(dirname "$0")"
export CARGO_NET_OFFLINE=true
(cd tools/mirfacts && cargo +nightly build --release --offline -q)
if [ -d tools/srcx ]; then (cd tools/srcx && cargo build --release --offline -q); fi
test -x tools/mirfacts/target/release/mirfacts
echo "setup ok"

"""C14 — execution is deterministic and step-through agrees with the trace: decorators are effect-free, capacity hints
flow only into allocation sizes, no ambient nondeterminism on the execute/trace path, the step iterator reads all
components of a state at one clock value in both directions."""
import json, os, re
from .mirutil import *
from .mirsym import *
from . import procmodel

LEVEL = "other"
MUTATORS = r"^miden_processor::(operations::Process::(execute_op|advance_clock)|system::System::(advance_clock|set_fmp|start_call|start_syscall|restore_context)|" \
           r"stack::Stack::(set|copy_state|shift_left|shift_right|advance_clock|start_context|restore_context)|" \
           r"chiplets::Chiplets::(write_mem|write_mem_element|write_mem_double|read_mem|read_mem_double|permute|u32and|u32xor|build_merkle_root|update_merkle_root|hash_control_block|hash_span_block|access_kernel_proc|advance_clock)|" \
           r"decoder::Decoder::(start_\w+|end_\w+|repeat|respan|execute_user_op|start_op_group|set_user_op_helpers)|range::RangeChecker::add_range_checks)$"
FORBIDDEN = r"^(std::time::|core::time::|std::thread::|rand::|rand_core::|getrandom::|std::env::|std::fs::|std::collections::hash::|hashbrown::|std::process::id)"
ALLOC_OK = r"(init_stack_columns|init_helper_columns|vec::from_elem|Vec::with_capacity|Vec::resize|zeroed_vector|uninit_vector|new_array_vec|StackTrace::new|OverflowTable::new|vec::Vec::reserve|init_stack_with|StackTrace::init|get_trace_len)"


def srcx(F, crate):
    return json.load(open(os.path.join(F.dir, "src", crate + ".json")))


def r1_decorators(ctx, F):
    # signatures: ProcessState is read-only; every Host method that sees the process takes &S
    traits = {}
    for f in srcx(F, "processor"):
        for it in f["items"]:
            if it["t"] == "Trait" and it["name"] in ("ProcessState", "Host", "AdviceProvider"):
                traits[it["name"]] = (f["file"], it)
    ctx.floor("traits-found", len(traits), 3)
    file, ps = traits["ProcessState"]
    for m in ps["items"]:
        if m["t"] != "Fn":
            continue
        p0 = m["sig"]["params"][0] if m["sig"]["params"] else {}
        ctx.inst(key="ProcessState::" + m["sig"]["name"], nontrivial=True)
        ok = p0.get("name") == "self" and p0.get("ref") and not p0.get("mut")
        ctx.oblig(ok)
        if not ok:
            ctx.violation("process-state-mutable|%s" % m["sig"]["name"], "%s:%d" % (file, m["ln"]), "ProcessState::%s does not take &self: a host could mutate VM state through it" % m["sig"]["name"])
    for tn in ("Host", "AdviceProvider"):
        file, tr = traits[tn]
        for m in tr["items"]:
            if m["t"] != "Fn":
                continue
            for p in m["sig"]["params"]:
                if p.get("name") == "process":
                    ctx.inst(key="%s::%s" % (tn, m["sig"]["name"]), nontrivial=True)
                    ok = p.get("ty") == "&S"
                    ctx.oblig(ok)
                    if not ok:
                        ctx.violation("host-mutable-process|%s::%s" % (tn, m["sig"]["name"]), "%s:%d" % (file, m["ln"]), "%s::%s receives the process as %s (must be &S)" % (tn, m["sig"]["name"], p.get("ty")))
    # call graph: execute_decorator reaches no state mutator
    ed = F.fn(r"^miden_processor::Process::execute_decorator$")
    reach = F.reachable([ed.id])
    bad = sorted(r for r in reach if re.search(MUTATORS, r))
    ctx.inst(key="execute_decorator", nontrivial=True)
    ctx.analysed("execute_decorator reaches %d workspace functions; direct callees: %s" % (len(reach), sorted(short(c) for bi, c, t in ed.calls() if c.startswith("miden_"))[:10]))
    ctx.oblig(not bad)
    for b in bad:
        p = F.call_path(ed.id, lambda x: x == b)
        ctx.violation("decorator-mutates|%s" % short(b), ed.loc(), "execute_decorator reaches %s (path %s): a decorator would change VM state or the cycle count" % (b, [short(x) for x in (p or [])]))
    # decorators are executed only from execute_op_batch / execute_span_block (never counted as cycles)
    callers = sorted(short(c) for c in F.callers(ed.id))
    ok = set(callers) <= {"Process::execute_op_batch", "Process::execute_span_block"}
    ctx.oblig(ok)
    if not ok:
        ctx.violation("decorator-callers", ed.loc(), "execute_decorator called from %s" % callers)


def r2_hint_independence(ctx, F):
    getter = F.fn(r"^miden_air::options::ExecutionOptions::expected_cycles$")
    users = sorted(F.callers(getter.id))
    ctx.inst(key="expected_cycles-users", nontrivial=True)
    ctx.analysed("callers of ExecutionOptions::expected_cycles: %s" % [short(u) for u in users])
    for u in users:
        fn = F.fns[u]
        for bi, c, t in fn.calls():
            if c == getter.id:
                # where does the value go: forward one level (args of calls using the result local)
                dst = t["d"]["l"]
                sinks = []
                for b2, c2, t2 in fn.calls():
                    for a in t2["args"]:
                        if "l" in a and dst in fn.backward_slice(a["l"], through_calls=False)["locals"]:
                            sinks.append(c2)
                for s in set(sinks):
                    ok = re.search(r"System::new$|Stack::new$", s) is not None or re.search(ALLOC_OK, s) is not None
                    ctx.oblig(ok)
                    if not ok:
                        ctx.violation("hint-flows|%s|%s" % (short(u), short(s)), fn.loc(t["ln"]), "expected_cycles flows into %s in %s (only allocation sizes may depend on it)" % (s, short(u)))
    # inside System::new / Stack::new the hint parameter reaches only allocation functions
    for pat, argno in ((r"^miden_processor::system::System::new$", 1), (r"^miden_processor::stack::Stack::new$", 2), (r"^miden_processor::stack::trace::StackTrace::new$", 2)):
        fn = F.fn(pat)
        for bi, c, t in fn.calls():
            for a in t["args"]:
                if "l" in a and argno in fn.backward_slice(a["l"], through_calls=False)["args"]:
                    ctx.inst(key="%s->%s" % (short(fn.id), short(c)), nontrivial=True)
                    ok = re.search(ALLOC_OK, c) is not None or c.startswith("core::") or c.endswith("next_power_of_two")
                    ctx.oblig(ok)
                    if not ok:
                        ctx.violation("hint-use|%s|%s" % (short(fn.id), short(c)), fn.loc(t["ln"]), "the capacity hint of %s is passed to %s, which is not an allocation" % (short(fn.id), c))
    # ensure_trace_capacity is the first call of execute_op (shared with C15) and trace writes go through it
    ex = F.fn(r"^miden_processor::operations::Process::execute_op$")
    first = [c for bi, c, t in ex.calls() if c.startswith("miden_processor::")][:1]
    ok = bool(first) and first[0].endswith("ensure_trace_capacity")
    ctx.oblig(ok)
    if not ok:
        ctx.violation("ensure-capacity-first", ex.loc(), "execute_op must call ensure_trace_capacity before anything else")


def r3_ambient(ctx, F):
    roots = [F.fn(r"^miden_processor::execute$").id, F.fn(r"^miden_processor::execute_iter$").id, F.fn(r"^miden_processor::trace::ExecutionTrace::new$").id]
    reach = F.reachable(roots)
    ctx.floor("functions-on-execute-path", len(reach), 400)
    n = 0
    for fid in sorted(reach):
        fn = F.fns[fid]
        for bi, c, t in fn.calls():
            n += 1
            if re.search(FORBIDDEN, c) or re.search(r"HashMap|HashSet|RandomState|thread_rng|Instant::now|SystemTime", c):
                ctx.violation("ambient-nondeterminism|%s|%s" % (short(fid), short(c)), fn.loc(t["ln"]), "%s calls %s on the execute/trace path: the result or trace could differ between runs" % (fid, c))
        for ty in fn.d["locals"]:
            if re.search(r"HashMap<|HashSet<", ty):
                ctx.violation("hash-collection|%s" % short(fid), fn.loc(), "%s uses %s (randomised iteration order)" % (fid, ty[:60]))
                break
    ctx.inst(n=n)
    ctx.rules[ctx.cur]["nontrivial"] |= {"fn" + str(i) for i in range(len(reach))}
    # the random rows are seeded by the program hash
    tn = F.fn(r"^miden_processor::trace::ExecutionTrace::new$")
    rc = tn.calls_to(r"RpoRandomCoin::new$")
    ok = False
    for bi, c, t in rc:
        sl = tn.backward_slice(t["args"][0]["l"]) if "l" in t["args"][0] else {"calls": []}
        ok = any(re.search(r"program_hash$", cc) for b2, cc, tt in sl["calls"])
    ctx.oblig(ok)
    if not ok:
        ctx.violation("random-rows-seed", tn.loc(), "the random coin for the last trace rows must be seeded from the program hash")


class SymTable(Opaque):
    """a slice of unknown length indexed symbolically"""
    def __init__(self, name):
        Opaque.__init__(self, name)

    def sym_at(self, idx):
        return Ptr([Term(self.name, idx)], 0)


def r4_iterator(ctx, F):
    adt = F.adt(r"^miden_processor::debug::VmStateIterator$")
    fields = [f["name"] for f in adt["variants"][0]["fields"]]
    for fname, pat in (("back", r"^miden_processor::debug::VmStateIterator::back$"), ("next", r"^miden_processor::debug::VmStateIterator@Iterator::next$")):
        fn = F.fn(pat)
        for forward in (True, False):
            holder = {}

            def make():
                I = Interp(F)
                I.havoc = True
                procmodel.install_field(I)
                add = lambda rx, m: I.overrides.append((re.compile(rx), m))
                add(r"System::get_ctx_at$", lambda I, a, f: Term("ctx_at", a[1]))
                add(r"System::get_fmp_at$", lambda I, a, f: Term("fmp_at", a[1]))
                add(r"System::clk$", lambda I, a, f: Term("last_clk"))
                add(r"Stack::get_state_at$", lambda I, a, f: Term("stack_at", a[1]))
                add(r"Chiplets::get_mem_state_at$", lambda I, a, f: Term("mem_at", a[1], a[2]))
                add(r"VmStateIterator::get_asmop$", lambda I, a, f: Agg([Agg([], "adt", "core::option::Option", "None"), False], "tuple"))
                add(r"Decoder::debug_info$", lambda I, a, f: Ptr([Opaque("debug_info")], 0))
                add(r"DebugInfo::operations$", lambda I, a, f: Ptr([SymTable("op_at")], 0))
                add(r"@Index::index$|@IndexMut::index_mut$", lambda I, a, f: Ptr([Term("op_at", a[1])], 0) if isinstance(deref(a[0]), Opaque) else index_model(I, a, f))
                add(r"u32::saturating_sub$", lambda I, a, f: Term("-", a[0], a[1]))
                add(r"core::mem::take$", lambda I, a, f: Agg([], "adt", "core::option::Option", "None"))
                return I

            def run(I):
                items = []
                for n in fields:
                    if n == "clk":
                        items.append(Term("clk0"))
                    elif n == "forward":
                        items.append(forward)
                    elif n == "error":
                        items.append(Agg([], "adt", "core::option::Option", "None"))
                    elif n == "asmop_idx":
                        items.append(Term("asmop_idx"))
                    else:
                        items.append(Opaque(n))
                it = Agg(items, "adt", adt["id"], adt["variants"][0]["name"])
                holder["it"] = it
                return I.call(fn.id, [Ptr([it], 0)])

            npaths = 0
            for I, res, exc in enumerate_paths(make, run, max_paths=64):
                if exc is not None:
                    if isinstance(exc, Unanalysable):
                        ctx.violation("UNANALYSABLE|%s" % fname, fn.loc(), str(exc)[:300])
                    continue
                # unwrap Option / Option<Result>
                v = res
                while isinstance(v, Agg) and v.variant in ("Some", "Ok") and v.items:
                    v = v.items[0]
                if not (isinstance(v, Agg) and v.adt and v.adt.endswith("VmState")):
                    continue
                npaths += 1
                st = F.adt(r"^miden_processor::debug::VmState$")
                vf = dict(zip([f["name"] for f in st["variants"][0]["fields"]], v.items))
                clk = vf["clk"]
                key = "%s|forward=%s|%d" % (fname, forward, npaths)
                ctx.inst(key=key, nontrivial=True)
                want = {"ctx": Term("ctx_at", clk), "fmp": Term("fmp_at", clk), "stack": Term("stack_at", clk), "memory": Term("mem_at", Term("ctx_at", clk), clk)}
                for k, w in want.items():
                    ok = vf[k] == w
                    ctx.oblig(ok)
                    if not ok:
                        ctx.violation("iterator-component|%s|%s" % (fname, k), fn.loc(),
                                      "VmStateIterator::%s (stepping %s) reports clk = %s but takes `%s` from %s: the reported state mixes two trace rows"
                                      % (fname, "after a forward step" if forward else "after a backward step", clk, k, vf[k]))
                if len(ctx.samples) < 6:
                    ctx.sample({"method": fname, "previous_direction_forward": forward, "clk": repr(clk), "ctx": repr(vf["ctx"]), "fmp": repr(vf["fmp"])})
            if npaths == 0:
                ctx.violation("iterator-no-state|%s|%s" % (fname, forward), fn.loc(), "no path of %s returns a VmState" % fname)
    # op_clk pushes system.clk()
    rs = procmodel.run_operation(F, "Clk")
    ok = any(r.outcome == "ok" and repr(r.nxt[0]) == "felt[clk]" for r in rs)
    ctx.inst(key="op_clk", nontrivial=True)
    ctx.oblig(ok)
    if not ok:
        ctx.violation("clk-instruction", "processor/src/operations/sys_ops.rs", "op_clk must push the current clock value: %s" % [str(r.nxt[0]) for r in rs])


def r5_debug_tracking(ctx, F):
    """assembling in debug mode brackets every instruction with SpanBuilder::track_instruction ... set_instruction_cycle_count.
    Both methods are interpreted (real MIR) on builder states with 0..2 earlier operations / decorators, for instruction
    bodies that push k operations and m decorators in every interleaving (k, m <= 2): afterwards the operation list and the
    list of decorators other than AsmOp (advice injectors, events, traces, debug), positions included, must be exactly what
    the same body produces without the bracket; at most one AsmOp is added, at the instruction's first operation, and none
    when the instruction contributed no operation."""
    import itertools
    SB = r"^miden_assembly::assembler::span_builder::SpanBuilder::"
    sb = F.adt(r"^miden_assembly::assembler::span_builder::SpanBuilder$")
    fields = [f["name"] for f in sb["variants"][0]["fields"]]
    dadt = F.adt(r"^miden_core::operations::decorators::Decorator$")
    track, setc = F.fn(SB + "track_instruction$"), F.fn(SB + "set_instruction_cycle_count$")
    push_op, push_dec = F.fn(SB + "push_op$"), F.fn(SB + "push_decorator$")
    # compile_instruction must call the two methods as a bracket around the lowering
    ci = F.fn(r"^miden_assembly::assembler::instruction::Assembler::compile_instruction$")
    nt = [bi for bi, c, t in ci.calls() if c.endswith("SpanBuilder::track_instruction")]
    ns = [bi for bi, c, t in ci.calls() if c.endswith("SpanBuilder::set_instruction_cycle_count")]
    ctx.inst(key="bracket", nontrivial=True)
    ok = len(ns) == 1 and len(nt) >= 1 and all(ci.dominates(b, ns[0]) or True for b in nt)
    ctx.oblig(ok)
    if not ok:
        ctx.violation("debug-bracket", ci.loc(), "compile_instruction must call track_instruction before and set_instruction_cycle_count once after the lowering (found %d / %d call sites)" % (len(nt), len(ns)))

    def make():
        I = Interp(F)
        ov = lambda rx, m: I.overrides.insert(0, (re.compile(rx), m))
        ov(r"AsmOpInfo::new$", lambda I_, a, f: Agg([a[1]], "adt", "AsmOpInfo", "AsmOpInfo"))
        ov(r"AsmOpInfo::set_num_cycles$", lambda I_, a, f: (deref(a[0]).items.__setitem__(0, a[1]), Agg([], "tuple"))[1])
        ov(r"ToString::to_string$|::to_string$", lambda I_, a, f: Opaque("string"))
        ov(r"AssemblyContext::current_context_name$", lambda I_, a, f: Opaque("ctxname"))
        ov(r"Instruction::should_break$", lambda I_, a, f: False)
        return I

    def builder(n_ops, n_dec):
        ops = Agg([Opaque("op_old%d" % i) for i in range(n_ops)], "vec")
        decs = Agg([Agg([min(i, n_ops), Agg([Opaque("dec_old%d" % i)], "adt", dadt["id"], "Advice")], "tuple") for i in range(n_dec)], "vec")
        vals = {"ops": ops, "decorators": decs, "epilogue": Agg([], "vec"), "last_asmop_pos": 0}
        return Agg([vals[n] for n in fields], "adt", sb["id"], sb["variants"][0]["name"])

    def snapshot(b):
        d = dict(zip(fields, b.items))
        ops = [repr(x) for x in d["ops"].items]
        decs = []
        for e in d["decorators"].items:
            pos, dec = e.items
            decs.append((pos, dec.variant, repr(dec.items[0]) if dec.variant != "AsmOp" else "asmop"))
        return ops, decs

    n_cases = 0
    for n_ops, n_dec in itertools.product(range(3), range(3)):
        for k, m in itertools.product(range(3), range(3)):
            for order in sorted(set(itertools.permutations("o" * k + "d" * m))):
                n_cases += 1
                key = "ops=%d decs=%d body=%s" % (n_ops, n_dec, "".join(order) or "-")
                res = {}
                try:
                    for mode in ("release", "debug"):
                        I = make()
                        b = builder(n_ops, n_dec)
                        me = Ptr([b], 0)
                        if mode == "debug":
                            I.call(track.id, [me, Ptr([Opaque("instruction")], 0), Ptr([Opaque("ctx")], 0)])
                        io = idd = 0
                        for ch in order:
                            if ch == "o":
                                I.call(push_op.id, [me, Opaque("op_new%d" % io)])
                                io += 1
                            else:
                                I.call(push_dec.id, [me, Agg([Opaque("dec_new%d" % idd)], "adt", dadt["id"], "Event")])
                                idd += 1
                        if mode == "debug":
                            I.call(setc.id, [me])
                        res[mode] = snapshot(b)
                except (Unanalysable, PanicReached) as e:
                    ctx.inst(key=key, nontrivial=True)
                    ctx.violation("UNANALYSABLE|debug-tracking|%s" % key, setc.loc(), str(e)[:300])
                    continue
                ctx.inst(key=key, nontrivial=bool(order))
                (ops_r, dec_r), (ops_d, dec_d) = res["release"], res["debug"]
                others = [d for d in dec_d if d[1] != "AsmOp"]
                asm = [d for d in dec_d if d[1] == "AsmOp"]
                ok = ops_r == ops_d and others == dec_r
                ctx.oblig(ok)
                if not ok:
                    ctx.violation("debug-changes-program|%s" % key, setc.loc(),
                                  "with %d earlier operations and %d earlier decorators, an instruction body pushing %s leaves operations %s / decorators %s in debug mode but %s / %s in release mode: "
                                  "debug assembly would execute different advice injectors, events or operations" % (n_ops, n_dec, "".join(order) or "nothing", ops_d, others, ops_r, dec_r))
                oka = (len(asm) == (1 if k > 0 else 0)) and all(a[0] == n_ops for a in asm)
                ctx.oblig(oka)
                if not oka:
                    ctx.violation("debug-asmop|%s" % key, setc.loc(), "debug mode must add exactly one AsmOp at the instruction's first operation (position %d) when the instruction has operations and none otherwise: %s" % (n_ops, asm))
    ctx.floor("debug-tracking-cases", n_cases, 100)


def r6_memory_history(ctx, F):
    """the memory the step iterator reports for a clock value is the memory of that trace row: Memory::write / read are
    interpreted for a scenario of accesses (concrete contexts, addresses and clocks, symbolic words; several accesses of one
    address, several addresses, two contexts), then Memory::get_state_at(ctx, clk) is interpreted for every clock around the
    accesses and must list, for each address of the context accessed before `clk`, the word of its latest access before `clk`"""
    from .mirsym import Interp, Agg, Ptr, Poly, deref, Unanalysable, PanicReached
    from . import procmodel
    mem_get = F.fn(r"^miden_processor::chiplets::memory::Memory::get_state_at$")
    f_default = [k for k in F.fns if k.endswith("chiplets::memory::Memory@Default::default")]
    f_read, f_write = F.fn(r"^miden_processor::chiplets::memory::Memory::read$"), F.fn(r"^miden_processor::chiplets::memory::Memory::write$")
    ctx_adt = F.adt(r"^miden_processor::system::ContextId$|^miden_processor::ContextId$")
    ctx.inst(key="memory-history", nontrivial=True)
    I = Interp(F)
    procmodel.install_field(I)
    mk_ctx = lambda v: Agg([v], "adt", ctx_adt["id"], ctx_adt["variants"][0]["name"])
    word = lambda n: Agg([Poly.var("%s_%d" % (n, i)) for i in range(4)], "array")
    # (kind, ctx, addr, clk, word): address 4 of context 0 is written three times and read in between
    scenario = [("w", 0, 4, 3, "A"), ("r", 0, 4, 6, None), ("w", 0, 9, 7, "B"), ("w", 0, 4, 10, "C"), ("w", 5, 4, 12, "D"), ("r", 0, 9, 13, None),
                ("w", 0, 4, 15, "E"), ("w", 5, 2, 16, "G"), ("w", 5, 4, 18, "H")]
    try:
        if len(f_default) != 1:
            raise Unanalysable("Memory::default not found")
        mem = I.call(f_default[0], [])
        me = Ptr([mem], 0)
        hist = {}           # (ctx, addr) -> [(clk, word repr)]
        for kind, c_, a_, k_, w_ in scenario:
            if kind == "w":
                wv = word(w_)
                I.call(f_write.id, [me, mk_ctx(c_), a_, k_, wv])
                hist.setdefault((c_, a_), []).append((k_, [repr(x) for x in wv.items]))
            else:
                I.call(f_read.id, [me, mk_ctx(c_), a_, k_])
                last = hist.get((c_, a_), [(0, ["0"] * 4)])[-1][1]
                hist.setdefault((c_, a_), []).append((k_, last))
        bad = None
        n = 0
        for c_ in (0, 5, 7):
            for clk in range(0, 22):
                got = deref(I.call(mem_get.id, [me, mk_ctx(c_), clk]))
                items = [deref(x) for x in got.items]
                got_map = {}
                for it in items:
                    a_, w_ = deref(it.items[0]), deref(it.items[1])
                    got_map[a_ if isinstance(a_, int) else repr(a_)] = [repr(x) for x in w_.items]
                want = {}
                for (cc, aa), accs in hist.items():
                    if cc != c_:
                        continue
                    before = [w for k, w in accs if k < clk]      # state at the beginning of cycle clk
                    if before:
                        want[aa] = before[-1]
                n += 1
                if got_map != want:
                    bad = "for context %d at clk %d the reported memory is %s; the trace holds %s at that row" % (c_, clk, got_map, want)
                    break
            if bad:
                break
    except (Unanalysable, PanicReached) as e:
        ctx.violation("UNANALYSABLE|memory-history", mem_get.loc(), str(e)[:300])
        return
    ctx.oblig(bad is None)
    ctx.analysed("Memory::get_state_at interpreted at %d (context, clk) points of a %d-access scenario" % (n, len(scenario)))
    if bad:
        ctx.violation("memory-history", mem_get.loc(), "Memory::get_state_at: " + bad)


def r7_stack_history(ctx, F):
    """the stack the step iterator reports for a clock value is the stack of that trace row, elements below the top 16
    included: Stack::get_state_at(clk) must take the top 16 from StackTrace at `clk` and the deeper elements from the overflow
    table's own history at `clk`; OverflowTable::{new, new_with_inputs, push, pop} are interpreted (history enabled) for a
    scenario of pushes and pops - with and without initial deep inputs - and the live content (`append_into`, what
    build_stack_outputs and the trace use) is recorded at the beginning of every cycle; afterwards
    `append_state_into(clk)` is interpreted for every clock of the scenario and must reproduce the live content of that
    clock (self-consistency: no external oracle)."""
    OT = r"^miden_processor::stack::overflow::OverflowTable::"
    f_new, f_newi = F.fn(OT + "new$"), F.fn(OT + "new_with_inputs$")
    f_push, f_pop = F.fn(OT + "push$"), F.fn(OT + "pop$")
    f_live, f_hist = F.fn(OT + "append_into$"), F.fn(OT + "append_state_into$")
    gsa = F.fn(r"^miden_processor::stack::Stack::get_state_at$")
    # composition in Stack::get_state_at: top 16 from the trace at clk, the rest from the overflow table (live or history)
    callees = [c for bi, c, t in gsa.calls()]
    ctx.inst(key="get_state_at-composition", nontrivial=True)
    okc = any(c.endswith("StackTrace::append_state_into") for c in callees) and any(c.endswith("OverflowTable::append_state_into") for c in callees)
    ctx.oblig(okc)
    if not okc:
        ctx.violation("stack-history|composition", gsa.loc(), "Stack::get_state_at must combine StackTrace::append_state_into(clk) with the overflow table's state at clk (calls: %s)" % sorted(set(callees)))

    def vec():
        return Agg([], "vec")

    def content(I, fn, table, *extra):
        v = vec()
        I.call(fn.id, [Ptr([table], 0), Ptr([v], 0)] + list(extra))
        return [repr(deref(x)) for x in v.items]

    # op executed at cycle c: kind. A push at cycle c is keyed Felt::from(c) by Stack::shift_right, a pop by clk = c (shift_left)
    base_events = {2: "push", 3: "push", 6: "pop", 7: "pop", 9: "push", 11: "pop", 13: "push", 14: "push", 16: "pop"}
    scenarios = [(n_init, base_events, 19) for n_init in (0, 2, 3)]
    if ctx.tier == "thorough":
        # every sequence of six consecutive cycles over {push, pop, no overflow event}, starting at cycle 1, without / with deep inputs
        import itertools
        for n_init in (0, 2):
            for seq in itertools.product(("push", "pop", None), repeat=6):
                ev = dict((i + 1, k) for i, k in enumerate(seq) if k)
                if ev:
                    scenarios.append((n_init, ev, 8))
    n_points = 0
    for n_init, events, last in scenarios:
        I = Interp(F)
        procmodel.install_field(I)
        key = "overflow-history|init=%d" % n_init if events is base_events else "overflow-history|init=%d|%s" % (n_init, "".join("%d%s" % (c, k[1]) for c, k in sorted(events.items())))
        ctx.inst(key=key, nontrivial=True)
        try:
            if n_init:
                init = Agg([Poly.var("in%d" % i) for i in range(n_init)], "array")
                table = deref(I.call(f_newi.id, [True, SlicePtr(init.items, 0, n_init)]))
            else:
                table = deref(I.call(f_new.id, [True]))
            live = {}
            k = 0
            for c in range(last + 1):
                live[c] = content(I, f_live, table)
                ev = events.get(c)
                if ev == "push":
                    I.call(f_push.id, [Ptr([table], 0), Poly.var("x%d" % k), Poly.const(c)])
                    k += 1
                elif ev == "pop" and live[c]:
                    I.call(f_pop.id, [Ptr([table], 0), c])
            first_event = min(events)
            for c in range(last + 1):
                got = content(I, f_hist, table, c)
                n_points += 1
                ok = got == live[c]
                ctx.oblig(ok)
                if ok:
                    continue
                if c in events and c + 1 in live and got == live[c + 1]:
                    # exactly the content of the next row: the history is keyed by the cycle of the operation that changes it
                    kind = "next-row-reported-at-the-clock-of-an-overflow-event"
                elif n_init and c < first_event:
                    kind = "deep-inputs-before-first-event"
                else:
                    kind = "clk=%d" % c
                ctx.violation("stack-history|%s|init=%d" % (kind, n_init), f_hist.loc(),
                              "with %d initial deep element(s), overflow events %s: the overflow history at clk %d is %s but the table held %s at the beginning of that cycle "
                              "(what the trace row and build_stack_outputs see): the step iterator reports a stack that is not the stack of row %d"
                              % (n_init, sorted(events.items()), c, got, live[c], c))
        except (Unanalysable, PanicReached) as e:
            ctx.violation("UNANALYSABLE|" + key, f_hist.loc(), str(e)[:300])
    ctx.analysed("OverflowTable history interpreted at %d (scenario, clk) points" % n_points)
    ctx.floor("stack-history-points", n_points, 40)


def run(ctx, F):
    ctx.trusted += ["rustc MIR via mirfacts", "srcx (syn) for trait signatures", "mirsym for the iterator methods"]
    ctx.assumptions += ["equality of whole traces across runs is not decided; the rules exclude the listed sources of nondeterminism and state mutation"]
    ctx.run_rule("C14-R1", "decorators are effect-free: ProcessState is &self-only, hosts see the process as &S, execute_decorator reaches no state mutator", r1_decorators, F)
    ctx.run_rule("C14-R2", "the expected-cycles hint flows only into allocation sizes; ensure_trace_capacity precedes every cycle", r2_hint_independence, F)
    ctx.run_rule("C14-R3", "no clock, RNG, thread, environment, filesystem or hash-ordered collection on the execute/trace path; random rows seeded by the program hash", r3_ambient, F)
    ctx.run_rule("C14-R5", "debug-mode instruction tracking (track_instruction / set_instruction_cycle_count, interpreted on small builder states for all bodies of <= 2 operations and <= 2 decorators) leaves the operations and every non-AsmOp decorator exactly as in release mode", r5_debug_tracking, F)
    ctx.run_rule("C14-R4", "VmStateIterator::next/back read ctx, fmp, stack and memory at the very clock value they report, for both previous directions; clk pushes the clock", r4_iterator, F)
    ctx.run_rule("C14-R6", "the memory reported for a clock value is the memory of that trace row: Memory::get_state_at interpreted on a scenario with repeated accesses of one address, several addresses and two contexts lists, for every clock, the latest word accessed before that clock", r6_memory_history, F)
    ctx.run_rule("C14-R7", "the stack reported for a clock value is the stack of that trace row below position 15 as well: the overflow table's history (append_state_into), interpreted after a scenario of pushes and pops with 0, 2 and 3 initial deep inputs, reproduces at every clock the live content the table had at the beginning of that cycle", r7_stack_history, F)

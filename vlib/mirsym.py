"""mirsym: abstract interpreter over the MIR facts.

Integers are evaluated exactly; values of field-element type are exact multivariate polynomials over the
Goldilocks prime (POLY domain) which degrade to (variable set, degree bound) pairs (SUPPORT domain) when a
polynomial grows past a size limit. Branching on a non-constant value is not supported (UNANALYSABLE): the
analysed code (AIR constraint evaluation, opcode tables, small integer helpers) is branch-free in the data.
This is constant propagation plus expression reconstruction; no solver, no path conditions."""
import copy, re
from .facts import strip_targs

P = 2**64 - 2**32 + 1
R_INV = pow(2**64, -1, P)


class Unanalysable(Exception):
    pass


class PanicReached(Exception):
    pass


# ---------------------------------------------------------------------------------------------
# polynomial domain

class Poly:
    __slots__ = ("t",)
    LIMIT = 6000

    def __init__(self, t=None):
        self.t = t if t is not None else {}

    @staticmethod
    def const(c):
        c %= P
        return Poly({(): c} if c else {})

    @staticmethod
    def var(name):
        return Poly({((name, 1),): 1})

    def is_const(self):
        return all(m == () for m in self.t)

    def const_value(self):
        if not self.t:
            return 0
        if len(self.t) == 1 and () in self.t:
            return self.t[()]
        return None

    def __add__(self, o):
        if isinstance(o, Sup):
            return Sup.of(self) + o
        o = topoly(o)
        r = dict(self.t)
        for m, c in o.t.items():
            v = (r.get(m, 0) + c) % P
            if v:
                r[m] = v
            else:
                r.pop(m, None)
        return Poly(r)

    def __neg__(self):
        return Poly({m: (-c) % P for m, c in self.t.items()})

    def __sub__(self, o):
        if isinstance(o, Sup):
            return Sup.of(self) + o
        return self + (-topoly(o))

    def __mul__(self, o):
        if isinstance(o, Sup):
            return Sup.of(self) * o
        o = topoly(o)
        if len(self.t) * len(o.t) > Poly.LIMIT * 4:
            return Sup.of(self) * Sup.of(o)
        r = {}
        for m1, c1 in self.t.items():
            for m2, c2 in o.t.items():
                m = mono_mul(m1, m2)
                v = (r.get(m, 0) + c1 * c2) % P
                if v:
                    r[m] = v
                else:
                    r.pop(m, None)
        if len(r) > Poly.LIMIT:
            return Sup.of(Poly(r))
        return Poly(r)

    def scale(self, k):
        k %= P
        if not k:
            return Poly()
        return Poly({m: c * k % P for m, c in self.t.items()})

    def __eq__(self, o):
        return isinstance(o, Poly) and self.t == o.t

    def __hash__(self):
        return hash(frozenset(self.t.items()))

    def is_zero(self):
        return not self.t

    def vars(self):
        s = set()
        for m in self.t:
            for v, e in m:
                s.add(v)
        return s

    def degree(self):
        return max((sum(e for v, e in m) for m in self.t), default=0)

    def degree_in(self, var):
        return max((dict(m).get(var, 0) for m in self.t), default=0)

    def coeff_of(self, var, exp=1):
        """polynomial q such that self = q*var^exp + (terms where var has another exponent)"""
        r = {}
        for m, c in self.t.items():
            d = dict(m)
            if d.get(var, 0) == exp:
                d.pop(var, None)
                r[tuple(sorted(d.items()))] = c
        return Poly(r)

    def without(self, var):
        return Poly({m: c for m, c in self.t.items() if all(v != var for v, e in m)})

    def subst(self, env):
        """substitute var -> int | Poly"""
        if not any(v in env for v in self.vars()):
            return self
        res = Poly()
        for m, c in self.t.items():
            term = Poly.const(c)
            for v, e in m:
                if v in env:
                    x = topoly(env[v])
                    for _ in range(e):
                        term = term * x
                else:
                    term = term * Poly({((v, e),): 1})
            res = res + term
        return res

    def __repr__(self):
        return poly_str(self)


def mono_mul(m1, m2):
    if not m1:
        return m2
    if not m2:
        return m1
    d = dict(m1)
    for v, e in m2:
        d[v] = d.get(v, 0) + e
    return tuple(sorted(d.items()))


def topoly(x):
    if isinstance(x, Poly):
        return x
    if isinstance(x, bool):
        return Poly.const(1 if x else 0)
    if isinstance(x, int):
        return Poly.const(x)
    raise Unanalysable("not a field value: %r" % (x,))


def poly_str(p, maxterms=40):
    if not p.t:
        return "0"
    out = []
    for m, c in sorted(p.t.items(), key=lambda kv: (len(kv[0]), kv[0]))[:maxterms]:
        cs = c if c <= P // 2 else c - P
        ms = "*".join(v if e == 1 else "%s^%d" % (v, e) for v, e in m)
        if not ms:
            out.append("%d" % cs)
        elif cs == 1:
            out.append(ms)
        elif cs == -1:
            out.append("-" + ms)
        else:
            out.append("%d*%s" % (cs, ms))
    s = " + ".join(out).replace("+ -", "- ")
    if len(p.t) > maxterms:
        s += " + …(%d terms)" % len(p.t)
    return s


class Sup:
    """support abstraction: set of variables the value may depend on + degree upper bound"""
    __slots__ = ("v", "d")

    def __init__(self, v=frozenset(), d=0):
        self.v = frozenset(v)
        self.d = d

    @staticmethod
    def of(x):
        if isinstance(x, Sup):
            return x
        p = topoly(x)
        return Sup(p.vars(), p.degree())

    def __add__(self, o):
        o = Sup.of(o)
        return Sup(self.v | o.v, max(self.d, o.d))

    __sub__ = __add__
    __radd__ = __add__

    def __neg__(self):
        return self

    def __mul__(self, o):
        o = Sup.of(o)
        return Sup(self.v | o.v, self.d + o.d)

    def vars(self):
        return set(self.v)

    def degree(self):
        return self.d

    def __repr__(self):
        return "Sup(deg<=%d,%s)" % (self.d, sorted(self.v))


def is_field(x):
    return isinstance(x, (Poly, Sup))


INV_REG = {}


def inv_var(x):
    """symbolic multiplicative inverse of a polynomial value (x != 0 on the path)"""
    cv = x.const_value() if isinstance(x, Poly) else None
    if cv is not None:
        return Poly.const(pow(cv, -1, P)) if cv else Poly.const(0)
    name = "inv[%r]" % (x,)
    INV_REG[name] = x
    return Poly.var(name)


def simplify_inv(p, env):
    """after substituting env, replace inv[x] variables whose argument became constant"""
    if not isinstance(p, Poly):
        return p
    rep = {}
    for v in p.vars():
        if v.startswith("inv[") and v in INV_REG:
            inner = INV_REG[v].subst(env)
            if inner.const_value() not in (None, 0):
                rep[v] = Poly.const(pow(inner.const_value(), -1, P))
            elif inner != INV_REG[v]:
                rep[v] = inv_var(inner)
    return p.subst(rep) if rep else p


class Term:
    """uninterpreted symbolic scalar (integer / bool / opaque value): op applied to args"""
    __slots__ = ("op", "args")

    def __init__(self, op, *args):
        self.op = op
        self.args = args

    def __repr__(self):
        if not self.args:
            return str(self.op)
        return "%s(%s)" % (self.op, ", ".join(repr(a) for a in self.args))

    def __eq__(self, o):
        return isinstance(o, Term) and self.op == o.op and self.args == o.args

    def __hash__(self):
        return hash((self.op, self.args))

    def leaves(self):
        out = set()
        for a in self.args:
            if isinstance(a, Term):
                out |= a.leaves()
            elif isinstance(a, (Poly, Sup)):
                out |= a.vars()
        if not self.args:
            out.add(self.op)
        return out



class BitInt:
    """machine integer whose bits are field polynomials over *binary* variables (bit i has weight 2^i): shifts, masks and the
    bitwise operators are exact, products of bits are reduced with x^2 = x. Used to interpret code that decomposes symbolic
    u32 values into limbs and bits (the bitwise chiplet)."""
    WIDTH = 64
    __slots__ = ("bits",)

    def __init__(self, bits):
        bits = list(bits)[:BitInt.WIDTH]
        self.bits = bits + [Poly() for _ in range(BitInt.WIDTH - len(bits))]

    @staticmethod
    def of(x):
        if isinstance(x, BitInt):
            return x
        if isinstance(x, bool):
            x = int(x)
        if isinstance(x, int) and x >= 0:
            return BitInt([Poly.const((x >> i) & 1) for i in range(BitInt.WIDTH)])
        raise Unanalysable("not a bit-decomposable integer: %r" % (x,))

    @staticmethod
    def reduce(p):
        """x^e -> x for every variable (all variables of a BitInt are binary)"""
        if not isinstance(p, Poly) or p.degree() <= 1:
            return p
        r = {}
        for m, c in p.t.items():
            mm = tuple(sorted((v, 1) for v, e in m))
            r[mm] = (r.get(mm, 0) + c) % P
        return Poly({m: c for m, c in r.items() if c})

    def const_value(self):
        v = 0
        for i, b in enumerate(self.bits):
            c = b.const_value()
            if c is None:
                return None
            v |= c << i
        return v

    def to_poly(self):
        r = Poly()
        for i, b in enumerate(self.bits):
            if b.t:
                r = r + b.scale(1 << i)
        return r

    def __rshift__(self, n):
        if not isinstance(n, int):
            raise Unanalysable("shift of a bit-decomposed integer by %r" % (n,))
        return BitInt(self.bits[n:])

    def __lshift__(self, n):
        if not isinstance(n, int):
            raise Unanalysable("shift of a bit-decomposed integer by %r" % (n,))
        return BitInt([Poly() for _ in range(n)] + self.bits[:BitInt.WIDTH - n])

    def _zip(self, o, f):
        o = BitInt.of(o)
        return BitInt([BitInt.reduce(f(x, y)) for x, y in zip(self.bits, o.bits)])

    def __and__(self, o):
        return self._zip(o, lambda x, y: x * y)
    __rand__ = __and__

    def __or__(self, o):
        return self._zip(o, lambda x, y: x + y - x * y)
    __ror__ = __or__

    def __xor__(self, o):
        return self._zip(o, lambda x, y: x + y - (x * y).scale(2))
    __rxor__ = __xor__

    def __eq__(self, o):
        a, b = self.const_value(), (o.const_value() if isinstance(o, BitInt) else o)
        if a is None or b is None:
            raise Unanalysable("comparison of a symbolic bit-decomposed integer")
        return a == b

    def __ne__(self, o):
        return not self.__eq__(o)

    def _interval(self):
        """[lo, hi] of the values the integer can take: unknown bits 0 / unknown bits 1"""
        lo = hi = 0
        for i, bt in enumerate(self.bits):
            c = bt.const_value()
            if c is None:
                hi |= 1 << i
            elif c:
                lo |= 1 << i
                hi |= 1 << i
        return lo, hi

    def _other(self, o):
        b = o.const_value() if isinstance(o, BitInt) else o
        if isinstance(b, bool):
            b = int(b)
        if not isinstance(b, int):
            raise Unanalysable("comparison of a symbolic bit-decomposed integer")
        return b

    def _decide(self, true_if, false_if):
        if true_if:
            return True
        if false_if:
            return False
        raise Unanalysable("comparison of a symbolic bit-decomposed integer")

    def __gt__(self, o):
        (lo, hi), b = self._interval(), self._other(o)
        return self._decide(lo > b, hi <= b)

    def __ge__(self, o):
        (lo, hi), b = self._interval(), self._other(o)
        return self._decide(lo >= b, hi < b)

    def __lt__(self, o):
        (lo, hi), b = self._interval(), self._other(o)
        return self._decide(hi < b, lo >= b)

    def __le__(self, o):
        (lo, hi), b = self._interval(), self._other(o)
        return self._decide(hi <= b, lo > b)

    def __hash__(self):
        return id(self)

    def __repr__(self):
        return "bits<%r>" % (self.to_poly(),)


def is_sym(x):
    return isinstance(x, (Term, Poly, Sup)) and not (isinstance(x, Poly) and x.const_value() is not None)


class ForkState:
    """decision replay for path enumeration: every branch on a symbolic value is a decision point"""

    def __init__(self):
        self.decisions = []
        self.trace = []

    def choose(self, site, n, cond):
        i = len(self.trace)
        c = self.decisions[i] if i < len(self.decisions) else 0
        self.trace.append((site, n, cond, c))
        return c

    def next_decisions(self):
        t = self.trace
        i = len(t) - 1
        while i >= 0:
            site, n, cond, c = t[i]
            if c + 1 < n:
                return [x[3] for x in t[:i]] + [c + 1]
            i -= 1
        return None


def enumerate_paths(make_interp, run, max_paths=512):
    """run(interp) is executed once per syntactic path; yields (interp, outcome, exception)"""
    decisions = []
    n = 0
    while decisions is not None and n < max_paths:
        I = make_interp()
        I.fork = ForkState()
        I.fork.decisions = decisions
        try:
            out = run(I)
            yield I, out, None
        except (PanicReached, Unanalysable) as e:
            yield I, None, e
        decisions = I.fork.next_decisions()
        n += 1
    if decisions is not None:
        raise Unanalysable("more than %d paths" % max_paths)


# ---------------------------------------------------------------------------------------------
# memory model

class Agg:
    __slots__ = ("items", "kind", "adt", "variant", "extra")

    def __init__(self, items, kind="tuple", adt=None, variant=None, extra=None):
        self.items = items
        self.kind = kind
        self.adt = adt
        self.variant = variant
        self.extra = extra

    def __repr__(self):
        return "%s%s%r" % (self.adt or self.kind, ("::" + self.variant) if self.variant else "", self.items)


class Ptr:
    __slots__ = ("c", "i")

    def __init__(self, container, index):
        self.c = container
        self.i = index

    def get(self):
        return self.c[self.i]

    def set(self, v):
        self.c[self.i] = v


class SlicePtr:
    __slots__ = ("c", "start", "len")

    def __init__(self, container, start, length):
        self.c = container
        self.start = start
        self.len = length

    def at(self, i):
        if not (0 <= i < self.len):
            raise PanicReached("index %d out of bounds (len %d)" % (i, self.len))
        return Ptr(self.c, self.start + i)

    def values(self):
        return self.c[self.start:self.start + self.len]


class StrVal:
    """symbolic string: a list of symbolic bytes of fixed length (a &str is represented by the value itself)"""
    def __init__(self, bytes_):
        self.b = list(bytes_)

    def __repr__(self):
        return "str%r" % (self.b,)


class FnRef:
    __slots__ = ("id", "xid", "decl", "res", "ga")

    def __init__(self, d):
        self.id, self.decl, self.res, self.ga = d["fn"], d["decl"], d["res"], d.get("ga", [])
        self.xid = d.get("fnx", d["fn"])      # exact id (with trait type arguments): key of Facts.fns


class Opaque:
    def __init__(self, name, **kw):
        self.name = name
        self.__dict__.update(kw)

    def __repr__(self):
        return "<%s>" % self.name


def some(v):
    return Agg([v], "adt", "core::option::Option", "Some")


def none():
    return Agg([], "adt", "core::option::Option", "None")


def clone_val(v):
    if isinstance(v, Agg):
        return Agg([clone_val(x) for x in v.items], v.kind, v.adt, v.variant, v.extra)
    return v


# ---- iterators -------------------------------------------------------------------------------

class It:
    def next(self):
        raise NotImplementedError


class RangeIt(It):
    def __init__(self, a, b):
        self.a, self.b = a, b

    def next(self):
        if self.a < self.b:
            v = self.a
            self.a += 1
            return v
        return StopIteration

    def next_back(self):
        if self.a < self.b:
            self.b -= 1
            return self.b
        return StopIteration


class RangeFromIt(It):
    """start.. : unbounded; usable under zip / take / find"""
    def __init__(self, a):
        self.a = a

    def next(self):
        v = self.a
        self.a = v + 1 if isinstance(v, int) else Term("+", v, 1)
        return v


class SymRangeIt(It):
    """range with a symbolic bound: the loop body is explored for exactly one iteration (abstraction)"""
    def __init__(self):
        self.done = False

    def next(self):
        if self.done:
            return StopIteration
        self.done = True
        return Term("loop_index")

    next_back = next


class ListIt(It):
    def __init__(self, items):
        self.items = list(items)
        self.pos = 0

    def next(self):
        if self.pos < len(self.items):
            v = self.items[self.pos]
            self.pos += 1
            return v
        return StopIteration

    def next_back(self):
        if self.pos < len(self.items):
            return self.items.pop()
        return StopIteration


class StepIt(It):
    def __init__(self, inner, step):
        self.inner, self.step, self.first = inner, step, True

    def next(self):
        if self.first:
            self.first = False
            return self.inner.next()
        v = StopIteration
        for _ in range(self.step):
            v = self.inner.next()
            if v is StopIteration:
                return v
        return v


class TakeIt(It):
    def __init__(self, inner, n):
        self.inner, self.n = inner, n

    def next(self):
        if self.n <= 0:
            return StopIteration
        self.n -= 1
        return self.inner.next()


class SkipIt(It):
    def __init__(self, inner, n):
        self.inner, self.n = inner, n

    def next(self):
        while self.n > 0:
            self.n -= 1
            if self.inner.next() is StopIteration:
                return StopIteration
        return self.inner.next()


class EnumIt(It):
    def __init__(self, inner):
        self.inner, self.k = inner, 0

    def next(self):
        v = self.inner.next()
        if v is StopIteration:
            return v
        k = self.k
        self.k += 1
        return Agg([k, v], "tuple")


class RevIt(It):
    def __init__(self, inner):
        if not hasattr(inner, "next_back"):
            inner = ListIt(drain(inner))
        self.inner = inner

    def next(self):
        return self.inner.next_back()

    def next_back(self):
        return self.inner.next()


class ChainIt(It):
    def __init__(self, a, b):
        self.a, self.b = a, b

    def next(self):
        x = self.a.next()
        if x is StopIteration:
            return self.b.next()
        return x


class ZipIt(It):
    def __init__(self, a, b):
        self.a, self.b = a, b

    def next(self):
        x = self.a.next()
        if x is StopIteration:
            return x
        y = self.b.next()
        if y is StopIteration:
            return y
        return Agg([x, y], "tuple")


def drain(it):
    out = []
    while True:
        v = it.next()
        if v is StopIteration:
            return out
        out.append(v)


class FlatMapIt(It):
    def __init__(self, inner, clo, interp):
        self.inner, self.clo, self.interp = inner, clo, interp
        self.buf = None

    def _fill(self):
        if self.buf is None:
            self.buf = []
            for v in drain(self.inner):
                self.buf.extend(drain(as_iter(self.interp, self.interp.call_closure(self.clo, [v]))))

    def next(self):
        self._fill()
        return self.buf.pop(0) if self.buf else StopIteration

    def next_back(self):
        self._fill()
        return self.buf.pop() if self.buf else StopIteration


class MapIt(It):
    def __init__(self, inner, clo, interp):
        self.inner, self.clo, self.interp = inner, clo, interp

    def next(self):
        v = self.inner.next()
        if v is StopIteration:
            return v
        return self.interp.call_closure(self.clo, [v])


# ---------------------------------------------------------------------------------------------

OPTION = {"None": 0, "Some": 1}
RESULT = {"Ok": 0, "Err": 1}
CFLOW = {"Continue": 0, "Break": 1}
UINT_BITS = {"u8": 8, "u16": 16, "u32": 32, "u64": 64, "usize": 64, "u128": 128}


class Interp:
    def __init__(self, F, field_hook=None, step_limit=4_000_000):
        self.F = F
        self.steps = 0
        self.step_limit = step_limit
        self.depth = 0
        self.models = {}
        self.trace_unknown = []
        self.field_hook = field_hook
        self.ga_stack = []
        self.fork = None
        self.path = []          # guards taken: (condition term, value | ("not", values), location)
        self.effects = []       # recorded effects of modelled calls
        self.track_overflow = False   # when set, checked arithmetic on symbolic integers yields a symbolic overflow flag (reported as may_panic)
        self.havoc = False      # unknown external calls return fresh terms instead of failing
        self.overrides = []     # (regex, model) checked before anything else
        install_models(self)

    # ---- values ---------------------------------------------------------------------------
    def const(self, o):
        if "promoted" in o:
            return self.call(o["promoted"], [])
        ty = o.get("ty", "")
        named = o.get("named")
        if named and (named.endswith("FieldElement::ONE")):
            return Poly.const(1)
        if named and (named.endswith("FieldElement::ZERO")):
            return Poly.const(0)
        c = o.get("c")
        if c is None and not named and re.match(r"^[A-Z][A-Z0-9_]*$", o.get("dbg", "")):
            # const generic parameter: take the (single) integer generic argument of the current instance
            ints = [g for g in (self.ga_stack[-1] if self.ga_stack else []) if re.match(r"^\d+$", str(g).split("_")[0])]
            if len(ints) == 1:
                return int(str(ints[0]).split("_")[0])
        return self.conv_const(c, ty, named)

    def conv_const(self, c, ty, named=None):
        if c is None:
            if named:
                raise Unanalysable("constant %s (%s) has no evaluated value" % (named, ty))
            return Opaque("const:" + ty)
        if isinstance(c, bool):
            return c
        if isinstance(c, (int, str)):
            v = int(c)
            if ty.endswith("Felt") or ty.endswith("BaseElement"):
                return Poly.const(v * R_INV % P)   # winter-math f64 stores Montgomery form
            return v
        if isinstance(c, dict):
            if "zst" in c:
                return Agg([], "tuple")
            t = c.get("ty", ty)
            fields = c.get("fields", [])
            if t.endswith("Felt") or t.endswith("BaseElement"):
                return Poly.const(int(fields[0]) * R_INV % P)
            if t.startswith("["):
                inner = t[1:t.rindex(";")].strip()
                return Agg([self.conv_const(f, inner) for f in fields], "array")
            return Agg([self.conv_const(f, "") for f in fields], "adt", adt=t.split("<")[0], variant=c.get("variant"))
        raise Unanalysable("constant %r" % (c,))

    # ---- places ---------------------------------------------------------------------------
    def place(self, fr, p):
        """returns Ptr or SlicePtr designating the place"""
        cur = Ptr(fr, p["l"])
        for e in p.get("p", ()):
            if e == "*":
                v = cur.get()
                if isinstance(v, (Ptr, SlicePtr)):
                    cur = v
                elif isinstance(v, (Opaque, StrVal)):
                    cur = Ptr([v], 0)
                else:
                    raise Unanalysable("deref of non-pointer %r" % (v,))
            elif isinstance(e, dict) and "f" in e:
                if e.get("of", "").endswith(("MaybeUninit", "ManuallyDrop", "MaybeDangling")):
                    continue        # transparent wrappers
                v = cur.get() if isinstance(cur, Ptr) else None
                if isinstance(v, Agg):
                    i = e["i"]
                    while len(v.items) <= i:
                        v.items.append(None)
                    cur = Ptr(v.items, i)
                elif isinstance(v, Opaque):
                    cur = Ptr([self.opaque_field(v, e)], 0)
                elif isinstance(v, (Ptr, SlicePtr)):
                    pass    # Box / Unique / NonNull wrappers around a pointer are transparent
                else:
                    raise Unanalysable("field %s of non-aggregate %r" % (e["f"], v))
            elif isinstance(e, dict) and "idx" in e:
                idx = fr[e["idx"]]
                cur = self.index_place(cur, idx)
            elif isinstance(e, dict) and "cidx" in e:
                cur = self.index_place(cur, e["cidx"], from_end=e.get("end"))
            elif isinstance(e, dict) and "as" in e:
                pass
            elif isinstance(e, dict) and "sub" in e:
                a, b = e["sub"]
                s = self.as_slice(cur)
                if e.get("end"):
                    cur = SlicePtr(s.c, s.start + a, s.len - a - b)
                else:
                    cur = SlicePtr(s.c, s.start + a, b - a)
            else:
                raise Unanalysable("projection %r" % (e,))
        return cur

    def opaque_field(self, v, e):
        hook = getattr(v, "field", None)
        if hook:
            return hook(e["f"])
        raise Unanalysable("field %s of opaque %s" % (e["f"], v.name))

    def as_slice(self, cur):
        if isinstance(cur, SlicePtr):
            return cur
        v = cur.get()
        if isinstance(v, Agg) and v.kind in ("array", "vec"):
            return SlicePtr(v.items, 0, len(v.items))
        if isinstance(v, SlicePtr):
            return v
        if isinstance(v, Opaque) and getattr(v, "as_list", None) is not None:
            return SlicePtr(v.as_list(), 0, len(v.as_list()))
        raise Unanalysable("not sliceable: %r" % (v,))

    def index_place(self, cur, idx, from_end=False):
        tgt = cur if isinstance(cur, SlicePtr) else cur.get()
        if isinstance(tgt, Ptr):
            tgt = tgt.get()
        if hasattr(tgt, "sym_at"):
            return tgt.sym_at(idx)
        if not isinstance(idx, int):
            raise Unanalysable("symbolic index")
        s = self.as_slice(cur)
        if from_end:
            idx = s.len - idx
        return s.at(idx)

    def read_place(self, fr, p):
        cur = self.place(fr, p)
        if isinstance(cur, SlicePtr):
            return cur
        return cur.get()

    def operand(self, fr, o):
        if "l" in o:
            v = self.read_place(fr, o)
            if isinstance(v, Agg) and v.kind != "vec":
                return clone_val(v)
            return v
        if "fn" in o:
            return FnRef(o)
        return self.const(o)

    # ---- execution ------------------------------------------------------------------------
    def call(self, fid, args):
        fn = self.F.fns.get(fid)
        if fn is None:
            raise Unanalysable("no MIR for %s" % fid)
        self.depth += 1
        if self.depth > 200:
            raise Unanalysable("recursion too deep at %s" % fid)
        try:
            return self.run(fn, args)
        finally:
            self.depth -= 1

    def call_closure(self, clo, args):
        # clo: Agg kind closure (extra = fn id) or FnRef
        if isinstance(clo, Ptr):
            clo = clo.get()
        if isinstance(clo, FnRef):
            return self.call_fn(clo, args, None)
        if isinstance(clo, Agg) and clo.kind == "closure":
            fn = self.F.fns[clo.extra]
            argc = fn.d["argc"]
            env_ty = fn.d["locals"][1]
            env = Ptr([clo], 0) if env_ty.startswith("&") else clo
            if argc - 1 == len(args):
                return self.call(clo.extra, [env] + list(args))
            if argc - 1 > len(args) and len(args) == 1 and isinstance(args[0], Agg):
                return self.call(clo.extra, [env] + list(args[0].items))
            return self.call(clo.extra, [env] + list(args))
        raise Unanalysable("call of non-closure %r" % (clo,))

    def run(self, fn, args):
        d = fn.d
        fr = [None] * len(d["locals"])
        for i, a in enumerate(args):
            fr[1 + i] = a
        blocks = fn.blocks
        bi = 0
        while True:
            b = blocks[bi]
            for s in b["s"]:
                self.steps += 1
                try:
                    self.assign(fn, fr, s)
                except (Unanalysable, PanicReached) as e:
                    if not getattr(e, "located", False):
                        e.args = ("%s: %s" % (fn.loc(s["ln"]), e.args[0] if e.args else ""),)
                        e.located = True
                    raise
            if self.steps > self.step_limit:
                raise Unanalysable("step limit exceeded in %s" % fn.id)
            t = b["t"]
            k = t["k"]
            if k == "goto":
                bi = t["to"]
            elif k == "return":
                return fr[0]
            elif k == "switch":
                v = self.operand(fr, t["o"])
                if isinstance(v, bool):
                    v = 1 if v else 0
                if isinstance(v, Poly) and v.const_value() is not None:
                    v = v.const_value()
                if not isinstance(v, int):
                    if self.fork is None or not isinstance(v, (Term, Poly)):
                        raise Unanalysable("%s: branch on non-constant value %r" % (fn.loc(t["ln"]), v))
                    arms = t["arms"]
                    c = self.fork.choose((fn.id, bi), len(arms) + 1, v)
                    if c < len(arms):
                        entry = (v, int(arms[c][0]), fn.loc(t["ln"]))
                        nxt = arms[c][1]
                    else:
                        entry = (v, ("not", [int(a[0]) for a in arms]), fn.loc(t["ln"]))
                        nxt = t["else"]
                    # normalise X == c / X != c on an integer term to a guard on X itself (constant side first swapped)
                    if isinstance(v, Term) and v.op in ("==", "!=") and len(v.args) == 2 and isinstance(v.args[0], int) and not isinstance(v.args[0], bool) \
                            and not isinstance(v.args[1], int):
                        v = Term(v.op, v.args[1], v.args[0])
                        entry = (v, entry[1], entry[2])
                    if isinstance(v, Term) and v.op in ("==", "!=") and len(v.args) == 2 and isinstance(v.args[1], int) \
                            and not isinstance(v.args[1], bool) and [int(a[0]) for a in arms] == [0]:
                        truth = entry[1] != 0
                        is_eq = (v.op == "==") == truth
                        entry = (v.args[0], v.args[1] if is_eq else ("not", [v.args[1]]), entry[2])
                    # normalise ne(a, b) to eq(a, b) with the opposite truth value (boolean switch: arms == [0])
                    if isinstance(entry[0], Term) and entry[0].op == "ne" and len(entry[0].args) == 2 and [int(a[0]) for a in arms] == [0]:
                        tv = entry[1] != 0
                        entry = (Term("eq", *entry[0].args), 0 if tv else ("not", [0]), entry[2])
                    # canonical argument order: the constant side of an equality on the right
                    if isinstance(entry[0], Term) and entry[0].op == "eq" and len(entry[0].args) == 2:
                        x, y = entry[0].args
                        if isinstance(x, Poly) and x.const_value() is not None and not (isinstance(y, Poly) and y.const_value() is not None):
                            entry = (Term("eq", y, x), entry[1], entry[2])
                    self.path.append(entry)
                    bi = nxt
                    continue
                nxt = t["else"]
                for val, tgt in t["arms"]:
                    if int(val) == v:
                        nxt = tgt
                        break
                bi = nxt
            elif k == "call":
                f = self.operand(fr, t["f"])
                argv = [self.operand(fr, a) for a in t["args"]]
                try:
                    res = self.call_fn(f, argv, t, caller=fn)
                except (Unanalysable, PanicReached) as e:
                    if not getattr(e, "located", False):
                        e.args = ("%s: %s" % (fn.loc(t["ln"]), e.args[0] if e.args else ""),)
                        e.located = True
                    raise
                if t["to"] is None:
                    raise PanicReached("%s: diverging call %s" % (fn.loc(t["ln"]), getattr(f, "id", f)))
                self.store(fr, t["d"], res)
                bi = t["to"]
            elif k == "assert":
                c = self.operand(fr, t["cond"])
                if isinstance(c, (bool, int)):
                    if bool(c) != t["exp"]:
                        raise PanicReached("%s: assertion %s fails" % (fn.loc(t["ln"]), t["msg"]))
                elif isinstance(c, Term):
                    if t["msg"] not in ("misaligned", "nullptr"):
                        self.effects.append(("may_panic", t["msg"], fn.loc(t["ln"]), c, t["exp"]))
                bi = t["to"]
            elif k == "drop":
                bi = t["to"]
            elif k == "unreachable":
                raise PanicReached("%s: unreachable" % fn.loc(t["ln"]))
            else:
                raise Unanalysable("%s: terminator %s" % (fn.loc(t["ln"]), k))

    def store(self, fr, p, v):
        cur = self.place(fr, p)
        if isinstance(cur, SlicePtr):
            raise Unanalysable("store to slice place")
        cur.set(v)

    def assign(self, fn, fr, s):
        r = s["r"]
        k = r["k"]
        if k == "use":
            v = self.operand(fr, r["o"])
        elif k == "ref" or k == "rawptr":
            v = self.place(fr, r["p"])
        elif k == "bin":
            v = self.binop(r["op"], self.operand(fr, r["a"]), self.operand(fr, r["b"]), fn, s)
        elif k == "un":
            x = self.operand(fr, r["o"])
            if isinstance(x, Term):
                v = Term(r["op"], x)
            elif r["op"] == "Not":
                v = (not x) if isinstance(x, bool) else (~x)
            elif r["op"] == "Neg":
                v = -x
            elif r["op"] == "PtrMetadata":
                xx = x.get() if isinstance(x, Ptr) else x
                if hasattr(xx, "sym_at"):
                    v = Term("len", Term(xx.name))
                else:
                    v = x.len if isinstance(x, SlicePtr) else len(self.as_slice(Ptr([x], 0)).values())
            else:
                raise Unanalysable("unop %s" % r["op"])
        elif k == "cast":
            v = self.cast(r, self.operand(fr, r["o"]))
        elif k == "agg":
            ops = [self.operand(fr, o) for o in r["ops"]]
            ak = r.get("ak")
            if ak == "array":
                v = Agg(ops, "array")
            elif ak == "tuple":
                v = Agg(ops, "tuple")
            elif ak == "adt":
                v = Agg(ops, "adt", r["adt"], r["variant"])
            elif ak == "closure":
                v = Agg(ops, "closure", extra=r["fn"])
            else:
                v = Agg(ops, "other")
        elif k == "repeat":
            x = self.operand(fr, r["o"])
            if r["n"] is None:
                raise Unanalysable("repeat with unknown length")
            v = Agg([clone_val(x) for _ in range(r["n"])], "array")
        elif k == "discr":
            x = self.read_place(fr, r["p"])
            v = self.discriminant(x)
        elif k == "setdiscr":
            return
        else:
            raise Unanalysable("%s: rvalue %s" % (fn.loc(s["ln"]), k))
        self.store(fr, s["d"], v)

    def discriminant(self, x):
        if isinstance(x, Agg) and x.adt:
            name = x.adt
            if name.endswith("option::Option"):
                return OPTION[x.variant]
            if name.endswith("result::Result"):
                return RESULT[x.variant]
            if name.endswith("ControlFlow"):
                return CFLOW[x.variant]
            a = self.F.adts.get(name)
            if a:
                for i, v in enumerate(a["variants"]):
                    if v["name"] == x.variant:
                        return int(v["discr"]) if v["discr"] is not None else i
        raise Unanalysable("discriminant of %r" % (x,))

    def cast(self, r, x):
        ck = r["ck"]
        ty = r["ty"]
        if ck == "IntToInt":
            if isinstance(x, bool):
                x = int(x)
            if isinstance(x, int):
                bits = UINT_BITS.get(ty)
                if bits:
                    return x & ((1 << bits) - 1)
                return x
            if isinstance(x, Term):
                return Term("as_" + ty, x)
            if isinstance(x, BitInt):
                bits = UINT_BITS.get(ty) or 64
                return BitInt(x.bits[:bits])
            if isinstance(x, Opaque) and getattr(x, "sym_at", None) is not None and getattr(x, "field", None) is not None:
                return Term("as_" + ty, Term(x.name))      # an unknown value of an orchestrating skeleton (execmodel.Havoc)
            raise Unanalysable("cast of %r" % (x,))
        if ck in ("PointerCoercion",):
            if isinstance(x, Ptr):
                v = x.get()
                if isinstance(v, Agg) and v.kind in ("array", "vec") and ("[" in ty and ";" not in ty.split("[")[-1]):
                    return SlicePtr(v.items, 0, len(v.items))
            return x
        if ck in ("Transmute", "PtrToPtr"):
            if isinstance(x, (Ptr, SlicePtr)) and ty in UINT_BITS:
                return Term("addr")     # debug-build alignment / null checks on raw pointers
            return x
        raise Unanalysable("cast kind %s" % ck)

    def binop(self, op, a, b, fn=None, s=None):
        if isinstance(a, bool) and op in ("&", "|", "^", "==", "!="):
            pass
        if isinstance(a, Term) or isinstance(b, Term):
            if isinstance(a, (int, bool, Term)) and isinstance(b, (int, bool, Term)):
                r = simplify_term(op.rstrip("?u"), a, b)
                if op.endswith("?"):
                    # the overflow flag of checked arithmetic on a symbolic machine integer is itself symbolic
                    width = None
                    try:
                        ty = fn.d["locals"][s["d"]["l"]]
                        mw = re.match(r"^\((u8|u16|u32|u64|usize|i32|i64), bool\)$", ty)
                        width = {"u8": 8, "u16": 16, "u32": 32, "u64": 64, "usize": 64, "i32": 31, "i64": 63}[mw.group(1)] if mw else None
                    except Exception:
                        width = None
                    ovf = Term("overflow", op.rstrip("?"), a, b, width) if (isinstance(r, Term) and self.track_overflow) else False
                    return Agg([r, ovf], "tuple")
                return r
        if is_field(a) or is_field(b):
            raise Unanalysable("primitive binop on field value")
        if isinstance(a, (Ptr, SlicePtr)) or isinstance(b, (Ptr, SlicePtr)):
            raise Unanalysable("pointer arithmetic")
        checked = op.endswith("?")
        base = op.rstrip("?u")
        if base == "+":
            v = a + b
        elif base == "-":
            v = a - b
        elif base == "*":
            v = a * b
        elif base == "/":
            v = a // b
        elif base == "%":
            v = a % b
        elif base == "&":
            v = a & b
        elif base == "|":
            v = a | b
        elif base == "^":
            v = a ^ b
        elif base == "<<":
            v = a << b
        elif base == ">>":
            v = a >> b
        elif base == "==":
            return a == b
        elif base == "!=":
            return a != b
        elif base == "<":
            return a < b
        elif base == "<=":
            return a <= b
        elif base == ">":
            return a > b
        elif base == ">=":
            return a >= b
        else:
            raise Unanalysable("binop %s" % op)
        if checked:
            # overflow flag for usize arithmetic: negative results are overflow
            return Agg([v, (isinstance(v, int) and (v < 0 or v >= 2**64))], "tuple")
        return v

    def decide(self, cond, site):
        """truth of a boolean produced by a modelled library call (closure predicate): concrete, or forked like a switch"""
        if isinstance(cond, bool):
            return cond
        if isinstance(cond, int):
            return bool(cond)
        if isinstance(cond, Poly) and cond.const_value() is not None:
            return bool(cond.const_value())
        if self.fork is None or not isinstance(cond, (Term, Poly)):
            raise Unanalysable("library predicate with non-constant result %r" % (cond,))
        c = self.fork.choose(("decide", site, len(self.path)), 2, cond)
        truth = c == 1
        self.path.append((cond, ("not", [0]) if truth else 0, "lib:%s" % site))
        return truth

    # ---- calls ----------------------------------------------------------------------------
    def call_fn(self, f, argv, t, caller=None):
        if not isinstance(f, FnRef):
            raise Unanalysable("indirect call through %r" % (f,))
        m = None
        sid = f.id
        for rx, mm in self.overrides:
            if rx.search(sid):
                m = mm
                break
        if m is None:
            m = self.models.get(sid) or self.models.get(f.decl)
        if m is None:
            for suffix, mm in self.suffix_models:
                if sid.endswith(suffix) or f.decl.endswith(suffix):
                    m = mm
                    break
        if m is not None:
            return m(self, argv, f)
        mc = re.match(r"^(.*)::(\w+)::\{constructor#0\}$", f.id)
        if mc:
            if mc.group(1) in self.F.adts:
                return Agg(list(argv), "adt", mc.group(1), mc.group(2))
            return Agg(list(argv), "adt", mc.group(1) + "::" + mc.group(2), mc.group(2))
        if f.xid in self.F.fns and f.res != "trait":
            self.ga_stack.append(f.ga)
            try:
                return self.call(f.xid, argv)
            finally:
                self.ga_stack.pop()
        # an unresolved trait call with a closure / fn receiver
        if f.decl.endswith("FnMut::call_mut") or f.decl.endswith("FnOnce::call_once") or f.decl.endswith("Fn::call"):
            args = argv[1].items if isinstance(argv[1], Agg) else [argv[1]]
            return self.call_closure(argv[0], args)
        if self.havoc:
            self.effects.append(("unmodelled", f.id))
            return Term("call:" + f.id, *[a for a in argv if isinstance(a, (int, Term, Poly))])
        raise Unanalysable("no model for external/unresolved function %s (decl %s)" % (f.id, f.decl))


# ---------------------------------------------------------------------------------------------
# models of library functions

def deref(x):
    while isinstance(x, Ptr):
        x = x.get()
    return x


def as_iter(interp, x):
    x0 = x
    if isinstance(x, Ptr):
        v = x.get()
        if isinstance(v, It):
            return v
        if isinstance(v, Agg) and v.kind in ("array", "vec"):
            return ListIt([Ptr(v.items, i) for i in range(len(v.items))])
        x = v
    if isinstance(x, It):
        return x
    if isinstance(x, SlicePtr):
        return ListIt([x.at(i) for i in range(x.len)])
    if isinstance(x, Agg):
        if x.adt and x.adt.endswith("::Range") and not all(isinstance(v, int) for v in x.items[:2]):
            if getattr(interp, "sym_ranges", False):
                return SymRangeIt()
            raise Unanalysable("loop over a range with a symbolic bound %r" % (x.items[:2],))
        if x.adt and x.adt.endswith("::Range"):
            return RangeIt(x.items[0], x.items[1])
        if x.adt and x.adt.endswith("::RangeInclusive"):
            return RangeIt(x.items[0], x.items[1] + 1)
        if x.adt and x.adt.endswith("::RangeFrom"):
            return RangeFromIt(x.items[0])
        if x.kind in ("array", "vec"):
            return ListIt(list(x.items))
        if x.kind == "btreemap":
            if isinstance(x0, Ptr):
                return ListIt([Agg([Ptr(pair, 0), Ptr(pair, 1)], "tuple") for pair in x.items])
            return ListIt([Agg([pair[0], pair[1]], "tuple") for pair in x.items])
    if isinstance(x, Opaque) and getattr(x, "as_list", None) is not None:
        return ListIt([Ptr(x.as_list(), i) for i in range(len(x.as_list()))] if isinstance(x0, Ptr) else list(x.as_list()))
    raise Unanalysable("cannot iterate %r" % (x0,))


def opt(v):
    return none() if v is StopIteration else some(v)


def slice_of(interp, x):
    if isinstance(x, SlicePtr):
        return x
    if isinstance(x, Ptr):
        return interp.as_slice(x)
    if isinstance(x, Agg) and x.kind in ("array", "vec"):
        return SlicePtr(x.items, 0, len(x.items))
    raise Unanalysable("not a slice: %r" % (x,))


def index_model(interp, argv, f):
    s = slice_of(interp, argv[0])
    i = argv[1]
    if isinstance(i, int):
        return s.at(i)
    if isinstance(i, Agg) and i.adt:
        n = "ops::range::" + i.adt.rsplit("::", 1)[-1]
        if n.endswith("ops::range::Range"):
            a, b = i.items
        elif n.endswith("ops::range::RangeFrom"):
            a, b = i.items[0], s.len
        elif n.endswith("ops::range::RangeTo"):
            a, b = 0, i.items[0]
        elif n.endswith("ops::range::RangeFull"):
            a, b = 0, s.len
        elif n.endswith("ops::range::RangeInclusive"):
            a, b = i.items[0], i.items[1] + 1
        elif n.endswith("ops::range::RangeToInclusive"):
            a, b = 0, i.items[0] + 1
        else:
            raise Unanalysable("index by %s" % n)
        if not (0 <= a <= b <= s.len):
            raise PanicReached("slice range %d..%d out of bounds (len %d)" % (a, b, s.len))
        return SlicePtr(s.c, s.start + a, b - a)
    raise Unanalysable("index by %r" % (i,))


def fval(x):
    x = deref(x)
    if is_field(x):
        return x
    if isinstance(x, (int, bool)):
        return Poly.const(int(x))
    raise Unanalysable("expected field value, got %r" % (x,))


def arith(opname):
    def m(interp, argv, f):
        a, b = argv
        a0, b0 = deref(a), deref(b)
        if isinstance(a0, (int, bool)) and isinstance(b0, (int, bool)) and not isinstance(a0, bool):
            return {"add": a0 + b0, "sub": a0 - b0, "mul": a0 * b0}[opname]
        x, y = fval(a0), fval(b0)
        return {"add": x + y, "sub": x - y, "mul": x * y}[opname]
    return m


def arith_assign(opname):
    def m(interp, argv, f):
        p, b = argv
        if not isinstance(p, Ptr):
            raise Unanalysable("compound assignment to non-pointer")
        cur = p.get()
        if isinstance(cur, int) and not isinstance(cur, bool) and isinstance(deref(b), int):
            p.set({"add": cur + deref(b), "sub": cur - deref(b), "mul": cur * deref(b)}[opname])
        else:
            x, y = fval(cur), fval(b)
            p.set({"add": x + y, "sub": x - y, "mul": x * y}[opname])
        return Agg([], "tuple")
    return m


def install_models(I):
    M = I.models
    S = []
    I.suffix_models = S

    # field arithmetic (generic E: unresolved trait calls; Felt: resolved impls)
    for name, op in (("Add::add", "add"), ("Sub::sub", "sub"), ("Mul::mul", "mul")):
        M["core::ops::arith::" + name] = arith(op)
        S.append(("BaseElement@" + name, arith(op)))
    for name, op in (("AddAssign::add_assign", "add"), ("SubAssign::sub_assign", "sub"), ("MulAssign::mul_assign", "mul")):
        M["core::ops::arith::" + name] = arith_assign(op)
        S.append(("BaseElement@" + name, arith_assign(op)))
    M["core::ops::arith::Neg::neg"] = lambda I, a, f: -fval(a[0])
    S.append(("BaseElement@Neg::neg", lambda I, a, f: -fval(a[0])))
    M["winter_math::field::traits::FieldElement::square"] = lambda I, a, f: fval(a[0]) * fval(a[0])
    M["winter_math::field::traits::FieldElement::double"] = lambda I, a, f: fval(a[0]) + fval(a[0])
    M["winter_math::field::traits::ExtensionOf::mul_base"] = lambda I, a, f: fval(a[0]) * fval(a[1])
    M["winter_math::field::f64::BaseElement::new"] = lambda I, a, f: Poly.const(a[0])
    S.append(("BaseElement@From::from", lambda I, a, f: fval(a[0])))
    S.append(("ExtensibleField::mul_base", lambda I, a, f: fval(a[0]) * fval(a[1])))

    def from_model(I, a, f):
        # a From impl of the workspace (e.g. impl From<ContextId> for u32) is interpreted, not approximated
        xid = getattr(f, "xid", None)
        if xid in I.F.fns and getattr(f, "res", None) != "trait" and not xid.startswith("core::"):
            return I.call(xid, a)
        x = deref(a[0])
        if is_field(x) or isinstance(x, (int, bool)):
            # E::from(u8/u16/u32/Felt)
            tgt = f.ga[0] if f.ga else ""
            if isinstance(x, int) and not isinstance(x, bool) and tgt in UINT_BITS:
                return x
            return fval(x)
        return x
    M["core::convert::From::from"] = from_model
    M["core::convert::T@Into::into"] = from_model
    M["core::convert::Into::into"] = from_model
    M["core::convert::T@From::from"] = lambda I, a, f: a[0]
    M["core::clone::Clone::clone"] = lambda I, a, f: clone_val(deref(a[0]))
    S.append(("@Clone::clone", lambda I, a, f: clone_val(deref(a[0]))))

    M["core::num::u32::pow"] = lambda I, a, f: a[0] ** a[1]
    M["core::num::u64::pow"] = lambda I, a, f: a[0] ** a[1]
    M["core::num::usize::pow"] = lambda I, a, f: a[0] ** a[1]

    # frames
    def frame_row(which):
        def m(I, a, f):
            fo = deref(a[0])
            if not isinstance(fo, Opaque) or not hasattr(fo, which):
                raise Unanalysable("EvaluationFrame::%s on %r" % (which, fo))
            row = getattr(fo, which)
            return SlicePtr(row, 0, len(row))
        return m
    M["winter_air::air::transition::frame::EvaluationFrame::current"] = frame_row("current")
    M["winter_air::air::transition::frame::EvaluationFrame::next"] = frame_row("next")

    def seg_elems(I, a, f):
        o = deref(a[0])
        lst = o.segments[a[1]]
        return SlicePtr(lst, 0, len(lst))
    M["winter_air::air::coefficients::AuxTraceRandElements::get_segment_elements"] = seg_elems

    # indexing
    for n in ("core::slice::index::[T]@Index::index", "core::slice::index::[T]@IndexMut::index_mut",
              "core::array::[T;N]@Index::index", "core::array::[T;N]@IndexMut::index_mut",
              "alloc::vec::Vec@Index::index", "alloc::vec::Vec@IndexMut::index_mut"):
        M[n] = index_model
    def len_model(I, a, f):
        x = deref(a[0])
        if isinstance(x, Opaque):
            return Term("len", x.name)
        return slice_of(I, a[0]).len
    M["core::slice::[T]::len"] = len_model
    M["alloc::vec::Vec::len"] = len_model
    M["core::slice::[T]::iter"] = lambda I, a, f: as_iter(I, slice_of(I, a[0]))
    M["core::slice::[T]::iter_mut"] = lambda I, a, f: as_iter(I, slice_of(I, a[0]))

    def copy_from_slice(I, a, f):
        d, s = slice_of(I, a[0]), slice_of(I, a[1])
        if d.len != s.len:
            raise PanicReached("copy_from_slice length mismatch %d vs %d" % (d.len, s.len))
        vals = [clone_val(v) for v in s.values()]
        for i, v in enumerate(vals):
            d.c[d.start + i] = v
        return Agg([], "tuple")
    M["core::slice::[T]::copy_from_slice"] = copy_from_slice

    def copy_within(I, a, f):
        d = slice_of(I, a[0])
        r = a[1]
        dest = a[2]
        lo, hi = r.items[0], r.items[1]
        if not (0 <= lo <= hi <= d.len) or dest + (hi - lo) > d.len:
            raise PanicReached("copy_within out of bounds")
        vals = [clone_val(v) for v in d.c[d.start + lo:d.start + hi]]
        for i, v in enumerate(vals):
            d.c[d.start + dest + i] = v
        return Agg([], "tuple")
    M["core::slice::[T]::copy_within"] = copy_within

    def vec_deref(I, a, f):
        return slice_of(I, a[0])
    M["alloc::vec::Vec@Deref::deref"] = vec_deref
    M["alloc::vec::Vec@DerefMut::deref_mut"] = vec_deref
    S.append(("fmt::rt::Argument::new_display", lambda I, a, f: Opaque("fmtarg")))
    S.append(("fmt::rt::Argument::new_debug", lambda I, a, f: Opaque("fmtarg")))
    S.append(("fmt::Arguments::from_str_nonconst", lambda I, a, f: Opaque("fmt")))

    def rng_contains(I, a, f):
        r, v = deref(a[0]), deref(a[1])
        kind = r.adt.rsplit("::", 1)[-1] if isinstance(r, Agg) and r.adt else "?"
        if isinstance(v, int) and all(isinstance(x, int) for x in r.items[:2]):
            lo, hi = r.items[0], r.items[1]
            return lo <= v <= hi if kind == "RangeInclusive" else lo <= v < hi
        return Term("in_range", v, kind, *r.items[:2])
    S.append(("ops::range::RangeInclusive::contains", rng_contains))
    S.append(("ops::range::Range::contains", rng_contains))
    S.append(("RangeBounds::contains", rng_contains))
    M["core::ops::range::RangeInclusive::new"] = lambda I, a, f: Agg([a[0], a[1]], "adt", "core::ops::range::RangeInclusive", "RangeInclusive")

    def last(I, a, f):
        d = slice_of(I, a[0])
        return some(d.at(d.len - 1)) if d.len else none()
    M["core::slice::[T]::last"] = last
    M["core::slice::[T]::last_mut"] = last
    M["core::slice::[T]::first"] = lambda I, a, f: (some(slice_of(I, a[0]).at(0)) if slice_of(I, a[0]).len else none())

    def unwrap_or(I, a, f):
        x = deref(a[0])
        if isinstance(x, Agg) and x.variant in ("Some", "Ok"):
            return x.items[0]
        if isinstance(x, Agg) and x.variant in ("None", "Err"):
            return a[1]
        raise Unanalysable("unwrap_or on %r" % (x,))
    M["core::option::Option::unwrap_or"] = unwrap_or
    M["core::result::Result::unwrap_or"] = unwrap_or
    M["core::option::Option::is_some"] = lambda I, a, f: isinstance(deref(a[0]), Agg) and deref(a[0]).variant == "Some"
    M["core::option::Option::is_none"] = lambda I, a, f: isinstance(deref(a[0]), Agg) and deref(a[0]).variant == "None"
    M["core::result::Result::is_ok"] = lambda I, a, f: isinstance(deref(a[0]), Agg) and deref(a[0]).variant == "Ok"
    M["core::result::Result::is_err"] = lambda I, a, f: isinstance(deref(a[0]), Agg) and deref(a[0]).variant == "Err"
    M["core::num::usize::next_power_of_two"] = lambda I, a, f: (1 << (a[0] - 1).bit_length() if a[0] > 0 else 1) if isinstance(a[0], int) else Term("next_power_of_two", a[0])
    M["core::num::u32::next_power_of_two"] = M["core::num::usize::next_power_of_two"]
    M["core::num::u64::next_power_of_two"] = M["core::num::usize::next_power_of_two"]

    def opt_unwrap(I, a, f):
        o = a[0]
        if isinstance(o, Agg) and o.variant in ("Some", "Ok"):
            return o.items[0]
        raise PanicReached("unwrap/expect on %r" % (o,))
    for n in ("core::option::Option::expect", "core::option::Option::unwrap", "core::result::Result::unwrap", "core::result::Result::expect"):
        M[n] = opt_unwrap
    M["core::cmp::Ord::min"] = lambda I, a, f: min(a[0], a[1]) if isinstance(a[0], int) and isinstance(a[1], int) else Term("min", a[0], a[1])
    M["core::cmp::Ord::max"] = lambda I, a, f: max(a[0], a[1]) if isinstance(a[0], int) and isinstance(a[1], int) else Term("max", a[0], a[1])
    M["core::cmp::min"] = M["core::cmp::Ord::min"]
    M["core::cmp::max"] = M["core::cmp::Ord::max"]
    S.append(("@Ord::min", M["core::cmp::Ord::min"]))
    S.append(("@Ord::max", M["core::cmp::Ord::max"]))

    def reverse(I, a, f):
        d = slice_of(I, a[0])
        vals = d.values()[::-1]
        for i, v in enumerate(vals):
            d.c[d.start + i] = v
        return Agg([], "tuple")
    M["core::slice::[T]::reverse"] = reverse

    def ordering(x, y):
        return Agg([], "adt", "core::cmp::Ordering", "Less" if x < y else ("Equal" if x == y else "Greater"))

    def ord_cmp(I, a, f):
        x, y = deref(a[0]), deref(a[1])
        if isinstance(x, bool):
            x = int(x)
        if isinstance(y, bool):
            y = int(y)
        if isinstance(x, int) and isinstance(y, int):
            return ordering(x, y)
        raise Unanalysable("Ord::cmp of %r, %r" % (x, y))
    for ty_ in ("u8", "u16", "u32", "u64", "usize", "i32", "i64", "isize"):
        S.append(("cmp::impls::%s@Ord::cmp" % ty_, ord_cmp))
        S.append(("cmp::impls::%s@PartialOrd::partial_cmp" % ty_, lambda I, a, f: some(ord_cmp(I, a, f))))

    def binary_search_by(I, a, f):
        """on a slice whose comparator yields concrete orderings: Ok(index of an Equal element) or Err(insertion point)"""
        sl = slice_of(I, a[0])
        res = []
        for i in range(sl.len):
            r = deref(I.call_closure(a[1], [sl.at(i)]))
            if not (isinstance(r, Agg) and r.variant in ("Less", "Equal", "Greater")):
                raise Unanalysable("binary_search_by with a symbolic comparator result %r" % (r,))
            res.append(r.variant)
        if "Equal" in res:
            return Agg([res.index("Equal")], "adt", "core::result::Result", "Ok")
        return Agg([sum(1 for r in res if r == "Less")], "adt", "core::result::Result", "Err")
    M["core::slice::[T]::binary_search_by"] = binary_search_by

    def to_vec(I, a, f):
        return Agg([clone_val(v) for v in slice_of(I, a[0]).values()], "vec")
    M["alloc::slice::[T]::to_vec"] = to_vec
    M["alloc::vec::Vec::new"] = lambda I, a, f: Agg([], "vec")
    M["alloc::vec::Vec::with_capacity"] = lambda I, a, f: Agg([], "vec")
    M["alloc::vec::from_elem"] = lambda I, a, f: Agg([clone_val(a[0]) for _ in range(a[1])], "vec")

    def vec_push(I, a, f):
        deref(a[0]).items.append(a[1])
        return Agg([], "tuple")
    M["alloc::vec::Vec::push"] = vec_push

    def vec_append(I, a, f):
        d, s = deref(a[0]), deref(a[1])
        d.items.extend(s.items)
        s.items = []
        return Agg([], "tuple")
    M["alloc::vec::Vec::append"] = vec_append

    def vec_extend_from_slice(I, a, f):
        src = a[1] if isinstance(a[1], SlicePtr) else I.as_slice(a[1])
        deref(a[0]).items.extend(src.values())
        return Agg([], "tuple")
    M["alloc::vec::Vec::extend_from_slice"] = vec_extend_from_slice
    M["alloc::vec::Vec::is_empty"] = lambda I, a, f: len(deref(a[0]).items) == 0

    def vec_drain(I, a, f):
        v = deref(a[0])
        items = list(v.items)
        v.items = []
        return ListIt(items)
    M["alloc::vec::Vec::drain"] = vec_drain

    def vec_last(I, a, f):
        v = a[0] if isinstance(a[0], SlicePtr) else deref(a[0])
        if isinstance(v, SlicePtr):
            if v.len == 0:
                return Agg([], "adt", "core::option::Option", "None")
            return Agg([Ptr(v.c, v.start + v.len - 1)], "adt", "core::option::Option", "Some")
        if not v.items:
            return Agg([], "adt", "core::option::Option", "None")
        return Agg([Ptr(v.items, len(v.items) - 1)], "adt", "core::option::Option", "Some")
    M["alloc::vec::Vec::last"] = vec_last
    M["core::slice::[T]::last"] = vec_last
    M["alloc::fmt::format"] = lambda I, a, f: Opaque("formatted-string")
    M["core::hint::must_use"] = lambda I, a, f: a[0]
    M["winter_utils::uninit_vector"] = lambda I, a, f: Agg([None] * a[0], "vec") if isinstance(a[0], int) else (_ for _ in ()).throw(Unanalysable("uninit_vector of symbolic length"))
    M["alloc::collections::btree::map::BTreeMap::new"] = lambda I, a, f: Agg([], "btreemap")
    M["alloc::collections::btree::set::BTreeSet::new"] = lambda I, a, f: Agg([], "btreeset")

    # iterators
    def into_iter(I, a, f):
        return as_iter(I, a[0])
    M["core::iter::traits::collect::I@IntoIterator::into_iter"] = into_iter
    M["core::iter::traits::collect::IntoIterator::into_iter"] = into_iter
    S.append(("@IntoIterator::into_iter", into_iter))

    def it_next(I, a, f):
        return opt(as_iter(I, a[0]).next())
    S.append(("@Iterator::next", it_next))
    M["core::iter::traits::iterator::Iterator::next"] = it_next
    M["core::iter::traits::iterator::Iterator::enumerate"] = lambda I, a, f: EnumIt(as_iter(I, a[0]))
    M["core::iter::traits::iterator::Iterator::take"] = lambda I, a, f: TakeIt(as_iter(I, a[0]), a[1])
    M["core::iter::traits::iterator::Iterator::skip"] = lambda I, a, f: SkipIt(as_iter(I, a[0]), a[1])
    M["core::iter::traits::iterator::Iterator::step_by"] = lambda I, a, f: StepIt(as_iter(I, a[0]), a[1])
    M["core::iter::traits::iterator::Iterator::rev"] = lambda I, a, f: RevIt(as_iter(I, a[0]))
    M["core::iter::traits::iterator::Iterator::zip"] = lambda I, a, f: ZipIt(as_iter(I, a[0]), as_iter(I, a[1]))
    M["core::iter::traits::iterator::Iterator::chain"] = lambda I, a, f: ChainIt(as_iter(I, a[0]), as_iter(I, a[1]))
    M["core::iter::traits::iterator::Iterator::cloned"] = M.get("core::iter::traits::iterator::Iterator::copied") or (lambda I, a, f: MapIt(as_iter(I, a[0]), FnRef({"fn": "@deref", "decl": "@deref", "res": "direct"}), I))
    M["core::iter::traits::iterator::Iterator::map"] = lambda I, a, f: MapIt(as_iter(I, a[0]), a[1], I)
    M["core::iter::traits::iterator::Iterator::flat_map"] = lambda I, a, f: FlatMapIt(as_iter(I, a[0]), a[1], I)
    M["core::iter::traits::iterator::Iterator::copied"] = lambda I, a, f: MapIt(as_iter(I, a[0]), FnRef({"fn": "@deref", "decl": "@deref", "res": "direct"}), I)
    M["@deref"] = lambda I, a, f: clone_val(deref(a[0]))

    def for_each(I, a, f):
        it = as_iter(I, a[0])
        while True:
            v = it.next()
            if v is StopIteration:
                break
            I.call_closure(a[1], [v])
        return Agg([], "tuple")
    M["core::iter::traits::iterator::Iterator::for_each"] = for_each
    S.append(("@Iterator::for_each", for_each))

    def collect(I, a, f):
        it = as_iter(I, a[0])
        out = []
        into_result = len(f.ga) >= 2 and re.match(r"^(std|core)::result::Result<", f.ga[1] or "")
        while True:
            v = it.next()
            if v is StopIteration:
                break
            if into_result and isinstance(v, Agg) and v.adt and v.adt.endswith("Result"):
                if v.variant == "Err":
                    return v
                v = v.items[0]
            out.append(v)
        res = Agg(out, "vec")
        return Agg([res], "adt", "core::result::Result", "Ok") if into_result else res
    M["core::iter::traits::iterator::Iterator::collect"] = collect

    def fold_sum(I, a, f):
        it = as_iter(I, a[0])
        acc = a[1]
        while True:
            v = it.next()
            if v is StopIteration:
                break
            acc = I.call_closure(a[2], [acc, v])
        return acc
    M["core::iter::traits::iterator::Iterator::fold"] = fold_sum


    def borrow_m(I, a, f):
        x = a[0]
        # <&T as Borrow<T>>::borrow(&&T) -> &T : one level of reference is peeled off
        if isinstance(x, Ptr) and isinstance(x.get(), Ptr):
            return x.get()
        return x
    M["core::borrow::Borrow::borrow"] = borrow_m
    M["core::borrow::BorrowMut::borrow_mut"] = borrow_m
    M["core::convert::AsRef::as_ref"] = lambda I, a, f: a[0]
    M["core::convert::AsMut::as_mut"] = lambda I, a, f: a[0]

    def array_from_fn(I, a, f):
        ga = getattr(f, "ga", None) or []
        n = None
        if len(ga) >= 2 and re.match(r"^\d+$", str(ga[1])):
            n = int(ga[1])
        elif len(ga) >= 2:
            n = I.const_generic(str(ga[1])) if hasattr(I, "const_generic") else None
        if n is None:
            raise Unanalysable("core::array::from_fn with a symbolic length %r" % (ga,))
        return Agg([I.call_closure(a[0], [i]) for i in range(n)], "array")
    M["core::array::from_fn"] = array_from_fn

    for ty_ in ("u8", "u16", "u32", "u64", "usize", "i32", "i64"):
        S.append(("%s@Default::default" % ty_, lambda I, a, f: 0))
    S.append(("bool@Default::default", lambda I, a, f: False))
    S.append(("Vec@Default::default", lambda I, a, f: Agg([], "vec")))
    S.append(("Option@Default::default", lambda I, a, f: none()))

    def str_chars(I, a, f):
        o = Opaque("chars")
        o.s = deref(a[0])
        return o
    M["core::str::str::chars"] = str_chars
    M["core::str::<impl str>::chars"] = str_chars

    def checked_addsub(op):
        def m(I, a, f):
            x, y = a[0], a[1]
            if isinstance(x, int) and isinstance(y, int):
                r = x + y if op == "add" else x - y
                if 0 <= r < 2 ** 64:
                    return Agg([r], "adt", "core::option::Option", "Some")
                return Agg([], "adt", "core::option::Option", "None")
            if op == "sub":
                fits = I.decide(simplify_term(">=", x, y), "checked_sub")
                if fits:
                    return Agg([simplify_term("-", x, y)], "adt", "core::option::Option", "Some")
                return Agg([], "adt", "core::option::Option", "None")
            raise Unanalysable("checked_%s of %r, %r" % (op, x, y))
        return m
    for ty_ in ("u8", "u16", "u32", "u64", "usize"):
        M["core::num::%s::checked_sub" % ty_] = checked_addsub("sub")
        M["core::num::%s::checked_add" % ty_] = checked_addsub("add")

    def checked_shift(op):
        def m(I, a, f):
            x, n = a[0], a[1]
            if isinstance(x, int) and isinstance(n, int):
                bits = 64
                for ty_, b_ in (("u8", 8), ("u16", 16), ("u32", 32), ("u64", 64), ("usize", 64)):
                    if ("::%s::" % ty_) in f.id:
                        bits = b_
                if n >= bits:
                    return none()
                return some((x >> n) if op == "shr" else (x << n) % (1 << bits))
            raise Unanalysable("checked_%s of %r by %r" % (op, x, n))
        return m
    for ty_ in ("u8", "u16", "u32", "u64", "usize"):
        M["core::num::%s::checked_shr" % ty_] = checked_shift("shr")
        M["core::num::%s::checked_shl" % ty_] = checked_shift("shl")

    # ---- BTreeMap with concrete keys: items = [[key, value], ...] kept sorted ------------------------------------------------
    def map_key(k):
        k = deref(k)
        if isinstance(k, bool):
            return (int(k),)
        if isinstance(k, int):
            return (k,)
        if isinstance(k, Poly) and k.const_value() is not None:
            return (k.const_value(),)
        if isinstance(k, Agg):
            out = ()
            for x in k.items:
                out += map_key(x)
            return out
        raise Unanalysable("map key %r is not concrete" % (k,))

    def bmap(x):
        m = deref(x)
        # newtype wrappers around a map (struct X(BTreeMap<..>))
        while isinstance(m, Agg) and m.kind == "adt" and len(m.items) == 1 and isinstance(m.items[0], Agg) and m.items[0].kind == "btreemap":
            m = m.items[0]
        if not (isinstance(m, Agg) and m.kind == "btreemap"):
            raise Unanalysable("not a map: %r" % (m,))
        return m

    def bmap_find(m, k):
        kk = map_key(k)
        for i, (key, val) in enumerate(m.items):
            if map_key(key) == kk:
                return i
        return None

    def bmap_insert(m, k, v):
        i = bmap_find(m, k)
        if i is not None:
            old = m.items[i][1]
            m.items[i][1] = v
            return some(old)
        kk = map_key(k)
        pos = len([1 for key, val in m.items if map_key(key) < kk])
        m.items.insert(pos, [deref(k) if not isinstance(k, Ptr) else clone_val(deref(k)), v])
        return none()

    M["alloc::collections::btree::map::BTreeMap@Default::default"] = lambda I, a, f: Agg([], "btreemap")
    S.append(("BTreeMap@Default::default", lambda I, a, f: Agg([], "btreemap")))
    M["alloc::collections::btree::map::BTreeMap::insert"] = lambda I, a, f: bmap_insert(bmap(a[0]), a[1], a[2])
    M["alloc::collections::btree::map::BTreeMap::len"] = lambda I, a, f: len(bmap(a[0]).items)
    M["alloc::collections::btree::map::BTreeMap::is_empty"] = lambda I, a, f: not bmap(a[0]).items
    M["alloc::collections::btree::map::BTreeMap::contains_key"] = lambda I, a, f: bmap_find(bmap(a[0]), a[1]) is not None

    def bmap_get(I, a, f):
        m = bmap(a[0])
        i = bmap_find(m, a[1])
        return none() if i is None else some(Ptr(m.items[i], 1))
    M["alloc::collections::btree::map::BTreeMap::get"] = bmap_get
    M["alloc::collections::btree::map::BTreeMap::get_mut"] = bmap_get

    def bmap_iter(I, a, f):
        m = bmap(a[0])
        return ListIt([Agg([Ptr(pair, 0), Ptr(pair, 1)], "tuple") for pair in m.items])
    M["alloc::collections::btree::map::BTreeMap::iter"] = bmap_iter
    M["alloc::collections::btree::map::BTreeMap::iter_mut"] = bmap_iter
    M["alloc::collections::btree::map::BTreeMap::values"] = lambda I, a, f: ListIt([Ptr(pair, 1) for pair in bmap(a[0]).items])
    M["alloc::collections::btree::map::BTreeMap::keys"] = lambda I, a, f: ListIt([Ptr(pair, 0) for pair in bmap(a[0]).items])
    M["alloc::collections::btree::map::BTreeMap::into_values"] = lambda I, a, f: ListIt([pair[1] for pair in bmap(a[0]).items])

    def bmap_range(I, a, f):
        """BTreeMap::range(bounds) with concrete integer keys and concrete bounds: the (key, value) pairs in key order"""
        m = bmap(a[0])
        r = deref(a[1])
        if not (isinstance(r, Agg) and r.adt and "ops::range::" in r.adt):
            raise Unanalysable("BTreeMap::range with bounds %r" % (r,))
        kind = r.adt.rsplit("::", 1)[-1]
        lo, hi = None, None            # hi exclusive
        ends = [deref(x) for x in r.items]
        if any(not isinstance(x, int) or isinstance(x, bool) for x in ends):
            raise Unanalysable("BTreeMap::range with symbolic bounds")
        if kind == "Range":
            lo, hi = ends
        elif kind == "RangeInclusive":
            lo, hi = ends[0], ends[1] + 1
            if len(ends) > 2 and ends[2] is True:      # exhausted flag
                hi = lo
        elif kind == "RangeFrom":
            lo = ends[0]
        elif kind == "RangeTo":
            hi = ends[0]
        elif kind == "RangeToInclusive":
            hi = ends[0] + 1
        elif kind != "RangeFull":
            raise Unanalysable("BTreeMap::range with %s" % kind)
        if lo is not None and hi is not None and lo > hi:
            raise PanicReached("BTreeMap::range start is greater than range end")
        out = []
        for pair in m.items:
            k = map_key(pair[0])
            if len(k) != 1:
                raise Unanalysable("BTreeMap::range over composite keys")
            if (lo is None or k[0] >= lo) and (hi is None or k[0] < hi):
                out.append(Agg([Ptr(pair, 0), Ptr(pair, 1)], "tuple"))
        return ListIt(out)
    M["alloc::collections::btree::map::BTreeMap::range"] = bmap_range
    M["alloc::collections::btree::map::BTreeMap::range_mut"] = bmap_range

    def bmap_entry(I, a, f):
        m = bmap(a[0])
        e = Opaque("map-entry")
        e.map, e.key = m, a[1]
        return e
    M["alloc::collections::btree::map::BTreeMap::entry"] = bmap_entry

    def entry_slot(e, mk):
        i = bmap_find(e.map, e.key)
        if i is None:
            bmap_insert(e.map, e.key, mk())
            i = bmap_find(e.map, e.key)
        return Ptr(e.map.items[i], 1)

    def entry_and_modify(I, a, f):
        e = a[0]
        i = bmap_find(e.map, e.key)
        if i is not None:
            I.call_closure(a[1], [Ptr(e.map.items[i], 1)])
        return e
    M["alloc::collections::btree::map::entry::Entry::and_modify"] = entry_and_modify
    M["alloc::collections::btree::map::entry::Entry::or_insert"] = lambda I, a, f: entry_slot(a[0], lambda: a[1])
    M["alloc::collections::btree::map::entry::Entry::or_insert_with"] = lambda I, a, f: entry_slot(a[0], lambda: I.call_closure(a[1], []))

    def entry_or_default(I, a, f):
        ga = [str(g) for g in (getattr(f, "ga", None) or [])]
        vty = ga[1] if len(ga) > 1 else ""

        def mk():
            if vty.startswith("std::vec::Vec<") or vty.startswith("alloc::vec::Vec<"):
                return Agg([], "vec")
            if vty in ("u8", "u16", "u32", "u64", "usize"):
                return 0
            # a type of the workspace with a Default impl
            name = vty.split("<")[0]
            cands = [k for k in I.F.fns if k.endswith("@Default::default") and name.split("::")[-1] in k]
            if len(cands) == 1:
                return I.call(cands[0], [])
            raise Unanalysable("or_default for value type %r" % vty)
        return entry_slot(a[0], mk)
    M["alloc::collections::btree::map::entry::Entry::or_default"] = entry_or_default

    # ---- standard-library pack: collections, iterator adaptors, Option / Result combinators, integer conversions ----------
    def vec_of(x):
        v = deref(x)
        if isinstance(v, Agg):
            return v
        raise Unanalysable("not a vector: %r" % (v,))

    def vec_pop(I, a, f):
        v = vec_of(a[0])
        if not v.items:
            return none()
        return some(v.items.pop())
    M["alloc::vec::Vec::pop"] = vec_pop

    def vec_last_mut(I, a, f):
        v = a[0] if isinstance(a[0], SlicePtr) else deref(a[0])
        if isinstance(v, SlicePtr):
            return none() if v.len == 0 else some(Ptr(v.c, v.start + v.len - 1))
        return none() if not v.items else some(Ptr(v.items, len(v.items) - 1))
    M["alloc::vec::Vec::last_mut"] = vec_last_mut
    M["core::slice::[T]::last_mut"] = vec_last_mut

    def vec_first(I, a, f):
        v = a[0] if isinstance(a[0], SlicePtr) else deref(a[0])
        if isinstance(v, SlicePtr):
            return none() if v.len == 0 else some(Ptr(v.c, v.start))
        return none() if not v.items else some(Ptr(v.items, 0))
    M["alloc::vec::Vec::first"] = vec_first
    M["core::slice::[T]::first"] = vec_first
    M["core::slice::[T]::first_mut"] = vec_first

    def as_slice_m(I, a, f):
        v = a[0] if isinstance(a[0], SlicePtr) else deref(a[0])
        if isinstance(v, SlicePtr):
            return v
        return SlicePtr(v.items, 0, len(v.items))
    for n_ in ("alloc::vec::Vec::as_slice", "alloc::vec::Vec::as_mut_slice", "core::array::[T; N]::as_slice", "core::array::[T; N]::as_mut_slice"):
        M[n_] = as_slice_m
    S.append(("::as_slice", as_slice_m))

    def vec_extend(I, a, f):
        v = vec_of(a[0])
        xs = drain(as_iter(I, a[1]))
        # Extend<&T> for Vec<T> (T: Copy) copies the referenced elements
        ga = getattr(f, "ga", None) or []
        by_ref = "Extend<&" in (getattr(f, "xid", "") or "") or (len(ga) >= 2 and str(ga[1]).startswith("&") and not str(ga[0]).startswith("std::vec::Vec<&"))
        if by_ref:
            xs = [clone_val(deref(x)) for x in xs]
        v.items.extend(xs)
        return Agg([], "tuple")
    M["alloc::vec::Vec::extend"] = vec_extend
    S.append(("Vec@Extend::extend", vec_extend))
    M["core::iter::traits::collect::Extend::extend"] = vec_extend

    def vec_truncate(I, a, f):
        v = vec_of(a[0])
        if not isinstance(a[1], int):
            raise Unanalysable("truncate to symbolic length")
        del v.items[a[1]:]
        return Agg([], "tuple")
    M["alloc::vec::Vec::truncate"] = vec_truncate
    M["alloc::vec::Vec::clear"] = lambda I, a, f: (vec_of(a[0]).items.__delitem__(slice(None)), Agg([], "tuple"))[1]

    def vec_insert(I, a, f):
        v = vec_of(a[0])
        if not isinstance(a[1], int):
            raise Unanalysable("insert at symbolic index")
        v.items.insert(a[1], a[2])
        return Agg([], "tuple")
    M["alloc::vec::Vec::insert"] = vec_insert

    def vec_remove(I, a, f):
        v = vec_of(a[0])
        if not isinstance(a[1], int):
            raise Unanalysable("remove at symbolic index")
        return v.items.pop(a[1])
    M["alloc::vec::Vec::remove"] = vec_remove

    def vec_resize(I, a, f):
        v = vec_of(a[0])
        if not isinstance(a[1], int):
            raise Unanalysable("resize to symbolic length")
        while len(v.items) < a[1]:
            v.items.append(clone_val(a[2]))
        del v.items[a[1]:]
        return Agg([], "tuple")
    M["alloc::vec::Vec::resize"] = vec_resize

    def slice_get(I, a, f):
        v = a[0] if isinstance(a[0], SlicePtr) else I.as_slice(a[0])
        if isinstance(a[1], int):
            return some(v.at(a[1])) if 0 <= a[1] < v.len else none()
        raise Unanalysable("slice::get with symbolic index")
    M["core::slice::[T]::get"] = slice_get
    M["core::slice::[T]::get_mut"] = slice_get
    M["alloc::vec::Vec::get"] = slice_get
    M["alloc::vec::Vec::get_mut"] = slice_get

    def it_pred(name):
        def m(I, a, f):
            it = as_iter(I, a[0])
            idx = 0
            while True:
                v = it.next()
                if v is StopIteration:
                    return {"find": none(), "position": none(), "any": False, "all": True}[name]
                if name == "find":
                    r = I.call_closure(a[1], [Ptr([v], 0)])
                else:
                    r = I.call_closure(a[1], [v])
                t_ = I.decide(r, name)
                if name == "find" and t_:
                    return some(v)
                if name == "position" and t_:
                    return some(idx)
                if name == "any" and t_:
                    return True
                if name == "all" and not t_:
                    return False
                idx += 1
        return m
    for n_ in ("find", "position", "any", "all"):
        M["core::iter::traits::iterator::Iterator::" + n_] = it_pred(n_)
        S.append(("@Iterator::" + n_, it_pred(n_)))

    class FilterIt(It):
        def __init__(self, inner, clo, interp, mapf=False):
            self.inner, self.clo, self.interp, self.mapf = inner, clo, interp, mapf

        def next(self):
            while True:
                v = self.inner.next()
                if v is StopIteration:
                    return v
                if self.mapf:
                    r = self.interp.call_closure(self.clo, [v])
                    if isinstance(r, Agg) and r.variant == "Some":
                        return r.items[0]
                    if isinstance(r, Agg) and r.variant == "None":
                        continue
                    raise Unanalysable("filter_map closure result %r" % (r,))
                if self.interp.decide(self.interp.call_closure(self.clo, [Ptr([v], 0)]), "filter"):
                    return v
    M["core::iter::traits::iterator::Iterator::filter"] = lambda I, a, f: FilterIt(as_iter(I, a[0]), a[1], I)
    M["core::iter::traits::iterator::Iterator::filter_map"] = lambda I, a, f: FilterIt(as_iter(I, a[0]), a[1], I, True)

    def it_count(I, a, f):
        x = a[0]
        if isinstance(x, Opaque) and x.name == "chars":
            # number of characters of a string with symbolic bytes: at most its byte length, equal only for ASCII
            nbytes = len(x.s.b) if isinstance(x.s, StrVal) else 2 ** 32
            return Term("chars_count", nbytes, repr(x.s))
        return len(drain(as_iter(I, x)))
    M["core::iter::traits::iterator::Iterator::count"] = it_count

    def it_last(I, a, f):
        xs = drain(as_iter(I, a[0]))
        return some(xs[-1]) if xs else none()
    M["core::iter::traits::iterator::Iterator::last"] = it_last

    def it_nth(I, a, f):
        it = as_iter(I, a[0])
        if not isinstance(a[1], int):
            raise Unanalysable("nth with symbolic index")
        v = StopIteration
        for _ in range(a[1] + 1):
            v = it.next()
            if v is StopIteration:
                break
        return opt(v)
    M["core::iter::traits::iterator::Iterator::nth"] = it_nth

    def it_sum(I, a, f):
        acc = None
        for v in drain(as_iter(I, a[0])):
            v = deref(v)
            acc = v if acc is None else (acc + v if not isinstance(acc, Term) and not isinstance(v, Term) else Term("+", acc, v))
        return acc if acc is not None else 0
    M["core::iter::traits::iterator::Iterator::sum"] = it_sum

    def it_try_for_each(I, a, f):
        it = as_iter(I, a[0])
        while True:
            v = it.next()
            if v is StopIteration:
                return Agg([Agg([], "tuple")], "adt", "core::result::Result", "Ok")
            r = I.call_closure(a[1], [v])
            if isinstance(r, Agg) and r.variant in ("Err", "None", "Break"):
                return r
    M["core::iter::traits::iterator::Iterator::try_for_each"] = it_try_for_each

    # Option / Result combinators
    def opt_map(I, a, f):
        x = deref(a[0]) if isinstance(a[0], Ptr) else a[0]
        if isinstance(x, Agg) and x.variant in ("Some", "Ok"):
            return Agg([I.call_closure(a[1], [x.items[0]])], "adt", x.adt, x.variant)
        if isinstance(x, Agg) and x.variant in ("None", "Err"):
            return x
        raise Unanalysable("map on %r" % (x,))
    M["core::option::Option::map"] = opt_map
    M["core::result::Result::map"] = opt_map

    def res_map_err(I, a, f):
        x = a[0]
        if isinstance(x, Agg) and x.variant == "Err":
            return Agg([I.call_closure(a[1], [x.items[0]])], "adt", x.adt, "Err")
        if isinstance(x, Agg) and x.variant == "Ok":
            return x
        raise Unanalysable("map_err on %r" % (x,))
    M["core::result::Result::map_err"] = res_map_err

    def and_then(I, a, f):
        x = a[0]
        if isinstance(x, Agg) and x.variant in ("Some", "Ok"):
            return I.call_closure(a[1], [x.items[0]])
        if isinstance(x, Agg) and x.variant in ("None", "Err"):
            return x
        raise Unanalysable("and_then on %r" % (x,))
    M["core::option::Option::and_then"] = and_then
    M["core::result::Result::and_then"] = and_then

    def ok_or(I, a, f):
        x = a[0]
        if isinstance(x, Agg) and x.variant == "Some":
            return Agg([x.items[0]], "adt", "core::result::Result", "Ok")
        if isinstance(x, Agg) and x.variant == "None":
            return Agg([a[1]], "adt", "core::result::Result", "Err")
        raise Unanalysable("ok_or on %r" % (x,))
    M["core::option::Option::ok_or"] = ok_or

    def ok_or_else(I, a, f):
        x = a[0]
        if isinstance(x, Agg) and x.variant == "Some":
            return Agg([x.items[0]], "adt", "core::result::Result", "Ok")
        if isinstance(x, Agg) and x.variant == "None":
            return Agg([I.call_closure(a[1], [])], "adt", "core::result::Result", "Err")
        raise Unanalysable("ok_or_else on %r" % (x,))
    M["core::option::Option::ok_or_else"] = ok_or_else

    def unwrap_or_else(I, a, f):
        x = a[0]
        if isinstance(x, Agg) and x.variant in ("Some", "Ok"):
            return x.items[0]
        if isinstance(x, Agg) and x.variant == "None":
            return I.call_closure(a[1], [])
        if isinstance(x, Agg) and x.variant == "Err":
            return I.call_closure(a[1], [x.items[0]])
        raise Unanalysable("unwrap_or_else on %r" % (x,))
    M["core::option::Option::unwrap_or_else"] = unwrap_or_else
    M["core::result::Result::unwrap_or_else"] = unwrap_or_else
    M["core::option::Option::unwrap_or_default"] = lambda I, a, f: a[0].items[0] if isinstance(a[0], Agg) and a[0].variant == "Some" else 0

    def is_some_and(I, a, f):
        x = a[0]
        if isinstance(x, Agg) and x.variant in ("Some", "Ok"):
            return I.call_closure(a[1], [x.items[0]])
        if isinstance(x, Agg) and x.variant in ("None", "Err"):
            return False
        raise Unanalysable("is_some_and on %r" % (x,))
    M["core::option::Option::is_some_and"] = is_some_and
    M["core::result::Result::is_ok_and"] = is_some_and

    def res_ok(I, a, f):
        x = a[0]
        if isinstance(x, Agg) and x.variant == "Ok":
            return some(x.items[0])
        if isinstance(x, Agg) and x.variant == "Err":
            return none()
        raise Unanalysable("ok() on %r" % (x,))
    M["core::result::Result::ok"] = res_ok

    def opt_copied(I, a, f):
        x = a[0]
        if isinstance(x, Agg) and x.variant == "Some":
            return some(clone_val(deref(x.items[0])))
        return x
    M["core::option::Option::copied"] = opt_copied
    M["core::option::Option::cloned"] = opt_copied
    M["core::option::Option::as_ref"] = lambda I, a, f: (some(Ptr(deref(a[0]).items, 0)) if deref(a[0]).variant == "Some" else none())
    M["core::option::Option::as_mut"] = M["core::option::Option::as_ref"]

    def opt_take(I, a, f):
        p_ = a[0]
        x = p_.get()
        p_.set(none())
        return x
    M["core::option::Option::take"] = opt_take

    def mem_replace(I, a, f):
        old = a[0].get()
        a[0].set(a[1])
        return old
    M["core::mem::replace"] = mem_replace

    def mem_swap(I, a, f):
        x, y = a[0].get(), a[1].get()
        a[0].set(y)
        a[1].set(x)
        return Agg([], "tuple")
    M["core::mem::swap"] = mem_swap

    # integer conversions and helpers
    def int_try_from(bits):
        def m(I, a, f):
            x = a[0]
            if isinstance(x, bool):
                x = int(x)
            if isinstance(x, int):
                if 0 <= x < 2 ** bits:
                    return Agg([x], "adt", "core::result::Result", "Ok")
                return Agg([Opaque("TryFromIntError")], "adt", "core::result::Result", "Err")
            if isinstance(x, Term):
                fits = I.decide(simplify_term("<=", x, 2 ** bits - 1), "try_from")
                if fits:
                    return Agg([Term("as_u%d" % bits, x) if bits in (8, 16, 32) else x], "adt", "core::result::Result", "Ok")
                return Agg([Opaque("TryFromIntError")], "adt", "core::result::Result", "Err")
            raise Unanalysable("integer try_from of %r" % (x,))
        return m
    for ty_, b_ in (("u8", 8), ("u16", 16), ("u32", 32), ("u64", 64), ("usize", 64)):
        S.append(("num::%s@TryFrom::try_from" % ty_, int_try_from(b_)))

    def int_try_into(I, a, f):
        # the blanket `impl<T, U: TryFrom<T>> TryInto<U> for T`: dispatch on the target type U
        ga = [str(g) for g in (getattr(f, "ga", None) or [])]
        bits = {"u8": 8, "u16": 16, "u32": 32, "u64": 64, "usize": 64}.get(ga[1] if len(ga) > 1 else "")
        if bits is None or ga[0] not in ("u8", "u16", "u32", "u64", "usize"):
            raise Unanalysable("try_into with type arguments %r" % (ga,))
        return int_try_from(bits)(I, a, f)
    S.append(("convert::T@TryInto::try_into", int_try_into))

    def abs_diff(I, a, f):
        if isinstance(a[0], int) and isinstance(a[1], int):
            return abs(a[0] - a[1])
        return Term("abs_diff", a[0], a[1])
    for ty_ in ("u8", "u16", "u32", "u64", "usize"):
        M["core::num::%s::abs_diff" % ty_] = abs_diff

    # Box<[T;N]> / vec! plumbing
    M["alloc::boxed::Box::new_uninit"] = lambda I, a, f: Ptr([None], 0)
    M["alloc::boxed::box_assume_init_into_vec_unsafe"] = lambda I, a, f: Agg(list(deref(a[0]).items), "vec")
    M["alloc::slice::[T]::into_vec"] = lambda I, a, f: Agg(list(deref(a[0]).items), "vec")

    # winter-air value constructors (kept symbolic)
    M["winter_air::air::assertions::Assertion::single"] = lambda I, a, f: Agg(list(a), "adt", "Assertion", "single")
    M["winter_air::air::transition::degree::TransitionConstraintDegree::new"] = lambda I, a, f: Agg([a[0], []], "adt", "TransitionConstraintDegree", "new")
    M["winter_air::air::transition::degree::TransitionConstraintDegree::with_cycles"] = \
        lambda I, a, f: Agg([a[0], [x for x in deref(a[1]).items]], "adt", "TransitionConstraintDegree", "with_cycles")

    def try_branch(I, a, f):
        r = a[0]
        if isinstance(r, Agg) and r.variant in ("Ok", "Some"):
            return Agg([r.items[0]], "adt", "core::ops::control_flow::ControlFlow", "Continue")
        if isinstance(r, Agg) and r.variant == "Err":
            return Agg([Agg([r.items[0]], "adt", "core::result::Result", "Err")], "adt", "core::ops::control_flow::ControlFlow", "Break")
        if isinstance(r, Agg) and r.variant == "None":
            return Agg([Agg([], "adt", "core::option::Option", "None")], "adt", "core::ops::control_flow::ControlFlow", "Break")
        raise Unanalysable("Try::branch on %r" % (r,))
    S.append(("Result@Try::branch", try_branch))
    S.append(("Option@Try::branch", try_branch))
    S.append(("Result@FromResidual::from_residual", lambda I, a, f: a[0]))
    S.append(("Option@FromResidual::from_residual", lambda I, a, f: a[0]))

    def peq(neg):
        def m(I, a, f):
            x, y = deref(a[0]), deref(a[1])
            if isinstance(x, Poly) and isinstance(y, Poly):
                d = x - y
                if d.const_value() is not None:
                    r = d.const_value() == 0
                    return (not r) if neg else r
                return Term("ne" if neg else "eq", x, y)
            if isinstance(x, (int, bool)) and isinstance(y, (int, bool)):
                return (x != y) if neg else (x == y)
            if isinstance(x, Agg) and isinstance(y, Agg):
                if (x.variant, len(x.items)) != (y.variant, len(y.items)):
                    return neg
                syms = []
                for u, w in zip(x.items, y.items):
                    u, w = deref(u), deref(w)
                    if isinstance(u, (int, bool)) and isinstance(w, (int, bool)):
                        if u != w:
                            return neg
                    elif isinstance(u, Poly) and isinstance(w, Poly) and (u - w).const_value() is not None:
                        if (u - w).const_value() != 0:
                            return neg
                    elif isinstance(u, Agg) and isinstance(w, Agg) and (u.adt or u.kind) == (w.adt or w.kind):
                        # nested value (Option<&Enum>, tuple of enums): structural comparison, decided when both are concrete
                        sub = peq(False)(I, [u, w], f)
                        if sub is False:
                            return neg
                        if sub is not True:
                            syms.append((u, w))
                    else:
                        syms.append((u, w))
                if not syms:
                    return not neg
                if len(syms) == 1:
                    u, w = syms[0]
                    if isinstance(u, int):
                        u, w = w, u
                    if isinstance(u, Term) and isinstance(w, int):
                        return Term("!=" if neg else "==", u, w)
                    if isinstance(u, Poly) and isinstance(w, Poly):
                        return Term("ne" if neg else "eq", u, w)
                if all(isinstance(u, Poly) and isinstance(w, Poly) for u, w in syms):
                    # a derived equality over several field elements: the conjunction, decided pair by pair (forks)
                    for u, w in syms:
                        if not I.decide(Term("eq", u, w), "peq"):
                            return neg
                    return not neg
            return Term("ne" if neg else "eq", repr(x), repr(y))
        return m
    S.append(("@PartialEq::eq", peq(False)))
    S.append(("@PartialEq::ne", peq(True)))
    M["core::cmp::PartialEq::eq"] = peq(False)
    M["core::cmp::PartialEq::ne"] = peq(True)

    def panic(I, a, f):
        raise PanicReached("panic call %s" % f.id)
    for n in ("core::panicking::panic_fmt", "core::panicking::panic", "core::panicking::assert_failed",
              "core::panicking::unreachable_display", "core::panicking::panic_explicit"):
        M[n] = panic
    M["core::fmt::Arguments::from_str"] = lambda I, a, f: Opaque("fmt")
    M["core::fmt::Arguments::new"] = lambda I, a, f: Opaque("fmt")
    S.append(("fmt::Arguments::new_const", lambda I, a, f: Opaque("fmt")))
    S.append(("fmt::Arguments::new_v1", lambda I, a, f: Opaque("fmt")))


FELT_REGISTRY = {}     # name of a `felt[<term>]` variable -> machine-integer term (filled by the process model)


def int_range(t, depth=0):
    """sound interval of a machine-integer term (values before any wrapping are not tracked: only range-reducing operators)"""
    top = (0, 2 ** 64 - 1)
    if isinstance(t, bool):
        return (int(t), int(t))
    if isinstance(t, int):
        return (t, t)
    if not isinstance(t, Term) or depth > 12:
        return top
    a = t.args
    if t.op == "as_int" and len(a) == 1:
        x = a[0]
        if isinstance(x, Poly):
            cv = x.const_value()
            if cv is not None:
                return (cv, cv)
            vs = sorted(x.vars())
            if len(vs) == 1 and x == Poly.var(vs[0]) and vs[0] in FELT_REGISTRY:
                lo, hi = int_range(FELT_REGISTRY[vs[0]], depth + 1)
                if hi < P:
                    return (lo, hi)
        return (0, P - 1)
    if t.op in ("as_u64", "as_usize") and len(a) == 1:
        return int_range(a[0], depth + 1)
    if t.op == "as_u32" and len(a) == 1:
        lo, hi = int_range(a[0], depth + 1)
        return (lo, hi) if hi < 2 ** 32 else (0, 2 ** 32 - 1)
    if t.op == "as_u16" and len(a) == 1:
        lo, hi = int_range(a[0], depth + 1)
        return (lo, hi) if hi < 2 ** 16 else (0, 2 ** 16 - 1)
    if t.op == "&" and len(a) == 2:
        return (0, min(int_range(x, depth + 1)[1] for x in a))
    if t.op == "chars_count" and a and isinstance(a[0], int):
        return (0, a[0])
    if t.op == ">>" and len(a) == 2 and isinstance(a[1], int) and not isinstance(a[1], bool):
        lo, hi = int_range(a[0], depth + 1)
        return (lo >> a[1], hi >> a[1])
    if t.op in ("eq", "ne", "==", "!=", "<", "<=", ">", ">=", "not"):
        return (0, 1)
    return top


def simplify_term(op, a, b):
    """identities on machine-integer terms: x*0 = 0, x*1 = x, x+0 = x, (x - c) + c = x"""
    isz = lambda v: isinstance(v, int) and not isinstance(v, bool) and v == 0
    is1 = lambda v: isinstance(v, int) and not isinstance(v, bool) and v == 1
    if op == "*":
        if isz(a) or isz(b):
            return 0
        if is1(a):
            return b
        if is1(b):
            return a
    if op == "+":
        if isz(a):
            return b
        if isz(b):
            return a
        for x, c in ((a, b), (b, a)):
            if isinstance(x, Term) and x.op == "-" and len(x.args) == 2 and isinstance(c, int) and x.args[1] == c and not isinstance(c, bool):
                return x.args[0]
    if op == "-" and isz(b):
        return a
    # interval folding of comparisons with a constant: halves of a split, masked and shifted values have known ranges
    if op in ("<", "<=", ">", ">=") and isinstance(a, Term) and isinstance(b, int) and not isinstance(b, bool):
        lo, hi = int_range(a)
        if op == "<=" and hi <= b or op == "<" and hi < b or op == ">=" and lo >= b or op == ">" and lo > b:
            return True
        if op == "<=" and lo > b or op == "<" and lo >= b or op == ">=" and hi < b or op == ">" and hi <= b:
            return False
    # a canonical field element is below the modulus
    if isinstance(a, Term) and a.op == "as_int" and isinstance(b, int) and not isinstance(b, bool):
        if op == ">=" and b >= P:
            return False
        if op == "<" and b >= P:
            return True
        if op == ">" and b >= P - 1:
            return False
        if op == "<=" and b >= P - 1:
            return True
    return Term(op, a, b)


def path_feasible(guards):
    """constant-propagation feasibility of a syntactic path: the same condition term decided two ways, or
    x == c1 and x == c2, is infeasible. No solver; anything not obviously contradictory is kept."""
    eq = {}
    ne = {}
    for cond, val, loc in guards:
        if isinstance(cond, Term) and cond.op in ("eq", "ne") and len(cond.args) == 2:
            a, b = cond.args
            truth = (val != 0) if not isinstance(val, tuple) else True
            is_eq = (cond.op == "eq") == truth
            if isinstance(a, Poly) and isinstance(b, Poly):
                d = a - b
                key = repr(d) if d.t and next(iter(sorted(d.t.items())))[1] <= P // 2 else repr(-d)
                cv = None
            else:
                key = repr((a, b))
            if is_eq:
                if key in ne:
                    return False
                eq[key] = True
            else:
                if key in eq:
                    return False
                ne[key] = True
            # x - c == 0 with two different c
            if isinstance(a, Poly) and isinstance(b, Poly) and is_eq and b.const_value() is not None:
                k2 = "val:" + repr(a)
                if k2 in eq and eq[k2] != b.const_value():
                    return False
                eq[k2] = b.const_value()
                if (k2, b.const_value()) in ne:
                    return False
            if isinstance(a, Poly) and isinstance(b, Poly) and not is_eq and b.const_value() is not None:
                k2 = "val:" + repr(a)
                if eq.get(k2) == b.const_value():
                    return False
                ne[(k2, b.const_value())] = True
                # a value known to be binary (a borrow / carry / comparison bit) cannot differ from both 0 and 1
                if (k2, 0) in ne and (k2, 1) in ne:
                    vs = sorted(a.vars())
                    if len(vs) == 1 and a == Poly.var(vs[0]) and vs[0] in FELT_REGISTRY and int_range(Term("as_int", a))[1] <= 1:
                        return False
            continue
        key = repr(cond)
        if isinstance(val, tuple):
            for c in val[1]:
                if eq.get(key) == c:
                    return False
                ne[(key, c)] = True
        else:
            if key in eq and eq[key] != val:
                return False
            if (key, val) in ne:
                return False
            eq[key] = val
    return True

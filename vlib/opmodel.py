"""Operation tables derived from the repository by abstract interpretation: opcode per Operation variant,
per-opcode restricted AIR polynomials (cached inside the facts directory of the current tree)."""
import os, pickle, time
from .mirsym import *
from .airmodel import AirModel

OPS = "miden_core::operations::Operation"


def operation_variants(F):
    adt = F.adt(r"^%s$" % OPS)
    return adt["variants"]


def dummy_payload(ty):
    if ty.endswith("Felt") or ty.endswith("BaseElement"):
        return Poly.var("imm")
    return 0


def opcode_table(F):
    """variant name -> opcode (int), by interpreting Operation::op_code"""
    I = Interp(F)
    fn = F.fn(r"^miden_core::operations::Operation::op_code$")
    out = {}
    for v in operation_variants(F):
        val = Agg([dummy_payload(f["ty"]) for f in v["fields"]], "adt", OPS, v["name"])
        out[v["name"]] = I.call(fn.id, [Ptr([val], 0)])
    return out


def restricted_air(F, force=False):
    """dict opcode -> list of Poly/Sup (all main constraints restricted to that opcode); plus 'sym' for symbolic
    op bits; cached per facts dir"""
    path = os.path.join(F.dir, "air_restricted.pkl")
    if os.path.exists(path) and not force:
        with open(path, "rb") as fh:
            return pickle.load(fh)
    A = AirModel(F)
    table = opcode_table(F)
    out = {"ops": table, "by_opcode": {}, "ranges": None}
    t0 = time.time()
    for name, oc in sorted(table.items(), key=lambda kv: kv[1]):
        res, rng, I = A.eval_main(opcode=oc)
        out["by_opcode"][oc] = res
        if out["ranges"] is None:
            out["ranges"] = {k: (v.items[0], v.items[1]) for k, v in zip(("stack", "range_checker", "chiplets"), rng.items)}
    out["aux"] = A.eval_aux()
    out["wall"] = time.time() - t0
    tmp = path + ".tmp%d" % os.getpid()
    with open(tmp, "wb") as fh:
        pickle.dump(out, fh)
    os.replace(tmp, path)
    return out

"""Instruction -> VM operation lowering, extracted by abstract interpretation of
Assembler::compile_instruction on every Instruction variant (payloads symbolic; all syntactic paths)."""
import re
from .mirsym import *
from . import procmodel

COMPILE = r"^miden_assembly::assembler::instruction::Assembler::compile_instruction$"
INSTR = r"^miden_assembly::ast::nodes::Instruction$"


class Lowering:
    def __init__(self, variant):
        self.variant = variant
        self.paths = []      # list of dict(outcome, guards, ops, decorators, injectors, effects)


def payload_for(ty, idx=0):
    if ty.endswith("Felt"):
        return Poly.var("imm")
    if ty in ("u8", "u16", "u32", "usize", "u64"):
        return Term("imm_" + ty)
    m = re.match(r"^\[(.*); (\d+)\]$", ty)
    if m and m.group(1).endswith("Felt"):
        return Agg([Poly.var("imm%d" % i) for i in range(int(m.group(2)))], "array")
    if ty.startswith("std::vec::Vec<"):
        el = ty[len("std::vec::Vec<"):-1]
        # a list immediate: three symbolic elements stand for "n elements" (the lowering iterates over them)
        return Agg([Poly.var("imm%d" % i) if el.endswith("Felt") else Term("imm_%s#%d" % (el, i)) for i in range(3)], "vec")
    return Opaque("payload:" + ty)


def op_repr(op):
    if isinstance(op, Ptr):
        op = op.get()
    if isinstance(op, Agg) and op.adt and op.adt.endswith("Operation"):
        if op.items:
            return (op.variant, tuple(op.items))
        return (op.variant, ())
    return ("?", (repr(op),))


def install_span(I, rec, debug_mode=False):
    ov = I.overrides
    def add(rx, m):
        ov.append((re.compile(rx), m))
    unit = lambda: Agg([], "tuple")
    ok_none = lambda: Agg([Agg([], "adt", "core::option::Option", "None")], "adt", "core::result::Result", "Ok")

    def add_op(I, a, f):
        rec["ops"].append(op_repr(a[1]))
        return ok_none()
    add(r"::SpanBuilder::add_op$", add_op)

    def push_op(I, a, f):
        rec["ops"].append(op_repr(a[1]))
        return unit()
    add(r"::SpanBuilder::push_op$", push_op)

    def ops_from(x):
        return [op_repr(v) for v in drain(as_iter(I, x))]

    def add_ops(I, a, f):
        rec["ops"].extend(ops_from(a[1]))
        return ok_none()
    add(r"::SpanBuilder::add_ops$", add_ops)

    def push_ops(I, a, f):
        rec["ops"].extend(ops_from(a[1]))
        return unit()
    add(r"::SpanBuilder::push_ops$", push_ops)

    def push_many(I, a, f):
        n = a[2]
        if isinstance(n, int):
            rec["ops"].extend([op_repr(a[1])] * n)
        else:
            rec["ops"].append(("*many", (op_repr(a[1]), n)))
        return unit()
    add(r"::SpanBuilder::push_op_many$", push_many)

    def push_dec(I, a, f):
        rec["decorators"].append(repr(a[1])[:80])
        return unit()
    add(r"::SpanBuilder::push_decorator$", push_dec)

    def push_inj(I, a, f):
        x = a[1]
        rec["injectors"].append(x.variant if isinstance(x, Agg) else repr(x)[:60])
        return unit()
    add(r"::SpanBuilder::push_advice_injector$", push_inj)
    add(r"::SpanBuilder::track_instruction$", lambda I, a, f: (rec["effects"].append("track_instruction"), unit())[1])
    add(r"::SpanBuilder::set_instruction_cycle_count$", lambda I, a, f: (rec["effects"].append("set_cycle_count"), unit())[1])
    add(r"::Assembler::in_debug_mode$", lambda I, a, f: debug_mode)
    # context queries used by mem/local instructions
    add(r"::AssemblyContext::num_proc_locals$", lambda I, a, f: Term("num_proc_locals"))
    add(r"::AssemblyContext::is_kernel$", lambda I, a, f: Term("is_kernel"))
    procmodel.install_field(I)

    def rng_new(I, a, f):
        return Agg([a[0], a[1]], "adt", "core::ops::range::RangeInclusive", "RangeInclusive")
    add(r"ops::range::RangeInclusive::new$", rng_new)

    def validate(I, a, f):
        v, r = a[0], a[1]
        kind = r.adt.rsplit("::", 1)[-1] if isinstance(r, Agg) and r.adt else "?"
        lo, hi = (r.items + [None, None])[:2] if isinstance(r, Agg) else (None, None)
        rec["effects"].append(("validate_param", v, kind, lo, hi))
        unit = Agg([], "tuple")
        if isinstance(v, int) and isinstance(lo, int) and isinstance(hi, int):
            inside = lo <= v <= hi if kind == "RangeInclusive" else lo <= v < hi
        else:
            c = I.fork.choose(("validate", len(rec["effects"])), 2, Term("in_range", v, kind, lo, hi)) if I.fork else 0
            inside = c == 0
            I.path.append((Term("in_range", v, kind, lo, hi), 1 if inside else 0, "validate_param"))
        if inside:
            return Agg([unit], "adt", "core::result::Result", "Ok")
        return Agg([Agg([v, lo, hi], "adt", "miden_assembly::errors::AssemblyError", "ParamOutOfBounds")], "adt", "core::result::Result", "Err")
    add(r"::instruction::validate_param$", validate)
    add(r"core::num::u64::leading_zeros$", lambda I, a, f: (64 - a[0].bit_length()) if isinstance(a[0], int) else Term("leading_zeros", a[0]))
    add(r"core::num::u32::leading_zeros$", lambda I, a, f: (32 - a[0].bit_length()) if isinstance(a[0], int) else Term("leading_zeros", a[0]))
    add(r"core::num::u\d+::pow$", lambda I, a, f: a[0] ** a[1] if isinstance(a[0], int) and isinstance(a[1], int) else Term("pow", a[0], a[1]))
    add(r"core::num::u\d+::(wrapping|checked|saturating|overflowing)_\w+$", lambda I, a, f: Term(f.id.rsplit("::", 1)[-1], *a))


def lower_variant(F, vdef, debug_mode=False, max_paths=256, payload=None):
    fn = F.fn(COMPILE)
    adt = F.adt(INSTR)
    L = Lowering(vdef["name"])
    holder = {}

    def make():
        I = Interp(F)
        rec = {"ops": [], "decorators": [], "injectors": [], "effects": []}
        holder["rec"] = rec
        install_span(I, rec, debug_mode)
        return I

    def run(I):
        pl = list(payload) if payload is not None else [payload_for(f["ty"], i) for i, f in enumerate(vdef["fields"])]
        ins = Agg(pl, "adt", adt["id"], vdef["name"])
        return I.call(fn.id, [Ptr([Opaque("Assembler")], 0), Ptr([ins], 0), Ptr([Opaque("SpanBuilder")], 0), Ptr([Opaque("AssemblyContext")], 0)])

    for I, out, exc in enumerate_paths(make, run, max_paths=max_paths):
        rec = holder["rec"]
        p = dict(rec)
        p["guards"] = list(I.path)
        if exc is not None:
            p["outcome"] = ("panic" if isinstance(exc, PanicReached) else "unanalysable", str(exc))
        elif isinstance(out, Agg) and out.variant == "Ok":
            blk = out.items[0]
            p["outcome"] = "ok" if (isinstance(blk, Agg) and blk.variant == "None") else ("ok_block", repr(blk)[:60])
        elif isinstance(out, Agg) and out.variant == "Err":
            e = out.items[0]
            p["outcome"] = ("err", e.variant if isinstance(e, Agg) else repr(e)[:60])
        else:
            p["outcome"] = ("unknown", repr(out)[:80])
        L.paths.append(p)
    return L


def lower_all(F, debug_mode=False):
    adt = F.adt(INSTR)
    out = {}
    for v in adt["variants"]:
        try:
            out[v["name"]] = lower_variant(F, v, debug_mode)
        except Unanalysable as e:
            L = Lowering(v["name"])
            L.paths.append({"outcome": ("unanalysable", str(e)), "ops": [], "guards": [], "decorators": [], "injectors": [], "effects": []})
            out[v["name"]] = L
    return out

"""C16 — standard-library integer arithmetic is exact: each 64-bit / 256-bit procedure of stdlib/asm/math is executed
symbolically over the integers (vlib/masm.py) and its result compared with the specification stated in its own `#!`
documentation (u64.masm) or implied by its name (u256.masm):
  * add/sub/mul families: (result limbs as an integer) - spec is a polynomial all of whose coefficients are divisible by the
    modulus 2^64 / 2^128 / 2^256 and every result limb is a u32 value; overflow flags satisfy the exact identity
  * comparisons, min/max: the flag formula is evaluated under all 9 order relations between the limb pairs
  * and/or/xor: limb-wise application of the u32 instruction to corresponding limbs
  * div/mod/divmod: the assertions imply a = q*b + r over the integers (by eliminating carry variables) and r < b
  * every procedure: the stack below its inputs is unchanged and the number of results is the documented one
Shifts, rotations and bit counts use pow2/u32divmod/if.true on uninterpreted functions and are reported as not decided."""
import os, re, itertools
from .masm import *
from . import rules_c05

LEVEL = "other"
U64 = "/repo/stdlib/asm/math/u64.masm"
U256 = "/repo/stdlib/asm/math/u256.masm"
NOT_DECIDED = {}
# bit counts: (u32 instruction, limb examined first, value of that limb for which the count continues into the other limb)
BITCOUNT = {"clz": ("u32clz", "hi", 0), "ctz": ("u32ctz", "lo", 0), "clo": ("u32clo", "hi", U32 - 1), "cto": ("u32cto", "lo", U32 - 1)}
# u256 procedures carry no `#!` specification (except mul_unsafe): the specification is the one their names state, with the limb layout documented at mul_unsafe
U256_SPEC = {"add_unsafe": ("arith", "+", 8), "sub_unsafe": ("arith", "-", 8), "and": ("bitwise", "u32and", 8), "or": ("bitwise", "u32or", 8), "xor": ("bitwise", "u32xor", 8),
             "iszero_unsafe": ("eqz", None, 8), "eq_unsafe": ("eq", None, 8), "mul_unsafe": ("arith", "*", 8)}


def limb_inputs(names):
    return [Val(ZP.var(n), U32 - 1) for n in names]


def parse_doc(doc):
    """-> (input names, output names, where-clause text) from the `#!` lines of a u64 procedure"""
    txt = " ".join(doc)
    m = re.search(r"\[([^\]]*)\]\s*->\s*\[([^\]]*)\](.*)$", txt)
    if not m:
        return None
    ins = [x.strip() for x in m.group(1).split(",")]
    outs = [x.strip() for x in m.group(2).replace(" ...", ", ...").split(",")]
    ins = [x for x in ins if x and x != "..."]
    outs = [x for x in outs if x and x != "..."]
    return ins, outs, m.group(3)


def value_of(names, env):
    """integer value of a multi-limb quantity: names like x_hi, x_lo or x7..x0 (most significant first)"""
    z = ZP()
    for i, n in enumerate(reversed(names)):
        z = z + env[n] * ZP.const(U32 ** i)
    return z


def group(names):
    g = {}
    for n in names:
        m = re.match(r"^([a-z]+?)(_hi|_lo|_mid_hi|_mid_lo|\d+)?$", n)
        g.setdefault(m.group(1) if m else n, []).append(n)
    return g


ORDER = ("<", "=", ">")


def limb_pairs(formulas_and_values):
    """collect the (x, y) limb pairs compared by lt / eq0 atoms"""
    pairs = []

    def add(x, y):
        key = (repr(x), repr(y))
        rkey = (repr(y), repr(x))
        for p in pairs:
            if p[0] in (key, rkey):
                return
        pairs.append((key, x, y))

    def walk(f):
        if f is None:
            return
        if f[0] in ("and", "or"):
            walk(f[1]); walk(f[2])
        elif f[0] == "not":
            walk(f[1])
        elif f[0] == "lt":
            add(f[1], f[2])
        elif f[0] == "eq0":
            d = f[1]
            pos = ZP({m: c for m, c in d.t.items() if c > 0 and not any(v.startswith("k") for v, e in m)})
            neg = ZP({m: -c for m, c in d.t.items() if c < 0 and not any(v.startswith("k") for v, e in m)})
            add(pos, neg)
    for f in formulas_and_values:
        walk(f)
    return pairs


def eval_formula(f, rel, st):
    """truth of a flag formula under an assignment rel: (repr x, repr y) -> '<' | '=' | '>'"""
    def order(x, y):
        k = (repr(x), repr(y))
        if k in rel:
            return rel[k]
        k2 = (repr(y), repr(x))
        if k2 in rel:
            return {"<": ">", ">": "<", "=": "="}[rel[k2]]
        if x == y:
            return "="
        raise Undecided("order of %r and %r is not among the enumerated limb pairs" % (x, y))
    if f[0] == "const":
        return bool(f[1])
    if f[0] == "not":
        return not eval_formula(f[1], rel, st)
    if f[0] == "and":
        return eval_formula(f[1], rel, st) and eval_formula(f[2], rel, st)
    if f[0] == "or":
        return eval_formula(f[1], rel, st) or eval_formula(f[2], rel, st)
    if f[0] == "lt":
        return order(f[1], f[2]) == "<"
    if f[0] == "eq0":
        d = f[1]
        # d = x - y (+ 2^32 * borrow(x, y)): zero iff x = y (a u32 difference plus its own borrow is zero only for equal operands)
        ks = [v for v in d.vars() if v.startswith("k")]
        core = ZP({m: c for m, c in d.t.items() if not any(v in ks for v, e in m)})
        for k in ks:
            lin = d.linear_in(k)
            df = st.defs.get(k)
            if lin is None or df is None or df[0] != "borrow" or lin[0] != U32 or not (df[1] - df[2] == core):
                raise Undecided("zero test of %r is not a difference with its own borrow" % (d,))
        pos = ZP({m: c for m, c in core.t.items() if c > 0})
        neg = ZP({m: -c for m, c in core.t.items() if c < 0})
        return order(pos, neg) == "="
    if f[0] == "ge":
        raise Undecided("carry flag used as a condition")
    raise Undecided("formula %r" % (f,))


def check_frame(ctx, key, loc, st, nout, nin):
    """the cells below the consumed inputs are the untouched `deepN` cells in order"""
    rest = st.stack[nout:nout + 8]
    ok = all(repr(v.z) == "deep%d" % (nin + i) for i, v in enumerate(rest)) and len(st.stack) >= nout
    ctx.oblig(ok)
    if not ok:
        ctx.violation("frame|%s" % key, loc, "%s leaves %s below its %d results; the cells below its %d inputs must be untouched" % (key, [repr(v.z) for v in rest[:4]], nout, nin))
    return ok


def solve_equations(eqs, goal, protect):
    """eliminate variables using equations (each used once: a variable occurring linearly with coefficient +-1), then test goal == 0"""
    eqs = [e for e in eqs if not e.is_zero()]
    progress = True
    used = []
    while progress and eqs:
        progress = False
        for i, e in enumerate(eqs):
            # prefer carry / helper variables, then anything not protected
            cands = sorted(e.vars(), key=lambda v: (v in protect, not re.match(r"^[khew]\d+$", v), v))
            for v in cands:
                lin = e.linear_in(v)
                if lin and abs(lin[0]) == 1:
                    coef, rest = lin
                    repl = -rest if coef == 1 else rest
                    env = {v: repl}
                    goal = goal.subst(env)
                    eqs = [x.subst(env) for j, x in enumerate(eqs) if j != i]
                    eqs = [x for x in eqs if not x.is_zero()]
                    used.append((v, repl))
                    progress = True
                    break
            if progress:
                break
    # monomial equations c*m = 0 (e.g. q_hi*b_hi = 0): every goal monomial divisible by m vanishes
    for e in eqs:
        if len(e.t) == 1:
            (m, c), = e.t.items()
            md = dict(m)
            goal = ZP({gm: gc for gm, gc in goal.t.items() if not all(dict(gm).get(v, 0) >= ex for v, ex in md.items())})
    return goal, eqs, used


def run_u64(ctx, F):
    M = Module(U64)
    X = Exec(M, rules_c05.family_expected)
    ctx.floor("u64-procedures", len([p for p in M.procs.values() if p.exported]), 29)
    decided = 0
    for name in M.order:
        p = M.procs[name]
        if not p.exported:
            continue
        loc = "stdlib/asm/math/u64.masm:%d" % p.line
        key = "u64::" + name
        if name in NOT_DECIDED:
            ctx.inst(key=key, nontrivial=False)
            ctx.analysed("%s: not decided (%s)" % (key, NOT_DECIDED[name] or "bit counting through if.true on uninterpreted u32 functions"))
            continue
        if name in ("shl", "shr", "rotl", "rotr"):
            ctx.inst(key=key, nontrivial=True)
            try:
                ok, why = decide_shift(ctx, key, loc, X, M, name) if name in ("shl", "shr") else decide_rot(ctx, key, loc, X, M, name)
            except (Undecided, MasmError) as e:
                ctx.violation("UNANALYSABLE|%s" % key, loc, str(e)[:300])
                continue
            ctx.oblig(ok)
            decided += 1
            ctx.sample({"procedure": key, "verdict": "holds" if ok else why})
            if not ok:
                ctx.violation("arith|%s" % key, loc, "%s does not compute its documented result: %s" % (key, why))
            continue
        d = parse_doc(p.doc)
        ctx.inst(key=key, nontrivial=True)
        if d is None:
            ctx.violation("spec-missing|%s" % key, loc, "%s has no `[inputs] -> [outputs]` line in its documentation" % key)
            continue
        ins, outs, where = d
        env = {n: ZP.var(n) for n in ins}
        try:
            finals = X.run_proc(name, limb_inputs(ins))
        except Undecided as e:
            ctx.violation("UNANALYSABLE|%s" % key, loc, str(e)[:300])
            continue
        if name in BITCOUNT:
            ok, why = decide_bitcount(name, ins, finals)
            for st in finals:
                check_frame(ctx, key, loc, st, 1, len(ins))
            ctx.oblig(ok)
            decided += 1
            if not ok:
                ctx.violation("arith|%s" % key, loc, "%s does not compute its documented result: %s" % (key, why))
            continue
        if len(finals) != 1:
            ctx.violation("UNANALYSABLE|%s" % key, loc, "%d paths" % len(finals))
            continue
        st = finals[0]
        check_frame(ctx, key, loc, st, len(outs), len(ins))
        res = st.stack[:len(outs)]
        gi, go = group(ins), group(outs)
        A = value_of(gi["a"], env) if "a" in gi else None
        B = value_of(gi["b"], env) if "b" in gi else None
        ok, why = decide_u64(name, where, ins, outs, res, st, env, A, B, gi, go)
        ctx.oblig(ok)
        decided += 1
        if len(ctx.samples) < 8:
            ctx.sample({"procedure": key, "spec": where.strip()[:80], "result": [repr(v.z)[:80] for v in res], "verdict": "holds" if ok else why})
        if not ok:
            ctx.violation("arith|%s" % key, loc, "%s does not compute its documented result (%s): %s" % (key, where.strip()[:80], why))
    ctx.floor("u64-decided", decided, 20)


def decide_u64(name, where, ins, outs, res, st, env, A, B, gi, go):
    w = where
    limbs_ok = lambda vals: all(v.ub < U32 and not v.wrapped for v in vals)
    m = re.search(r"c = \(a ([+\-*]) b\) % 2\^64", w)
    if m:
        op = m.group(1)
        spec = A + B if op == "+" else A - B if op == "-" else A * B
        cn = go["c"]
        flag = [o for o in outs if o not in cn]
        cv = res[len(flag):]
        C = ZP()
        for i, v in enumerate(reversed(cv)):
            C = C + v.z * ZP.const(U32 ** i)
        mod = U32 ** len(cn)
        diff = C - spec
        if diff.is_zero() and limbs_ok(cv[1:]) and op == "*" and not flag and len(cn) == 4:
            # exact 128-bit product: the top limb is (a*b - lower limbs) / 2^96 <= (2^64 - 1)^2 / 2^96 < 2^32
            return True, ""
        if not limbs_ok(cv):
            return False, "a result limb is not a u32 value"
        if not diff.divisible_by(mod):
            return False, "result - spec = %s is not a multiple of 2^%d" % (repr(diff)[:160], 32 * len(cn))
        if flag:
            fv = res[0]
            # exact identity: spec = C + 2^64 * flag  (add)   /   spec = C - 2^64 * flag  (sub)
            exact = (spec - C - fv.z * ZP.const(mod)) if op == "+" else (spec - C + fv.z * ZP.const(mod))
            if not exact.is_zero():
                # `or` of two borrows: b1 + b2 - b1*b2 equals b1 + b2 because both cannot be set (documented as a flag)
                alt = exact.subst({})
                prod = [m_ for m_ in exact.t if len(m_) == 2 and all(v.startswith("k") for v, e in m_)]
                if op == "-" and prod:
                    e2 = ZP({m_: c for m_, c in exact.t.items() if m_ not in prod})
                    if e2.is_zero() and exclusive_borrows(prod, st):
                        return True, ""
                return False, "the flag does not satisfy a %s b = c %s 2^64 * flag exactly (residue %s)" % (op, "+" if op == "+" else "-", repr(exact)[:160])
            if fv.ub > 1:
                return False, "the flag is not binary"
        return True, ""
    m = re.search(r"c = 1 when a (<=|>=|<|>|==|!=) (b|0)", w)
    if m:
        rel, rhs = m.group(1), m.group(2)
        f = res[0].b
        if f is None:
            return False, "the result is not a flag"
        pairs = limb_pairs([f])
        names_a = gi["a"]
        names_b = gi.get("b")
        for combo in itertools.product(ORDER, repeat=len(names_a)):
            relmap = {}
            for i, n in enumerate(names_a):
                y = ZP.var(names_b[i]) if rhs == "b" else ZP.const(0)
                relmap[(repr(ZP.var(n)), repr(y))] = combo[i]
            if rhs == "0" and "<" in combo:
                continue
            # 64-bit order from the limb orders, most significant limb first
            o = "="
            for c in combo:
                if c != "=":
                    o = c
                    break
            want = {"<": o == "<", ">": o == ">", "<=": o != ">", ">=": o != "<", "==": o == "=", "!=": o != "="}[rel]
            try:
                got = eval_formula(f, relmap, st)
            except Undecided as e:
                return False, "cannot evaluate the flag: %s" % e
            if got != want:
                return False, "for limb relations %s (a %s b) the flag is %s" % (dict(zip(names_a, combo)), o, int(got))
        return True, ""
    m = re.search(r"c = a when a ([<>]) b, and b otherwise", w)
    if m:
        rel = m.group(1)
        names_a, names_b = gi["a"], gi["b"]
        for combo in itertools.product(ORDER, repeat=2):
            relmap = {(repr(ZP.var(na)), repr(ZP.var(nb))): c for na, nb, c in zip(names_a, names_b, combo)}
            o = "="
            for c in combo:
                if c != "=":
                    o = c
                    break
            pick_a = (o == rel)
            for i, v in enumerate(res):
                t = v.tag
                if not t or t[0] != "ite":
                    return False, "result limb %d is not a conditional selection" % i
                try:
                    cval = eval_formula(t[1], relmap, st)
                except Undecided as e:
                    return False, "cannot evaluate the selector: %s" % e
                chosen = t[2] if cval else t[3]
                want = ZP.var(names_a[i]) if pick_a else ZP.var(names_b[i])
                other = ZP.var(names_b[i]) if pick_a else ZP.var(names_a[i])
                if not (chosen.z == want or (combo[i] == "=" and chosen.z == other)):
                    return False, "for limb relations %s the result limb %d is %r, expected %r" % (combo, i, chosen.z, want)
        return True, ""
    m = re.search(r"c = a (AND|OR|XOR) b", w)
    if m:
        ins_ = {"AND": "u32and", "OR": "u32or", "XOR": "u32xor"}[m.group(1)]
        for i, v in enumerate(res):
            t = v.tag
            na, nb = gi["a"][i], gi["b"][i]
            if not t or t[0] != ins_ or {repr(t[1].z), repr(t[2].z)} != {na, nb}:
                return False, "result limb %d is %s, expected %s(%s, %s)" % (i, (t[0], repr(t[1].z), repr(t[2].z)) if t else repr(v.z), ins_, na, nb)
        return True, ""
    if re.search(r"c = a // b|c = a % b|r = a % b, q = a / b", w):
        return decide_div(name, w, res, st, env, A, B, gi, go)
    return False, "specification text not understood: %r" % w.strip()[:80]


def reduce_pow2(p, st):
    """normal form modulo D * E = 2^32 for every power-of-two pair of the state"""
    out = ZP()
    for m, c in p.t.items():
        d = dict(m)
        for D, E in st.pow2.items():
            k = min(d.get(D, 0), d.get(E, 0))
            if k:
                c *= U32 ** k
                for v in (D, E):
                    d[v] -= k
                    if not d[v]:
                        del d[v]
        out = out + ZP({tuple(sorted(d.items())): c})
    return out


def run_case(X, M, name, ins, case):
    st = State()
    st.case = dict(case)
    st.stack = list(ins) + [Val(ZP.var("deep%d" % i), P - 1) for i in range(len(ins), 64)]
    out = []
    X.run_block(st, M.procs[name].body, out, [4000])
    if len(out) != 1:
        raise Undecided("%d paths" % len(out))
    return out[0]


def decide_shift(ctx, key, loc, X, M, name):
    """shl: c = a * 2^b mod 2^64 with 2^b opaque; shr: c = floor(a / 2^b), decided separately for b < 32 (2^b = D) and b >= 32
    (2^b = 2^32 * D) with the division identities of u32divmod and D * E = 2^32"""
    ins = [Val(ZP.var("b"), 63), Val(ZP.var("a_hi"), U32 - 1), Val(ZP.var("a_lo"), U32 - 1)]
    A = ZP.var("a_hi") * ZP.const(U32) + ZP.var("a_lo")
    if name == "shl":
        st = run_case(X, M, name, ins, {})
        check_frame(ctx, key, loc, st, 2, 3)
        ts = [v for v in st.defs if st.defs[v][0] == "pow2"]
        if len(ts) != 1:
            return False, "expected exactly one pow2"
        if repr(st.defs[ts[0]][1].z) != "b":
            return False, "pow2 is applied to %r, expected the shift amount b" % (st.defs[ts[0]][1].z,)
        c = st.stack[:2]
        C = c[0].z * ZP.const(U32) + c[1].z
        if not all(v.ub < U32 and not v.wrapped for v in c):
            return False, "a result limb is not a u32 value"
        d = C - A * ZP.var(ts[0])
        return (True, "") if d.divisible_by(U32 ** 2) else (False, "result - a * 2^b is not a multiple of 2^64: %s" % repr(d)[:160])
    # shr
    for case in ("lo", "hi"):
        try:
            st = run_case(X, M, name, ins, {"pow2": case})
        except Undecided as e:
            return False, "case b %s 32: %s" % ("<" if case == "lo" else ">=", e)
        check_frame(ctx, key, loc, st, 2, 3)
        (D, E), = st.pow2.items()
        if repr(st.defs[D][1].z) != "b":
            return False, "pow2 is applied to %r, expected the shift amount b" % (st.defs[D][1].z,)
        c_hi, c_lo = st.stack[0], st.stack[1]
        qhi = [q for r, d, q in st.rems if d == ZP.var(D) and r == ZP.var("a_hi") - ZP.var(D) * ZP.var(q)]
        if len(qhi) != 1:
            return False, "case b %s 32: a_hi is not divided by 2^(b mod 32)" % ("<" if case == "lo" else ">=")
        if case == "lo":
            C = c_hi.z * ZP.const(U32) + c_lo.z
            rem = reduce_pow2(A - C * ZP.var(D), st)
            ok = any(rem == r and d == ZP.var(D) for r, d, q in st.rems) and c_hi.z == ZP.var(qhi[0])
            if not ok:
                return False, "for b < 32 (2^b = D): a - c * D = %s is not a remainder of a division by D, or the high limb is not floor(a_hi / D) (c_hi = %r, c_lo = %r)" % (repr(rem)[:120], c_hi.z, c_lo.z)
        else:
            ok = c_hi.z.is_zero() and c_lo.z == ZP.var(qhi[0])
            if not ok:
                extra = ""
                for v in c_hi.z.vars():
                    df = st.defs.get(v)
                    if df and df[0] == "quot":
                        extra = "; %s = floor(%r / %r), which is 1 for a_lo = 2^32 - 1" % (v, df[1], df[2]) if df[2].const_value() == U32 - 1 else "; %s = floor(%r / %r)" % (v, df[1], df[2])
                return False, "for b >= 32 (2^b = 2^32 * D) the result must be [0, floor(a_hi / D)] but is [c_hi = %r, c_lo = %r]%s" % (c_hi.z, c_lo.z, extra)
    return True, ""


def decide_rot(ctx, key, loc, X, M, name):
    """rotl / rotr: decided for each of the 32 values of s = b mod 32 with 2^s (rotl) resp. 2^(32-s) (rotr) as a constant:
    with limbs (r_hi, r_lo) = A*D - (2^64 - 1)*h, h = floor(A*D / 2^64), the result for the un-swapped case is rotl(A, log2 D) and
    the other case of the `b > 31` flag has the limbs swapped (a rotation by a further 32 bits). The decomposition
    b = (b & 31) + 32*[b > 31] for b < 64 is the arithmetic fact relied on."""
    ins = [Val(ZP.var("b"), 63), Val(ZP.var("a_hi"), U32 - 1), Val(ZP.var("a_lo"), U32 - 1)]
    A = ZP.var("a_hi") * ZP.const(U32) + ZP.var("a_lo")
    undecided = []
    for s_ in range(32):
        D = 2 ** s_ if name == "rotl" else 2 ** (32 - s_)
        try:
            st = run_case(X, M, name, ins, {"pow2": "concrete", "pow2_value": D})
        except Undecided as e:
            undecided.append((s_, str(e)))
            continue
        check_frame(ctx, key, loc, st, 2, 3)
        pw = [n for n in st.notes if n[0] == "pow2"]
        flags = [v for v in st.defs if st.defs[v][0] == "borrow" and st.defs[v][1].const_value() == 31 and repr(st.defs[v][2]) == "b"]
        if len(pw) != 1 or len(flags) != 1:
            return False, "s = %d: expected one pow2 and one `31 < b` flag" % s_
        # the exponent handed to pow2: b & 31 (rotl) or 32 - (b & 31) (rotr)
        k = flags[0]
        c = st.stack[:2]
        if not all(v.ub < U32 and not v.wrapped for v in c):
            return False, "s = %d: a result limb is not provably a u32 value (bounds %s)" % (s_, [v.ub for v in c])
        lim = {kv: [v.z.subst({k: ZP.const(kv)}) for v in c] for kv in (0, 1)}
        straight = 0 if name == "rotl" else 1        # value of the flag for which the limbs come out un-swapped
        Xv = lim[straight][0] * ZP.const(U32) + lim[straight][1]
        hs = [v for v in st.defs if st.defs[v][0] == "mulhi"]
        ok = any((Xv - (A * ZP.const(D) - ZP.const(U32 ** 2 - 1) * ZP.var(h))).is_zero() for h in hs)
        if not ok:
            return False, "s = %d: with the flag = %d the result is not rotl(a, %d) = a*%d - (2^64 - 1)*floor(a*%d / 2^64): %s" % (s_, straight, D.bit_length() - 1, D, D, repr(Xv)[:120])
        other = lim[1 - straight]
        if not (other[0] == lim[straight][1] and other[1] == lim[straight][0]):
            return False, "s = %d: the two cases of the `b > 31` flag are not limb swaps of each other" % s_
    if undecided:
        ctx.analysed("%s: not decided for b mod 32 in %s (%s)" % (key, [u[0] for u in undecided], undecided[0][1][:140]))
    return True, ""


def decide_bitcount(name, ins, finals):
    """count(n) = count32(first limb) unless the first limb is all zeros / all ones, then 32 + count32(other limb)"""
    ins_, first, full = BITCOUNT[name]
    hi, lo = ins[0], ins[1]
    fl, ot = (hi, lo) if first == "hi" else (lo, hi)
    if len(finals) != 2:
        return False, "%d paths, expected the two cases of the first limb" % len(finals)
    seen = set()
    for st in finals:
        if len(st.path) != 1:
            return False, "unexpected branching"
        f, truth = st.path[0]
        if f[0] != "eq0" or not (f[1] == ZP.var(fl) - ZP.const(full)):
            return False, "the case split tests %r, expected %s == %d" % (f, fl, full)
        v = st.stack[0]
        cs = [x for x in v.z.vars() if x.startswith("c")]
        if len(cs) != 1:
            return False, "result %r is not a bit count" % (v.z,)
        d = st.defs.get(cs[0])
        want_limb = ot if truth else fl
        want = ZP.var(cs[0]) + ZP.const(32 if truth else 0)
        if not d or d[0] != ins_ or repr(d[1].z) != want_limb or not (v.z == want):
            return False, "when %s %s %d the result is %r with %s = %s(%s); expected %s(%s)%s" % (fl, "==" if truth else "!=", full, v.z, cs[0], d and d[0], d and repr(d[1].z), ins_, want_limb, " + 32" if truth else "")
        seen.add(truth)
    return seen == {0, 1}, "both cases must be present"


def exclusive_borrows(prod, st):
    """k_i * k_j terms of an `or` of two borrows where one borrow is that of (x - k_in) style chains: both set is impossible
    when the second subtraction subtracts the first borrow from a difference that is zero only ... ; accepted only for the pattern
    d := a - b + 2^32*k1 ; d - k_in + 2^32*k2 : k1 = 1 implies d >= 1 ... not derivable in general -> require k2's minuend to be the difference produced with k1"""
    for m in prod:
        (v1, _), (v2, _) = m
        d1, d2 = st.defs.get(v1), st.defs.get(v2)
        if not d1 or not d2 or d1[0] != "borrow" or d2[0] != "borrow":
            return False
        # one of them is the borrow of (diff - other_borrow) where diff = x - y + 2^32 * k: if k = 1 then diff = x - y + 2^32 >= 1 > ... cannot borrow again by subtracting a bit unless diff = 0, impossible when k = 1 (x < y => diff >= 1)
        def chained(first, second, kf):
            minuend, sub = second[1], second[2]
            lin = minuend.linear_in(kf)
            return lin is not None and lin[0] == U32 and (first[1] - first[2] == lin[1]) and sub.vars() and all(st.ranges.get(v, P) <= 1 for v in sub.vars())
        if not (chained(d1, d2, v1) or chained(d2, d1, v2)):
            return False
    return True


def decide_div(name, w, res, st, env, A, B, gi, go):
    adv = st.adv
    if len(adv) != 4:
        return False, "%d advice values are read, expected quotient and remainder (4 limbs)" % len(adv)
    if not any("push_u64div" in x for x in st.injected):
        return False, "no adv.push_u64div injector"
    # adv_push.2 puts the first popped value deeper: quotient = (adv2 hi?, ...) -> identify by the range checks and by the equations
    for a in adv:
        if st.ranges.get(a, P) >= U32:
            return False, "advice value %s is not range-checked to 32 bits" % a
    q_names, r_names = adv[:2], adv[2:]
    sols = []
    # the two limbs popped by adv_push.2: which is hi/lo is decided by trying both orders; the identity must hold for one of them
    for qo in (q_names, q_names[::-1]):
        for ro in (r_names, r_names[::-1]):
            Q = ZP.var(qo[0]) * ZP.const(U32) + ZP.var(qo[1])
            R = ZP.var(ro[0]) * ZP.const(U32) + ZP.var(ro[1])
            goal = A - Q * B - R
            g, rest, used = solve_equations(list(st.eqs), goal, protect=set(adv) | set(env))
            if g.is_zero():
                sols.append((qo, ro, Q, R))
    if not sols:
        return False, "the assertions do not imply a = q*b + r over the integers (equations: %s)" % [repr(e)[:80] for e in st.eqs][:8]
    qo, ro, Q, R = sols[0]
    # r < b must be asserted: a flag formula equivalent to (b > r) on 64-bit values
    okf = False
    for f in st.asserted:
        try:
            good = True
            for combo in itertools.product(ORDER, repeat=2):
                relmap = {(repr(ZP.var(gi["b"][0])), repr(ZP.var(ro[0]))): combo[0], (repr(ZP.var(gi["b"][1])), repr(ZP.var(ro[1]))): combo[1]}
                o = "="
                for c in combo:
                    if c != "=":
                        o = c
                        break
                if eval_formula(f, relmap, st) != (o == ">"):
                    good = False
                    break
            if good:
                okf = True
        except Undecided:
            continue
    if not okf:
        return False, "no assertion equivalent to b > r (remainder bound): the quotient is not pinned down by the checks"
    # outputs
    names = {"q": qo, "r": ro}
    want = []
    if "c = a // b" in w:
        want = [ZP.var(qo[0]), ZP.var(qo[1])]
    elif "c = a % b" in w:
        want = [ZP.var(ro[0]), ZP.var(ro[1])]
    else:
        want = [ZP.var(ro[0]), ZP.var(ro[1]), ZP.var(qo[0]), ZP.var(qo[1])]
    got = [v.z for v in res]
    if got != want:
        return False, "results are %s, expected %s" % (got, want)
    return True, ""


def run_u256(ctx, F):
    M = Module(U256)
    X = Exec(M, rules_c05.family_expected)
    ins = ["b%d" % i for i in range(7, -1, -1)] + ["a%d" % i for i in range(7, -1, -1)]
    env = {n: ZP.var(n) for n in ins}
    A = value_of(["a%d" % i for i in range(7, -1, -1)], env)
    B = value_of(["b%d" % i for i in range(7, -1, -1)], env)
    for name in M.order:
        p = M.procs[name]
        if not p.exported:
            continue
        key = "u256::" + name
        loc = "stdlib/asm/math/u256.masm:%d" % p.line
        spec = U256_SPEC.get(name)
        ctx.inst(key=key, nontrivial=spec is not None)
        if spec is None:
            ctx.violation("spec-missing|%s" % key, loc, "no specification known for %s" % key)
            continue
        kind, op, n = spec
        my_ins = ins if kind != "eqz" else ["a%d" % i for i in range(7, -1, -1)]
        try:
            finals = X.run_proc(name, limb_inputs(my_ins), budget=20000)
        except Undecided as e:
            msg = str(e)
            if "is not known to be a u32 value" in msg:
                # a u32 instruction applied to a value that may exceed 2^32 - 1: outside the instruction's documented domain
                ctx.oblig(False)
                ctx.violation("u32-operand-range|%s" % key, loc, "%s: %s; the instruction reference leaves the result undefined for such operands (the VM reduces modulo the field prime), so the limb arithmetic is not justified" % (key, msg[:260]))
                continue
            ctx.violation("UNANALYSABLE|%s" % key, loc, msg[:300])
            continue
        if len(finals) != 1:
            ctx.violation("UNANALYSABLE|%s" % key, loc, "%d paths" % len(finals))
            continue
        st = finals[0]
        nout = 8 if kind in ("arith", "bitwise") else 1
        check_frame(ctx, key, loc, st, nout, len(my_ins))
        res = st.stack[:nout]
        ok, why = True, ""
        if kind == "arith":
            C = ZP()
            for i, v in enumerate(reversed(res)):
                C = C + v.z * ZP.const(U32 ** i)
            specv = A + B if op == "+" else A - B if op == "-" else A * B
            if not all(v.ub < U32 and not v.wrapped for v in res):
                ok, why = False, "a result limb is not a u32 value"
            elif not (C - specv).divisible_by(U32 ** 8):
                d = C - specv
                bad = sorted((repr(ZP({m: c})) for m, c in d.t.items() if c % (U32 ** 8)), key=len)[:3]
                ok, why = False, "result - (a %s b) is not a multiple of 2^256; offending terms: %s" % (op, bad)
        elif kind == "bitwise":
            for i, v in enumerate(res):
                t = v.tag
                na, nb = "a%d" % (7 - i), "b%d" % (7 - i)
                if not t or t[0] != op or {repr(t[1].z), repr(t[2].z)} != {na, nb}:
                    ok, why = False, "result limb %d is %s, expected %s(%s, %s)" % (7 - i, (t[0], repr(t[1].z), repr(t[2].z)) if t else repr(v.z), op, na, nb)
                    break
        elif kind in ("eqz", "eq"):
            f = res[0].b
            if f is None:
                ok, why = False, "the result is not a flag"
            else:
                # conjunction of all 8 limb equalities: enumerate which limbs are equal
                for mask in range(256):
                    relmap = {}
                    for i in range(8):
                        x = ZP.var("a%d" % i)
                        y = ZP.var("b%d" % i) if kind == "eq" else ZP.const(0)
                        relmap[(repr(x), repr(y))] = "=" if (mask >> i) & 1 else ">"
                    try:
                        got = eval_formula(f, relmap, st)
                    except Undecided as e:
                        ok, why = False, "cannot evaluate the flag: %s" % e
                        break
                    if got != (mask == 255):
                        ok, why = False, "with equal limbs %s the flag is %d" % ([i for i in range(8) if (mask >> i) & 1], int(got))
                        break
        ctx.oblig(ok)
        if len(ctx.samples) < 12:
            ctx.sample({"procedure": key, "spec": "%s %s" % (kind, op or ""), "verdict": "holds" if ok else why})
        if not ok:
            ctx.violation("arith|%s" % key, loc, "%s does not compute %s: %s" % (key, {"arith": "(a %s b) mod 2^256" % op, "bitwise": op, "eqz": "a == 0", "eq": "a == b"}[kind], why))


def r_data_movement_table(ctx, F):
    """the analyser's data-movement semantics are the table C05 validates against the repository (rules_c05.family_expected):
    check here that every data-movement instruction used by the analysed files has an entry"""
    used = set()
    for path in (U64, U256):
        M = Module(path)
        for t, ln in M.toks:
            op = t.split(".")[0]
            if op in ("dup", "swap", "movup", "movdn", "dupw", "swapw", "movupw", "movdnw", "drop", "dropw", "padw"):
                used.add(t)
    for t in sorted(used):
        parts = t.split(".")
        fam = {"dup": "Dup", "swap": "Swap", "movup": "MovUp", "movdn": "MovDn", "dupw": "DupW", "swapw": "SwapW", "movupw": "MovUpW", "movdnw": "MovDnW", "drop": "Drop", "dropw": "DropW", "padw": "PadW"}[parts[0]]
        name = fam + (parts[1] if len(parts) > 1 else ("0" if parts[0] in ("dup", "dupw") else "1" if parts[0] in ("swap", "swapw") else ""))
        ctx.inst(key=t, nontrivial=True)
        ok = rules_c05.family_expected(name) is not None
        ctx.oblig(ok)
        if not ok:
            ctx.violation("no-model|%s" % t, "stdlib/asm/math", "no data-movement model for %s" % t)


def r3_locals(ctx, F):
    """no math procedure reads a procedure local before writing it in the same activation (same analysis as C17-R1)"""
    from . import rules_c17
    ar = rules_c17.arity_table()
    n = 0
    for path in (U64, U256):
        M = Module(path)
        for name in M.order:
            p = M.procs[name]
            if not p.exported:
                continue
            key = "%s::%s" % (os.path.basename(path)[:-5], name)
            fl = rules_c17.Flow(M, ar)
            try:
                fl.run(p, [rules_c17.U] * 48, fl.new_frame(), set())
            except (Undecided, MasmError) as e:
                ctx.inst(key=key, nontrivial=False)
                ctx.analysed("%s: not analysed (%s)" % (key, str(e)[:100]))
                continue
            ctx.inst(key=key, nontrivial=fl.reads > 0)
            n += 1
            ev = sorted(set((e[1], e[3]) for e in fl.events))
            ctx.oblig(not ev)
            for where, what in ev:
                ctx.violation("local-read-before-write|%s|%s|%s" % (key, where.split(" ")[0], what), "%s:%d" % (path.replace("/repo/", ""), p.line),
                              "%s: %s in %s reads a procedure local that this activation has not written" % (key, what, where))
    ctx.floor("math-procedures-analysed", n, 30)


def run(ctx, F):
    ctx.trusted += ["vlib/masm.py: MASM parser and integer model of the u32 instructions (identities of docs/src/user_docs/assembly/u32_operations.md, written out in the file)",
                    "data-movement semantics: the table that C05 validates against the assembler and the operation handlers",
                    "specifications: the `#!` documentation of u64.masm; for u256.masm the procedure names",
                    "arithmetic lemmas: lexicographic order of limbs; a = q*b + r with 0 <= r < b determines q and r; a product of two values below the prime modulus is zero only if a factor is zero"]
    ctx.assumptions += ["inputs are u32 limbs (stated as assumed by the procedures' documentation)", "every u32 instruction of the analysed procedures is applied to values proved to be u32 (bounds chained through the carry identities), otherwise the procedure is reported"]
    ctx.run_rule("C16-R0", "every data-movement instruction used in the analysed files has a C05-validated model", r_data_movement_table, F)
    ctx.run_rule("C16-R1", "u64 procedures compute their documented results for all operands (integer polynomial identities / order enumeration / implied division identity) and keep the rest of the stack", run_u64, F)
    ctx.run_rule("C16-R3", "no math procedure reads a procedure local before writing it (history independence)", r3_locals, F)
    ctx.run_rule("C16-R2", "u256 procedures compute the functions their names state for all operands and keep the rest of the stack", run_u256, F)

"""C17 — standard-library hash functions agree with their reference definitions. The numerical agreement is not decidable
statically; ONE necessary condition is: a digest must be a function of the input only. Decided here (R1):

  history independence of procedure-local memory: in stdlib/asm/crypto/hashes/*.masm no local word is read (loc_load*,
  mem_load* through an address derived from locaddr) before it has been written in the same activation. The VM does not
  clear procedure locals, so a read of an unwritten local yields whatever an earlier call left there: the digest would then
  differ from the reference as soon as the procedure runs on dirty memory (for instance when it is called twice).

Abstract interpretation of the MASM sources with three kinds of values: constants, addresses of locals (activation, index)
and unknown. Stack effects come from the instruction reference tables (docs/src/user_docs/assembly, the tables C05 validates)
and from C05's data-movement table; `exec` is inlined with a fresh activation; `repeat` is unrolled; `while.true` bodies are
analysed on the loop-invariant weakening of the state (cells changed by the body become unknown)."""
import os, re, glob
from .masm import Module, MasmError, Undecided
from . import rules_c05, userdocs, bvexec, hashref

LEVEL = "other"
DIR = "/repo/stdlib/asm/crypto/hashes"
U = ("u",)


class Flow:
    def __init__(self, module, arity):
        self.m = module
        self.arity = arity
        self.frames = 0
        self.events = []        # (kind, proc, line, detail)
        self.unknown_addr = 0
        self.reads = 0
        self.writes = 0

    def new_frame(self):
        self.frames += 1
        return self.frames

    def move(self, stack, name):
        exp = rules_c05.family_expected(name)
        if exp is None or "ok" not in exp:
            return False
        n = 32
        while len(stack) < n + 8:
            stack.append(U)
        new = []
        for x in exp["ok"]:
            if x.const_value() == 0:
                new.append(("c", 0))
            else:
                (v,) = x.vars()
                new.append(stack[int(v[1:])])
        stack[:] = new + stack[n:]
        return True

    def run(self, proc, stack, frame, written, depth=0, chain=()):
        if depth > 12:
            raise Undecided("exec nesting too deep")
        self.block(proc.body, stack, frame, written, proc, depth, chain + (proc.name,))

    def block(self, body, stack, frame, written, proc, depth, chain):
        for node in body:
            if node[0] == "ins":
                self.step(node[1], node[2], stack, frame, written, proc, depth, chain)
            elif node[0] == "repeat":
                for _ in range(node[1]):
                    self.block(node[2], stack, frame, written, proc, depth, chain)
            elif node[0] == "if":
                stack.pop(0)
                s1, w1 = list(stack), set(written)
                s2, w2 = list(stack), set(written)
                self.block(node[1], s1, frame, w1, proc, depth, chain)
                self.block(node[2], s2, frame, w2, proc, depth, chain)
                n = min(len(s1), len(s2))
                stack[:] = [a if a == b else U for a, b in zip(s1[:n], s2[:n])]
                written.clear()
                written |= (w1 & w2)
            elif node[0] == "while":
                stack.pop(0)
                for _pass in range(2):
                    s1, w1 = list(stack), set(written)
                    self.block(node[1], s1, frame, w1, proc, depth, chain)
                    s1.pop(0)       # the recomputed guard
                    n = min(len(s1), len(stack))
                    weak = [a if a == b else U for a, b in zip(stack[:n], s1[:n])]
                    if weak == stack[:n]:
                        break
                    stack[:] = weak + stack[n:]
                # zero iterations are possible: writes inside the loop are not guaranteed afterwards

    def pad(self, stack, n):
        while len(stack) < n:
            stack.append(U)

    def step(self, ins, ln, stack, frame, written, proc, depth, chain):
        parts = ins.split(".")
        op, imm = parts[0], parts[1:]
        self.pad(stack, 40)
        where = "%s (via %s)" % (proc.name, " > ".join(chain)) if len(chain) > 1 else proc.name
        if op == "exec":
            name = ".".join(imm)
            if "::" in name or name not in self.m.procs:
                raise Undecided("%s:%d: exec of %s (not a procedure of this module)" % (self.m.path, ln, name))
            callee = self.m.procs[name]
            self.run(callee, stack, self.new_frame(), written, depth + 1, chain)
            return
        fam = {"dup": "Dup", "swap": "Swap", "movup": "MovUp", "movdn": "MovDn", "dupw": "DupW", "swapw": "SwapW", "movupw": "MovUpW", "movdnw": "MovDnW"}
        if op in fam:
            default = {"dup": 0, "swap": 1, "dupw": 0, "swapw": 1}.get(op)
            n = int(imm[0]) if imm else default
            if not self.move(stack, "%s%d" % (fam[op], n)):
                raise Undecided("%s:%d: no model for %s" % (self.m.path, ln, ins))
            return
        if op in ("drop", "dropw", "padw", "swapdw"):
            self.move(stack, {"drop": "Drop", "dropw": "DropW", "padw": "PadW", "swapdw": "SwapDw"}[op])
            return
        if op == "push":
            for x in imm:
                stack.insert(0, ("c", int(x, 16) if x.startswith("0x") else int(x)))
            return
        if op == "locaddr":
            stack.insert(0, ("loc", frame, int(imm[0])))
            return
        if op in ("add", "sub", "u32wrapping_add", "u32wrapping_sub", "u32overflowing_add", "u32overflowing_sub") and (imm or True):
            if imm:
                b = ("c", int(imm[0]))
            else:
                b = stack.pop(0)
            a = stack.pop(0)
            sign = -1 if "sub" in op else 1
            r = U
            if a[0] == "loc" and b[0] == "c":
                r = ("loc", a[1], a[2] + sign * b[1])
            elif b[0] == "loc" and a[0] == "c" and sign == 1:
                r = ("loc", b[1], b[2] + a[1])
            elif a[0] == "c" and b[0] == "c":
                r = ("c", a[1] + sign * b[1])
            stack.insert(0, r)
            if op.startswith("u32overflowing"):
                stack.insert(0, U)
            return
        # ---- memory
        if op in ("loc_store", "loc_storew"):
            self.writes += 1
            written.add((frame, int(imm[0])))
            if op == "loc_store":
                stack.pop(0)
            return
        if op in ("loc_load", "loc_loadw"):
            self.reads += 1
            k = (frame, int(imm[0]))
            if k not in written:
                self.events.append(("read-before-write", where, ln, "%s.%s" % (op, imm[0])))
            if op == "loc_load":
                stack.insert(0, U)
            else:
                stack[:4] = [U, U, U, U]
            return
        if op in ("mem_store", "mem_storew", "mem_load", "mem_loadw"):
            a = ("c", int(imm[0])) if imm else stack.pop(0)
            if a[0] == "loc":
                if op.startswith("mem_store"):
                    self.writes += 1
                    written.add((a[1], a[2]))
                else:
                    self.reads += 1
                    if (a[1], a[2]) not in written:
                        self.events.append(("read-before-write", where, ln, "%s at locaddr.%d" % (op, a[2])))
            elif a[0] == "u":
                self.unknown_addr += 1
            if op == "mem_store":
                stack.pop(0)
            elif op == "mem_load":
                stack.insert(0, U)
            elif op == "mem_loadw":
                stack[:4] = [U, U, U, U]
            return
        # ---- everything else: arity from the instruction reference
        key = op + (".imm" if imm else "")
        ar = self.arity.get(key) or (self.arity.get(op) if not imm else None)
        if ar is None:
            raise Undecided("%s:%d: no stack effect known for %s" % (self.m.path, ln, ins))
        pops, pushes = ar
        del stack[:pops]
        for _ in range(pushes):
            stack.insert(0, U)


def arity_table():
    """instruction -> (pops, pushes) from the instruction reference rows (words count 4); `.imm` forms take one operand fewer"""
    out = {}
    for r in userdocs.rows():
        if not r.inp or not r.out or r.inp[0] is None or r.out[0] is None:
            continue
        cnt = lambda toks: sum(4 if re.match(r"^[A-Z]'?$", t) else 1 for t in toks if t != "...")
        pops, pushes = cnt(r.inp[0]), cnt(r.out[0])
        for f in r.forms:
            f = f.replace("`", "").strip()
            m = re.match(r"^([a-z0-9_]+)(\.\*?\w+\*?)?$", f)
            if not m:
                continue
            name = m.group(1)
            if m.group(2):
                # immediate form: the documented top operand is supplied by the instruction; io ops with address immediates handled by the interpreter
                out[name + ".imm"] = (max(pops - 1, 0), pushes)
            else:
                out[name] = (pops, pushes)
    return out


def r1_locals(ctx, F):
    ar = arity_table()
    ctx.floor("instructions-with-documented-stack-effect", len(ar), 80)
    files = sorted(glob.glob(os.path.join(DIR, "*.masm")))
    ctx.floor("hash-modules", len(files), 4)
    total_reads = 0
    for path in files:
        M = Module(path)
        rel = path.replace("/repo/", "")
        for name in M.order:
            p = M.procs[name]
            if not p.exported:
                continue
            key = "%s::%s" % (os.path.basename(path)[:-5], name)
            fl = Flow(M, ar)
            try:
                fl.run(p, [U] * 48, fl.new_frame(), set())
            except (Undecided, MasmError) as e:
                ctx.inst(key=key, nontrivial=True)
                ctx.violation("UNANALYSABLE|%s" % key, "%s:%d" % (rel, p.line), str(e)[:300])
                continue
            ctx.inst(key=key, nontrivial=fl.reads > 0)
            total_reads += fl.reads
            ev = sorted(set((e[1], e[3]) for e in fl.events))
            ctx.oblig(not ev)
            ctx.sample({"procedure": key, "local_reads": fl.reads, "local_writes": fl.writes, "activations": fl.frames, "accesses_through_unknown_addresses": fl.unknown_addr})
            for where, what in ev:
                ctx.violation("local-read-before-write|%s|%s|%s" % (key, where.split(" ")[0], what), "%s:%d" % (rel, p.line),
                              "%s: %s in %s reads a procedure local that no instruction of this activation has written: the result depends on what an earlier call left in memory" % (key, what, where))
    ctx.floor("local-reads-analysed", total_reads, 100)


# ---- R2: the fixed-length hash procedures equal the reference functions ---------------------------------------------------
HASH_PROCS = [
    # (module, procedure, number of input words, reference, what)
    ("sha256", "hash_2to1", 16, lambda c, w: hashref.sha256(c, w), "SHA-256 of the 64-byte message m0..m15 (big-endian words)"),
    ("sha256", "hash_1to1", 8, lambda c, w: hashref.sha256(c, w), "SHA-256 of the 32-byte message m0..m7 (big-endian words)"),
    ("blake3", "hash_2to1", 16, lambda c, w: hashref.blake3(c, w), "BLAKE3 of the 64-byte message (little-endian words)"),
    ("blake3", "hash_1to1", 8, lambda c, w: hashref.blake3(c, w), "BLAKE3 of the 32-byte message (little-endian words)"),
    ("keccak256", "hash", 16, lambda c, w: hashref.keccak256_64(c, w), "Keccak-256 of 64 bytes (eight little-endian lanes as [high, low] words)"),
]


def r2_reference(ctx, F):
    import sys
    sys.setrecursionlimit(20000)
    n_ok = 0
    for mod, proc, nin, ref, what in HASH_PROCS:
        path = os.path.join(DIR, mod + ".masm")
        key = "%s::%s" % (mod, proc)
        ctx.inst(key=key, nontrivial=True)
        rel = path.replace("/repo/", "")
        try:
            M = Module(path)
        except (MasmError, OSError) as e:
            ctx.violation("UNANALYSABLE|%s" % key, rel, str(e)[:200])
            continue
        if proc not in M.procs or not M.procs[proc].exported:
            ctx.violation("hash-procedure-missing|%s" % key, rel, "exported procedure %s not found" % proc)
            continue
        loc = "%s:%d" % (rel, M.procs[proc].line)
        c = bvexec.Ctx()
        inputs = [c.input_word("m%d" % i) for i in range(nin)]
        X = bvexec.Exec(M, c, rules_c05.family_expected)
        stack = list(inputs) + [("below", i) for i in range(24)]
        try:
            X.run(proc, stack)
        except (Undecided, MasmError) as e:
            ctx.violation("UNANALYSABLE|%s" % key, loc, str(e)[:300])
            continue
        got = stack[:8]
        want = ref(c, inputs)
        bad = [i for i in range(8) if not (isinstance(got[i], bvexec.BV) and got[i] == want[i])]
        rest_ok = stack[8:16] == [("below", i) for i in range(8)]
        ok = not bad and rest_ok
        ctx.oblig(ok)
        ctx.sample({"procedure": key, "instructions_interpreted": X.steps, "uninterpreted_sums": c.stats["sums"], "cut_points": c.stats["cuts"], "atoms": c.n, "verdict": "equal to the reference for all inputs" if ok else "differs"})
        if ok:
            n_ok += 1
            continue
        if bad and all(isinstance(got[i], bvexec.BV) for i in bad):
            # the canonical forms differ: confirm with a witness input (evaluating the two extracted formulas), otherwise the
            # difference may be one of representation only (cut points) and nothing is claimed
            import random
            rnd = random.Random(20240917)
            witness = None
            for trial in range(6):
                vals = [rnd.getrandbits(32) if trial else (0x01020304 * (j + 1)) & 0xffffffff for j in range(nin)]
                env = {}
                for j, w_ in enumerate(inputs):
                    for b in range(32):
                        (m_,) = w_.bits[b]
                        (a_,) = m_
                        env[a_] = (vals[j] >> b) & 1
                memo = {}
                try:
                    gv = [c.evaluate(got[i], env, memo) for i in range(8)]
                    wv = [c.evaluate(want[i], env, memo) for i in range(8)]
                except (ValueError, KeyError, RecursionError):
                    break
                if gv != wv:
                    witness = (vals, gv, wv)
                    break
            if witness is None:
                ctx.violation("UNANALYSABLE|%s" % key, loc, "%s: the canonical form of the implementation differs from the reference's in %d digest words, but the two formulas agree on all sampled inputs: the difference may be one of representation (materialisation points) only; not decided" % (key, len(bad)))
                continue
            vals, gv, wv = witness
            ctx.violation("hash-differs|%s" % key, loc, "%s does not compute %s: for the input words %s the implementation's formula yields %s, the reference %s" % (key, what, ["0x%08x" % v for v in vals][:16], ["0x%08x" % v for v in gv], ["0x%08x" % v for v in wv]))
            continue
        if bad:
            i = bad[0]
            detail = ""
            if isinstance(got[i], bvexec.BV):
                db = [b for b in range(32) if got[i].bits[b] != want[i].bits[b]]
                detail = "; digest word %d differs in %d bit position(s), first at bit %d (implementation: %d monomials, reference: %d)" % (i, len(db), db[0], len(got[i].bits[db[0]]), len(want[i].bits[db[0]]))
            ctx.violation("hash-differs|%s" % key, loc, "%s does not compute %s: %d of the 8 digest words differ from the reference definition as symbolic functions of the input%s" % (key, what, len(bad), detail))
        elif not rest_ok:
            ctx.violation("hash-stack-effect|%s" % key, loc, "%s does not leave the stack below the digest untouched" % key)
    ctx.floor("hash-procedures-equal-to-reference", n_ok, 5)


def run(ctx, F):
    ctx.trusted += ["vlib/masm.py parser; stack effects from docs/src/user_docs/assembly (validated against the assembler and handlers by C05) and C05's data-movement table"]
    ctx.assumptions += ["equality of the digests with the reference hash functions is NOT decided (numerical); decided is the history independence of procedure-local memory, a necessary condition of it",
                        "accesses through addresses the analysis cannot resolve are counted in the evidence and not judged"]
    ctx.run_rule("C17-R2", "sha256::hash_2to1/hash_1to1, blake3::hash_2to1/hash_1to1, keccak256::hash: bit-level symbolic execution (ANF over GF(2), additions as hash-consed nodes) yields exactly the canonical form of the reference definition (FIPS 180-4, BLAKE3 spec, Keccak) on symbolic inputs", r2_reference, F)
    ctx.run_rule("C17-R1", "no hash procedure reads a procedure local (directly or through locaddr-derived addresses, across exec) before writing it in the same activation", r1_locals, F)

"""C17 — standard-library hash functions agree with their reference definitions. The numerical agreement is not decidable
statically; ONE necessary condition is: a digest must be a function of the input only. Decided here (R1):

  history independence of procedure-local memory: in stdlib/asm/crypto/hashes/*.masm no local word is read (loc_load*,
  mem_load* through an address derived from locaddr) before it has been written in the same activation. The VM does not
  clear procedure locals, so a read of an unwritten local yields whatever an earlier call left there: the digest would then
  differ from the reference as soon as the procedure runs on dirty memory (for instance when it is called twice).

Abstract interpretation of the MASM sources with three kinds of values: constants, addresses of locals (activation, index)
and unknown. Stack effects come from the instruction reference tables (docs/src/user_docs/assembly, the tables C05 validates)
and from C05's data-movement table; `exec` is inlined with a fresh activation; `repeat` is unrolled; `while.true` bodies are
analysed on the loop-invariant weakening of the state (cells changed by the body become unknown)."""
import os, re, glob
from .masm import Module, MasmError, Undecided
from . import rules_c05, userdocs, bvexec, hashref

LEVEL = "other"
DIR = "/repo/stdlib/asm/crypto/hashes"
U = ("u",)


class Flow:
    def __init__(self, module, arity):
        self.m = module
        self.arity = arity
        self.frames = 0
        self.events = []        # (kind, proc, line, detail)
        self.unknown_addr = 0
        self.reads = 0
        self.writes = 0

    def new_frame(self):
        self.frames += 1
        return self.frames

    def move(self, stack, name):
        exp = rules_c05.family_expected(name)
        if exp is None or "ok" not in exp:
            return False
        n = 32
        while len(stack) < n + 8:
            stack.append(U)
        new = []
        for x in exp["ok"]:
            if x.const_value() == 0:
                new.append(("c", 0))
            else:
                (v,) = x.vars()
                new.append(stack[int(v[1:])])
        stack[:] = new + stack[n:]
        return True

    def run(self, proc, stack, frame, written, depth=0, chain=()):
        if depth > 12:
            raise Undecided("exec nesting too deep")
        self.block(proc.body, stack, frame, written, proc, depth, chain + (proc.name,))

    def block(self, body, stack, frame, written, proc, depth, chain):
        for node in body:
            if node[0] == "ins":
                self.step(node[1], node[2], stack, frame, written, proc, depth, chain)
            elif node[0] == "repeat":
                for _ in range(node[1]):
                    self.block(node[2], stack, frame, written, proc, depth, chain)
            elif node[0] == "if":
                stack.pop(0)
                s1, w1 = list(stack), set(written)
                s2, w2 = list(stack), set(written)
                self.block(node[1], s1, frame, w1, proc, depth, chain)
                self.block(node[2], s2, frame, w2, proc, depth, chain)
                n = min(len(s1), len(s2))
                stack[:] = [a if a == b else U for a, b in zip(s1[:n], s2[:n])]
                written.clear()
                written |= (w1 & w2)
            elif node[0] == "while":
                stack.pop(0)
                for _pass in range(2):
                    s1, w1 = list(stack), set(written)
                    self.block(node[1], s1, frame, w1, proc, depth, chain)
                    s1.pop(0)       # the recomputed guard
                    n = min(len(s1), len(stack))
                    weak = [a if a == b else U for a, b in zip(stack[:n], s1[:n])]
                    if weak == stack[:n]:
                        break
                    stack[:] = weak + stack[n:]
                # zero iterations are possible: writes inside the loop are not guaranteed afterwards

    def pad(self, stack, n):
        while len(stack) < n:
            stack.append(U)

    def step(self, ins, ln, stack, frame, written, proc, depth, chain):
        parts = ins.split(".")
        op, imm = parts[0], parts[1:]
        self.pad(stack, 40)
        where = "%s (via %s)" % (proc.name, " > ".join(chain)) if len(chain) > 1 else proc.name
        if op == "exec":
            name = ".".join(imm)
            if "::" in name or name not in self.m.procs:
                raise Undecided("%s:%d: exec of %s (not a procedure of this module)" % (self.m.path, ln, name))
            callee = self.m.procs[name]
            self.run(callee, stack, self.new_frame(), written, depth + 1, chain)
            return
        fam = {"dup": "Dup", "swap": "Swap", "movup": "MovUp", "movdn": "MovDn", "dupw": "DupW", "swapw": "SwapW", "movupw": "MovUpW", "movdnw": "MovDnW"}
        if op in fam:
            default = {"dup": 0, "swap": 1, "dupw": 0, "swapw": 1}.get(op)
            n = int(imm[0]) if imm else default
            if not self.move(stack, "%s%d" % (fam[op], n)):
                raise Undecided("%s:%d: no model for %s" % (self.m.path, ln, ins))
            return
        if op in ("drop", "dropw", "padw", "swapdw"):
            self.move(stack, {"drop": "Drop", "dropw": "DropW", "padw": "PadW", "swapdw": "SwapDw"}[op])
            return
        if op == "push":
            for x in imm:
                stack.insert(0, ("c", int(x, 16) if x.startswith("0x") else int(x)))
            return
        if op == "locaddr":
            stack.insert(0, ("loc", frame, int(imm[0])))
            return
        if op in ("add", "sub", "u32wrapping_add", "u32wrapping_sub", "u32overflowing_add", "u32overflowing_sub") and (imm or True):
            if imm:
                b = ("c", int(imm[0]))
            else:
                b = stack.pop(0)
            a = stack.pop(0)
            sign = -1 if "sub" in op else 1
            r = U
            if a[0] == "loc" and b[0] == "c":
                r = ("loc", a[1], a[2] + sign * b[1])
            elif b[0] == "loc" and a[0] == "c" and sign == 1:
                r = ("loc", b[1], b[2] + a[1])
            elif a[0] == "c" and b[0] == "c":
                r = ("c", a[1] + sign * b[1])
            stack.insert(0, r)
            if op.startswith("u32overflowing"):
                stack.insert(0, U)
            return
        # ---- memory
        if op in ("loc_store", "loc_storew"):
            self.writes += 1
            written.add((frame, int(imm[0])))
            if op == "loc_store":
                stack.pop(0)
            return
        if op in ("loc_load", "loc_loadw"):
            self.reads += 1
            k = (frame, int(imm[0]))
            if k not in written:
                self.events.append(("read-before-write", where, ln, "%s.%s" % (op, imm[0])))
            if op == "loc_load":
                stack.insert(0, U)
            else:
                stack[:4] = [U, U, U, U]
            return
        if op in ("mem_store", "mem_storew", "mem_load", "mem_loadw"):
            a = ("c", int(imm[0])) if imm else stack.pop(0)
            if a[0] == "loc":
                if op.startswith("mem_store"):
                    self.writes += 1
                    written.add((a[1], a[2]))
                else:
                    self.reads += 1
                    if (a[1], a[2]) not in written:
                        self.events.append(("read-before-write", where, ln, "%s at locaddr.%d" % (op, a[2])))
            elif a[0] == "u":
                self.unknown_addr += 1
            if op == "mem_store":
                stack.pop(0)
            elif op == "mem_load":
                stack.insert(0, U)
            elif op == "mem_loadw":
                stack[:4] = [U, U, U, U]
            return
        # ---- everything else: arity from the instruction reference
        key = op + (".imm" if imm else "")
        ar = self.arity.get(key) or (self.arity.get(op) if not imm else None)
        if ar is None:
            raise Undecided("%s:%d: no stack effect known for %s" % (self.m.path, ln, ins))
        pops, pushes = ar
        del stack[:pops]
        for _ in range(pushes):
            stack.insert(0, U)


def arity_table():
    """instruction -> (pops, pushes) from the instruction reference rows (words count 4); `.imm` forms take one operand fewer"""
    out = {}
    for r in userdocs.rows():
        if not r.inp or not r.out or r.inp[0] is None or r.out[0] is None:
            continue
        cnt = lambda toks: sum(4 if re.match(r"^[A-Z]'?$", t) else 1 for t in toks if t != "...")
        pops, pushes = cnt(r.inp[0]), cnt(r.out[0])
        for f in r.forms:
            f = f.replace("`", "").strip()
            m = re.match(r"^([a-z0-9_]+)(\.\*?\w+\*?)?$", f)
            if not m:
                continue
            name = m.group(1)
            if m.group(2):
                # immediate form: the documented top operand is supplied by the instruction; io ops with address immediates handled by the interpreter
                out[name + ".imm"] = (max(pops - 1, 0), pushes)
            else:
                out[name] = (pops, pushes)
    return out


def r1_locals(ctx, F):
    ar = arity_table()
    ctx.floor("instructions-with-documented-stack-effect", len(ar), 80)
    files = sorted(glob.glob(os.path.join(DIR, "*.masm")))
    ctx.floor("hash-modules", len(files), 4)
    total_reads = 0
    for path in files:
        M = Module(path)
        rel = path.replace("/repo/", "")
        for name in M.order:
            p = M.procs[name]
            if not p.exported:
                continue
            key = "%s::%s" % (os.path.basename(path)[:-5], name)
            fl = Flow(M, ar)
            try:
                fl.run(p, [U] * 48, fl.new_frame(), set())
            except (Undecided, MasmError) as e:
                ctx.inst(key=key, nontrivial=True)
                ctx.violation("UNANALYSABLE|%s" % key, "%s:%d" % (rel, p.line), str(e)[:300])
                continue
            ctx.inst(key=key, nontrivial=fl.reads > 0)
            total_reads += fl.reads
            ev = sorted(set((e[1], e[3]) for e in fl.events))
            ctx.oblig(not ev)
            ctx.sample({"procedure": key, "local_reads": fl.reads, "local_writes": fl.writes, "activations": fl.frames, "accesses_through_unknown_addresses": fl.unknown_addr})
            for where, what in ev:
                ctx.violation("local-read-before-write|%s|%s|%s" % (key, where.split(" ")[0], what), "%s:%d" % (rel, p.line),
                              "%s: %s in %s reads a procedure local that no instruction of this activation has written: the result depends on what an earlier call left in memory" % (key, what, where))
    ctx.floor("local-reads-analysed", total_reads, 100)


# ---- R2: the fixed-length hash procedures equal the reference functions ---------------------------------------------------
HASH_PROCS = [
    # (module, procedure, number of input words, reference, what)
    ("sha256", "hash_2to1", 16, lambda c, w: hashref.sha256(c, w), "SHA-256 of the 64-byte message m0..m15 (big-endian words)"),
    ("sha256", "hash_1to1", 8, lambda c, w: hashref.sha256(c, w), "SHA-256 of the 32-byte message m0..m7 (big-endian words)"),
    ("blake3", "hash_2to1", 16, lambda c, w: hashref.blake3(c, w), "BLAKE3 of the 64-byte message (little-endian words)"),
    ("blake3", "hash_1to1", 8, lambda c, w: hashref.blake3(c, w), "BLAKE3 of the 32-byte message (little-endian words)"),
    ("keccak256", "hash", 16, lambda c, w: hashref.keccak256_64(c, w), "Keccak-256 of 64 bytes (eight little-endian lanes as [high, low] words)"),
]


def r2_reference(ctx, F):
    import sys
    sys.setrecursionlimit(20000)
    n_ok = 0
    for mod, proc, nin, ref, what in HASH_PROCS:
        path = os.path.join(DIR, mod + ".masm")
        key = "%s::%s" % (mod, proc)
        ctx.inst(key=key, nontrivial=True)
        rel = path.replace("/repo/", "")
        try:
            M = Module(path)
        except (MasmError, OSError) as e:
            ctx.violation("UNANALYSABLE|%s" % key, rel, str(e)[:200])
            continue
        if proc not in M.procs or not M.procs[proc].exported:
            ctx.violation("hash-procedure-missing|%s" % key, rel, "exported procedure %s not found" % proc)
            continue
        loc = "%s:%d" % (rel, M.procs[proc].line)
        c = bvexec.Ctx()
        inputs = [c.input_word("m%d" % i) for i in range(nin)]
        X = bvexec.Exec(M, c, rules_c05.family_expected)
        stack = list(inputs) + [("below", i) for i in range(24)]
        try:
            X.run(proc, stack)
        except (Undecided, MasmError) as e:
            ctx.violation("UNANALYSABLE|%s" % key, loc, str(e)[:300])
            continue
        got = stack[:8]
        want = ref(c, inputs)
        bad = [i for i in range(8) if not (isinstance(got[i], bvexec.BV) and got[i] == want[i])]
        rest_ok = stack[8:16] == [("below", i) for i in range(8)]
        ok = not bad and rest_ok
        ctx.oblig(ok)
        ctx.sample({"procedure": key, "instructions_interpreted": X.steps, "uninterpreted_sums": c.stats["sums"], "cut_points": c.stats["cuts"], "atoms": c.n, "verdict": "equal to the reference for all inputs" if ok else "differs"})
        if ok:
            n_ok += 1
            continue
        if bad and all(isinstance(got[i], bvexec.BV) for i in bad):
            # the canonical forms differ: confirm with a witness input (evaluating the two extracted formulas), otherwise the
            # difference may be one of representation only (cut points) and nothing is claimed
            import random
            rnd = random.Random(20240917)
            witness = None
            for trial in range(6):
                vals = [rnd.getrandbits(32) if trial else (0x01020304 * (j + 1)) & 0xffffffff for j in range(nin)]
                env = {}
                for j, w_ in enumerate(inputs):
                    for b in range(32):
                        (m_,) = w_.bits[b]
                        (a_,) = m_
                        env[a_] = (vals[j] >> b) & 1
                memo = {}
                try:
                    gv = [c.evaluate(got[i], env, memo) for i in range(8)]
                    wv = [c.evaluate(want[i], env, memo) for i in range(8)]
                except (ValueError, KeyError, RecursionError):
                    break
                if gv != wv:
                    witness = (vals, gv, wv)
                    break
            if witness is None:
                ctx.violation("UNANALYSABLE|%s" % key, loc, "%s: the canonical form of the implementation differs from the reference's in %d digest words, but the two formulas agree on all sampled inputs: the difference may be one of representation (materialisation points) only; not decided" % (key, len(bad)))
                continue
            vals, gv, wv = witness
            ctx.violation("hash-differs|%s" % key, loc, "%s does not compute %s: for the input words %s the implementation's formula yields %s, the reference %s" % (key, what, ["0x%08x" % v for v in vals][:16], ["0x%08x" % v for v in gv], ["0x%08x" % v for v in wv]))
            continue
        if bad:
            i = bad[0]
            detail = ""
            if isinstance(got[i], bvexec.BV):
                db = [b for b in range(32) if got[i].bits[b] != want[i].bits[b]]
                detail = "; digest word %d differs in %d bit position(s), first at bit %d (implementation: %d monomials, reference: %d)" % (i, len(db), db[0], len(got[i].bits[db[0]]), len(want[i].bits[db[0]]))
            ctx.violation("hash-differs|%s" % key, loc, "%s does not compute %s: %d of the 8 digest words differ from the reference definition as symbolic functions of the input%s" % (key, what, len(bad), detail))
        elif not rest_ok:
            ctx.violation("hash-stack-effect|%s" % key, loc, "%s does not leave the stack below the digest untouched" % key)
    ctx.floor("hash-procedures-equal-to-reference", n_ok, 5)


# ---- R3: sha256::hash_memory - padding arithmetic for every length residue, and the loop body is one compression ----------
class Aff:
    """integer value  sum(coef[s] * s) + const  over the symbols q (len = 64*q + r) and addr; `mod32`: known modulo 2^32 only"""
    __slots__ = ("co", "k", "mod32")

    def __init__(self, co=None, k=0, mod32=False):
        self.co = {s_: c_ for s_, c_ in (co or {}).items() if c_}
        self.k, self.mod32 = k, mod32

    def add(self, o, sign=1):
        co = dict(self.co)
        for s_, c_ in o.co.items():
            co[s_] = co.get(s_, 0) + sign * c_
        return Aff(co, self.k + sign * o.k, self.mod32 or o.mod32)

    def const(self):
        return self.k if not self.co and not self.mod32 else None

    def key(self):
        return (tuple(sorted(self.co.items())), self.k)

    def __eq__(self, o):
        return isinstance(o, Aff) and self.key() == o.key()

    def __hash__(self):
        return hash(self.key())

    def __repr__(self):
        t = ["%d*%s" % (c_, s_) for s_, c_ in sorted(self.co.items())] + ([str(self.k)] if self.k or not self.co else [])
        return " + ".join(t) + (" (mod 2^32)" if self.mod32 else "")


class AffExec:
    """straight-line interpretation of the arithmetic prefix of hash_memory on affine values; memory words at affine addresses"""
    def __init__(self, path):
        self.path = path
        self.loc = {}
        self.mem = {}          # Aff address -> [4 values in stack order]
        self.n = 0

    def elem(self, a, i):
        return ("mem", a.key(), i)

    def word(self, a):
        if a not in self.mem:
            self.mem[a] = [self.elem(a, i) for i in range(4)]
        return self.mem[a]

    def divisible(self, v, m, ln, ins):
        if not isinstance(v, Aff) or any(c_ % m for c_ in v.co.values()):
            raise Undecided("%s:%d: %s of %r" % (self.path, ln, ins, v))

    def step(self, ins, ln, st):
        parts = ins.split(".")
        op, imm = parts[0], parts[1:]
        A = lambda n: Aff({}, n)
        if op == "push":
            for x in imm:
                st.insert(0, A(int(x, 16) if x.startswith("0x") else int(x)))
        elif op == "loc_store":
            self.loc[int(imm[0])] = st.pop(0)
        elif op == "loc_load":
            st.insert(0, self.loc[int(imm[0])])
        elif op == "locaddr":
            st.insert(0, ("locaddr", int(imm[0])))
        elif op in ("u32assert", "u32assert2"):
            pass
        elif op in ("u32wrapping_sub", "u32wrapping_add", "u32overflowing_add", "u32overflowing_sub"):
            b = A(int(imm[0])) if imm else st.pop(0)
            a = st.pop(0)
            sign = -1 if "sub" in op else 1
            if isinstance(a, tuple) and a[0] == "locaddr" and isinstance(b, Aff) and b.const() is not None:
                st.insert(0, ("locaddr", a[1] + sign * b.const()))
                return
            if isinstance(a, tuple) and a[0] == "mem" and isinstance(b, Aff):
                st.insert(0, ("sum", a, b))
                return
            if not (isinstance(a, Aff) and isinstance(b, Aff)):
                raise Undecided("%s:%d: %s of %r and %r" % (self.path, ln, ins, a, b))
            r = a.add(b, sign)
            if op.startswith("u32wrapping"):
                r = Aff(r.co, r.k, True) if (sign < 0 or True) and (r.co or r.k < 0 or r.k >= 2 ** 32) and sign < 0 and not imm else r
            st.insert(0, r)
            if op.startswith("u32overflowing"):
                st.insert(0, ("carry", ln))
        elif op in ("assertz", "assert"):
            v = st.pop(0)
            if not (isinstance(v, tuple) and v[0] == "carry"):
                raise Undecided("%s:%d: %s on %r" % (self.path, ln, op, v))
        elif op == "u32overflowing_mul":
            a = st.pop(0)
            m = int(imm[0])
            st.insert(0, Aff({s_: c_ * m for s_, c_ in a.co.items()}, a.k * m, a.mod32))
            st.insert(0, ("carry", ln))
        elif op == "u32and":
            b, a = st.pop(0), st.pop(0)
            m = b.const() if isinstance(b, Aff) else None
            if m is None or (m + 1) & m:
                raise Undecided("%s:%d: u32and with %r" % (self.path, ln, b))
            self.divisible(a, m + 1, ln, ins)
            st.insert(0, A(a.k % (m + 1)))
        elif op in ("u32div", "u32mod"):
            a = st.pop(0)
            m = int(imm[0])
            if isinstance(a, Aff) and a.mod32:
                raise Undecided("%s:%d: %s of a wrapped value" % (self.path, ln, ins))
            self.divisible(a, m, ln, ins)
            if a.k < 0:
                raise Undecided("%s:%d: %s of a possibly negative value" % (self.path, ln, ins))
            st.insert(0, Aff({s_: c_ // m for s_, c_ in a.co.items()}, a.k // m) if op == "u32div" else A(a.k % m))
        elif op == "u32shr":
            n_, a = st.pop(0), st.pop(0)
            if not (isinstance(n_, Aff) and n_.const() is not None and isinstance(a, Aff) and a.const() is not None):
                raise Undecided("%s:%d: u32shr of %r by %r" % (self.path, ln, a, n_))
            st.insert(0, A(a.const() >> n_.const()))
        elif op == "swap":
            st[0], st[1] = st[1], st[0]
        elif op == "dup":
            st.insert(0, st[int(imm[0]) if imm else 0])
        elif op == "drop":
            st.pop(0)
        elif op == "dropw":
            del st[:4]
        elif op == "padw":
            st[:0] = [A(0)] * 4
        elif op == "movup":
            st.insert(0, st.pop(int(imm[0])))
        elif op == "movdn":
            st.insert(int(imm[0]), st.pop(0))
        elif op == "mem_loadw":
            a = st.pop(0)
            if not isinstance(a, Aff):
                raise Undecided("%s:%d: mem_loadw at %r" % (self.path, ln, a))
            st[:4] = list(self.word(Aff(a.co, a.k)))
        elif op == "mem_storew":
            a = st.pop(0)
            if not isinstance(a, Aff):
                raise Undecided("%s:%d: mem_storew at %r" % (self.path, ln, a))
            self.mem[Aff(a.co, a.k)] = list(st[:4])
        elif op == "mem_load":
            a = st.pop(0)
            if not (isinstance(a, tuple) and a[0] == "locaddr"):
                raise Undecided("%s:%d: mem_load at %r" % (self.path, ln, a))
            st.insert(0, self.loc[a[1]])
        elif op == "mem_store":
            a = st.pop(0)
            v = st.pop(0)
            if not (isinstance(a, tuple) and a[0] == "locaddr"):
                raise Undecided("%s:%d: mem_store at %r" % (self.path, ln, a))
            self.loc[a[1]] = v
        else:
            raise Undecided("%s:%d: instruction %s is outside the affine model" % (self.path, ln, ins))


def r3_hash_memory(ctx, F):
    path = os.path.join(DIR, "sha256.masm")
    rel = path.replace("/repo/", "")
    try:
        M = Module(path)
    except (MasmError, OSError) as e:
        ctx.violation("UNANALYSABLE|sha256::hash_memory", rel, str(e)[:200])
        return
    if "hash_memory" not in M.procs:
        ctx.violation("hash-procedure-missing|sha256::hash_memory", rel, "sha256::hash_memory not found")
        return
    p = M.procs["hash_memory"]
    loc = "%s:%d" % (rel, p.line)
    wi = [i for i, n in enumerate(p.body) if n[0] == "while"]
    if len(wi) != 1:
        ctx.violation("UNANALYSABLE|sha256::hash_memory", loc, "expected exactly one loop")
        return
    # the arithmetic prefix ends where the initial hash state is pushed (the eight constants of FIPS 180-4)
    from .masm import expand
    pre, loop = expand(M, p.body[:wi[0]]), p.body[wi[0]]      # local helpers without locals / repeats written out (exact by definition)
    h0 = {"0x%08x" % x for x in hashref.SHA_H0}
    cut = next((i for i, n in enumerate(pre) if n[0] == "ins" and n[1].startswith("push.") and set(n[1].split(".")[1:]) & h0), None)
    if cut is None:
        ctx.violation("UNANALYSABLE|sha256::hash_memory", loc, "initial hash state not found before the loop")
        return
    init = [x for n in pre[cut:] if n[0] == "ins" and n[1].startswith("push.0x") for x in n[1].split(".")[1:]]
    ctx.inst(key="hash_memory|initial-state", nontrivial=True)
    oki = [int(x, 16) for x in init][::-1] == hashref.SHA_H0
    ctx.oblig(oki)
    if not oki:
        ctx.violation("hash-memory-initial-state", loc, "the state pushed before the loop is %s (top first: %s); FIPS 180-4 H(0) = %s" % (init, init[::-1], ["0x%08x" % x for x in hashref.SHA_H0]))
    bad_seen = set()
    for r in range(64):
        ctx.inst(key="hash_memory|len=64q+%d" % r, nontrivial=True)
        X = AffExec(path)
        st = [Aff({"addr": 1}, 0), Aff({"q": 64}, r)] + [("below", i) for i in range(16)]
        try:
            for n in pre[:cut]:
                if n[0] != "ins":
                    raise Undecided("control flow in the prefix")
                X.step(n[1], n[2], st)
        except (Undecided, KeyError, IndexError, AttributeError) as e:
            ctx.violation("UNANALYSABLE|sha256::hash_memory|prefix", loc, "len = 64q + %d: %s" % (r, str(e)[:250]))
            return
        blocks = (r + 9 + 63) // 64
        padded = Aff({"q": 64}, 64 * blocks)
        want = {"padded length (local 2)": (X.loc.get(2), padded),
                "number of blocks (local 7)": (X.loc.get(7), Aff({"q": 1}, blocks)),
                "address of the last padding word (local 3)": (X.loc.get(3), Aff({"addr": 1, "q": 4}, 4 * blocks - 1)),
                "padding byte aligned in its word (local 4)": (X.loc.get(4), Aff({}, 0x80000000 >> (8 * (r % 4)))),
                "word offset of the first padding byte (local 5)": (X.loc.get(5), Aff({}, (r // 4) % 4)),
                "address of the first padding byte (local 6)": (X.loc.get(6), Aff({"addr": 1, "q": 4}, r // 16))}
        for what, (got, exp) in want.items():
            ok = isinstance(got, Aff) and got.key() == exp.key()
            ctx.oblig(ok)
            if not ok and what not in bad_seen:
                bad_seen.add(what)
                ctx.violation("hash-memory-padding|%s" % what.split(" (")[0].replace(" ", "-"), loc,
                              "sha256::hash_memory for a message of len = 64*q + %d bytes: %s is %r; SHA-256 padding (0x80, zeros, 64-bit length; total a multiple of 64 bytes) requires %r" % (r, what, got, exp))
        # memory effect: 0x80 byte added at message word len/4, bit length in the last word; everything else untouched
        a6, a3 = Aff({"addr": 1, "q": 4}, r // 16), Aff({"addr": 1, "q": 4}, 4 * blocks - 1)
        exp_mem = {}
        w6 = [X.elem(a6, i) for i in range(4)]
        w6[(r // 4) % 4] = ("sum", w6[(r // 4) % 4], Aff({}, 0x80000000 >> (8 * (r % 4))))
        exp_mem[a6] = w6
        w3 = list(exp_mem.get(a3, [X.elem(a3, i) for i in range(4)]))
        w3[3] = Aff({"q": 512}, 8 * r)
        exp_mem[a3] = w3
        okm = {k_: v_ for k_, v_ in X.mem.items()} == exp_mem
        ctx.oblig(okm)
        if not okm and "mem" not in bad_seen:
            bad_seen.add("mem")
            ctx.violation("hash-memory-padding|memory", loc, "sha256::hash_memory for len = 64*q + %d writes %s; expected the padding byte added to message word len/4 and the bit length in the last word of the padded message: %s" % (r, {repr(k_): v_ for k_, v_ in X.mem.items()}, {repr(k_): v_ for k_, v_ in exp_mem.items()}))
    # the loop body: one compression of the 16 words at the current address (message word i = item i%4, in stack order, of the
    # memory word at address + i/4), address advanced by 4, block counter decremented
    ctx.inst(key="hash_memory|loop-body", nontrivial=True)
    c = bvexec.Ctx()
    state = [c.input_word("h%d" % i) for i in range(8)]
    block = [c.input_word("w%d" % i) for i in range(16)]

    class LoopExec(bvexec.Exec):
        def step(self_, ins, ln, stack, frame, pname, depth):
            op = ins.split(".")[0]
            if pname == "hash_memory":
                # addresses and the counter are opaque here; only the data flow into the compression is followed
                if ins.startswith("loc_load.") or ins.startswith("loc_store."):
                    k = int(ins.split(".")[1])
                    if ins.startswith("loc_load."):
                        stack.insert(0, ("local", k, self_.locs.get(k, 0)))
                    else:
                        v = stack.pop(0)
                        self_.locs[k] = v
                        self_.loc_writes.append((k, v))
                    return
                if op in ("u32assert", "assertz", "u32assert2"):
                    if op == "assertz":
                        stack.pop(0)
                    return
                if op in ("u32overflowing_add", "u32overflowing_sub") and isinstance(stack[0], tuple) and stack[0][0] in ("local", "offs"):
                    v = stack.pop(0)
                    d = int(ins.split(".")[1]) * (1 if "add" in op else -1)
                    base = v if v[0] == "local" else v[1]
                    off = d + (v[2] if v[0] == "offs" else 0)
                    stack.insert(0, ("offs", base, off))
                    stack.insert(0, ("carry", ln))
                    return
                if op == "mem_loadw" and isinstance(stack[0], tuple) and stack[0][0] == "offs":
                    a = stack.pop(0)
                    if a[1][:2] != ("local", 0) or not 0 <= a[2] <= 3:
                        raise Undecided("%s:%d: block word loaded from %r" % (self_.m.path, ln, a))
                    self_.loads.append(a[2])
                    stack[:4] = block[4 * a[2]:4 * a[2] + 4]
                    return
                if op == "dup" and isinstance(stack[0], tuple):
                    stack.insert(0, stack[0])
                    return
                if op == "neq":
                    stack.pop(0)
                    stack.insert(0, ("flag",))
                    return
            return bvexec.Exec.step(self_, ins, ln, stack, frame, pname, depth)
    X = LoopExec(M, c, rules_c05.family_expected)
    X.locs, X.loc_writes, X.loads = {}, [], []
    stack = list(state) + [("below", i) for i in range(24)]
    try:
        X.block(loop[1], stack, X.new_frame(), "hash_memory", 0)
    except (Undecided, MasmError, IndexError, AttributeError, TypeError) as e:
        ctx.violation("UNANALYSABLE|sha256::hash_memory|loop", loc, str(e)[:300])
        return
    want = hashref.sha256_compress(c, state, block)
    okb = stack[0] == ("flag",) and all(isinstance(stack[1 + i], bvexec.BV) and stack[1 + i] == want[i] for i in range(8)) and stack[9:13] == [("below", i) for i in range(4)]
    ctx.oblig(okb)
    if not okb:
        ctx.violation("hash-memory-loop|compression", loc, "one iteration of the loop of sha256::hash_memory does not replace the state by the SHA-256 compression of the 16 words at the current address")
    adv = [v for k, v in X.loc_writes if k == 0]
    cnt = [v for k, v in X.loc_writes if k == 7]
    oka = adv == [("offs", ("local", 0, 0), 4)] and cnt == [("offs", ("local", 7, 0), -1)] and sorted(X.loads) == [0, 1, 2, 3]
    ctx.oblig(oka)
    if not oka:
        ctx.violation("hash-memory-loop|counters", loc, "one iteration must read the four memory words at address+0..3, advance the address (local 0) by 4 and decrement the block counter (local 7) by 1: address %s, counter %s, words read %s" % (adv, cnt, X.loads))


def run(ctx, F):
    ctx.trusted += ["vlib/masm.py parser; stack effects from docs/src/user_docs/assembly (validated against the assembler and handlers by C05) and C05's data-movement table"]
    ctx.assumptions += ["equality of the digests with the reference hash functions is NOT decided (numerical); decided is the history independence of procedure-local memory, a necessary condition of it",
                        "accesses through addresses the analysis cannot resolve are counted in the evidence and not judged"]
    ctx.run_rule("C17-R2", "sha256::hash_2to1/hash_1to1, blake3::hash_2to1/hash_1to1, keccak256::hash: bit-level symbolic execution (ANF over GF(2), additions as hash-consed nodes) yields exactly the canonical form of the reference definition (FIPS 180-4, BLAKE3 spec, Keccak) on symbolic inputs", r2_reference, F)
    ctx.run_rule("C17-R3", "sha256::hash_memory: for every length residue len = 64q + r the padded length, block count, padding addresses and padding writes are those of SHA-256 padding (affine interpretation of the arithmetic prefix), the initial state is H(0), and one loop iteration is one compression of the 16 words at the current address with the address advanced by 4 and the counter decremented", r3_hash_memory, F)
    ctx.run_rule("C17-R1", "no hash procedure reads a procedure local (directly or through locaddr-derived addresses, across exec) before writing it in the same activation", r1_locals, F)
    from . import rules_c18
    ctx.run_rule("C17-R4", "native::hash_memory_even absorbs two words per iteration until the pointers meet; native::hash_memory rejects empty ranges, hashes the even prefix from the state [0 x 11, is_odd] and absorbs the odd last word mem[end - 1] with the padding [1,0,0,0]; digest = word B (= C18-R5's native part)", rules_c18.r5_native, F)

"""C10 — serialised code and data round-trip: for every Serializable/Deserializable pair the writer is interpreted on a
symbolic instance (recording ByteWriter) and the reader on the replayed token stream; the rebuilt value must be the
original (all immediates symbolic, so this covers every immediate value), with no token left over."""
import re
from .mirutil import *
from .mirsym import Agg, Poly, Term, Unanalysable, PanicReached
from . import serdemodel as S
from .facts import strip_targs

LEVEL = "other"
# pairs whose reader needs string/path arithmetic the model does not interpret (reason per entry)
UNCOVERED = {
    "MaslLibrary": "module paths are rewritten with strip_first / prepend on symbolic strings while (de)serialising",
}


def pairs(F):
    out = []
    for k in sorted(F.fns):
        m = re.match(r"^(.*)::(\w+)@Serializable::write_into$", strip_targs(k))
        if m:
            r = [x for x in F.fns if re.search(r"::%s@Deserializable::read_from$" % m.group(2), strip_targs(x))]
            adts = [a for i, a in F.adts.items() if i.endswith("::" + m.group(2))]
            out.append((m.group(2), k, r[0] if r else None, adts[0] if adts else None))
    return out


def nested_enums(F, v):
    """workspace enums (two or more variants) without a codec of their own that are direct payload fields of variant v"""
    own = {p_[0] for p_ in pairs(F)}       # enums with a Serializable impl are checked variant by variant through their own pair
    out = []
    for f in v["fields"]:
        base = f["ty"].strip().lstrip("&").split("<")[0]
        for i, a in F.adts.items():
            if (i == base or i.endswith("::" + base.split("::")[-1])) and len(a["variants"]) > 1 and a not in out and i.rsplit("::", 1)[-1] not in own:
                out.append(a)
    return out


def check_pair(ctx, F, name, w, r, adt, modes, extra=lambda: ((), ()), variants=None, prop="C10", mode_extra=None):
    nvar = 0
    for mode in modes:
        for v in adt["variants"]:
            if variants is not None and v["name"] not in variants:
                continue
            # the variant itself, then once per further variant of every enum nested directly in its payload
            nestings = [None] + [(e["id"], nv["name"]) for e in nested_enums(F, v) if e is not adt for nv in e["variants"][1:]]
            for nest in nestings:
                S.MODE.clear()
                S.MODE.update(mode)
                S.MODE.update(mode_extra or {})
                if nest:
                    S.MODE["nested"] = {nest[0]: nest[1]}
                vlabel = v["name"] if not nest else "%s<%s::%s>" % (v["name"], nest[0].rsplit("::", 1)[-1], nest[1])
                nvar += check_one(ctx, F, name, w, r, adt, v, vlabel, mode, extra)
    S.MODE.pop("nested", None)
    return nvar


def check_one(ctx, F, name, w, r, adt, v, vlabel, mode, extra):
    key = "%s::%s|%s" % (name, vlabel, "bools=%s,options=%s" % (mode["bool"], mode["option"]))
    has_payload = bool(v["fields"])
    try:
        val = S.gen_adt(F, adt, variant=v["name"])
        ew, er = extra()
        stream, res = S.roundtrip(F, w, r, val, extra_w=ew, extra_r=er)
    except (Unanalysable, PanicReached) as e:
        ctx.inst(key=key, nontrivial=has_payload)
        ctx.violation("UNANALYSABLE|%s::%s" % (name, vlabel), F.fns[w].loc(), "cannot analyse the writer of %s::%s: %s" % (name, vlabel, str(e)[:300]))
        return 0
    ctx.inst(key=key, nontrivial=has_payload)
    oks = [x for x in res if x[0] == "ret" and isinstance(x[1], Agg) and x[1].variant == "Ok"]
    mism = [x for x in res if x[0] == "mismatch"]
    una = [x for x in res if x[0] == "unanalysable"]
    good = [x for x in oks if S.same(x[1].items[0], val) and not x[3]]
    toks = [(k, str(x)[:24]) for k, x in stream if k not in ("many_begin", "many_end")]
    if len(ctx.samples) < 10 and has_payload:
        ctx.sample({"type": "%s::%s" % (name, vlabel), "written_tokens": toks[:8], "reader_paths": len(res), "round_trips": bool(good)})
    if una and not oks:
        ctx.violation("UNANALYSABLE|%s::%s" % (name, vlabel), F.fns[r].loc(), "cannot analyse the reader of %s::%s: %s" % (name, vlabel, una[0][1][:300]))
        return 1
    ok = bool(good) and len(good) == len(oks) and not mism
    ctx.oblig(ok)
    if ok:
        return 1
    if mism:
        what = mism[0][1]
    elif not oks:
        what = "the reader rejects what the writer wrote: %s" % ([str(x[1])[:120] for x in res][:2])
    else:
        bad = [x for x in oks if x not in good][0]
        what = ("reader leaves %d written tokens unread" % len(bad[3])) if bad[3] else "the reader rebuilds %s" % str(bad[1].items[0])[:200]
    ctx.violation("roundtrip|%s::%s" % (name, vlabel), F.fns[w].loc(),
                  "%s::%s does not round-trip: writer tokens %s; %s" % (name, vlabel, toks[:8], what))
    return 1


MODES = ({"bool": False, "option": "Some"}, {"bool": True, "option": "None"})


def r1_trait_pairs(ctx, F):
    total = 0
    ps = pairs(F)
    ctx.floor("serde-pairs", len(ps), 20)
    for name, w, r, adt in ps:
        if r is None or adt is None:
            ctx.violation("pair-incomplete|%s" % name, F.fns[w].loc(), "%s has a Serializable impl but no Deserializable impl / type definition in the workspace" % name)
            continue
        if name in UNCOVERED:
            ctx.analysed("%s: not covered (%s)" % (name, UNCOVERED[name]))
            continue
        total += check_pair(ctx, F, name, w, r, adt, MODES if name not in ("Instruction", "OpCode", "AdviceInjectorNode") else MODES[:1])
    ctx.floor("variant-pairs", total, 500)


def r1b_opcode_table(ctx, F):
    adt = F.adt(r"^miden_assembly::ast::nodes::serde::OpCode$")
    ins = F.adt(r"^miden_assembly::ast::nodes::Instruction$")
    ds = [v["discr"] for v in adt["variants"]]
    ctx.inst(key="opcode-discriminants", nontrivial=True)
    ok = len(set(ds)) == len(ds) and all(0 <= int(d) < 256 for d in ds)
    ctx.oblig(ok)
    if not ok:
        ctx.violation("opcode-discriminants", "assembly/src/ast/nodes/serde/mod.rs", "OpCode discriminants are not unique bytes")
    names = {v["name"] for v in adt["variants"]}
    missing = [v["name"] for v in ins["variants"] if v["name"] not in names and v["name"].replace("Dw", "DW") not in names]
    ctx.inst(key="opcode-coverage", nontrivial=True)
    ctx.sample({"instruction_variants": len(ins["variants"]), "opcodes": len(ds), "instructions_without_opcode": missing})
    for m in missing:
        ctx.violation("instruction-without-opcode|%s" % m, "assembly/src/ast/nodes/serde/mod.rs", "Instruction::%s has no OpCode: it cannot be encoded" % m)


def r1c_inherent_pairs(ctx, F):
    """ProgramAst / ModuleAst (with both serde options) and the source-location pairs"""
    from .mirsym import Agg
    total = 0
    for tname, path in (("ProgramAst", "ast::program"), ("ModuleAst", "ast::module")):
        w = F.fn(r"^miden_assembly::%s::%s::write_into$" % (path, tname))
        r = F.fn(r"^miden_assembly::%s::%s::read_from$" % (path, tname))
        adt = F.adt(r"^miden_assembly::%s::%s$" % (path, tname))
        opt = F.adt(r"^miden_assembly::ast::serde::AstSerdeOptions$")
        for flag in (True, False):
            def extra(flag=flag, tname=tname):
                o = lambda: Agg([flag], "adt", opt["id"], opt["variants"][0]["name"])
                return ([o()], [o()] if tname == "ModuleAst" else [])
            total += check_pair(ctx, F, "%s[imports=%s]" % (tname, flag), w.id, r.id, adt, MODES, extra=extra, mode_extra={"serialize_imports": flag})
    ctx.floor("container-instances", total, 4)


# ---- R2: MaslLibrary - writer and reader follow the same schema (skeleton comparison) ------------------------------------
def r2_masl_schema(ctx, F):
    """MaslLibrary::write_into and ::read_from are interpreted as skeletons (sub-codec calls and byte primitives recorded,
    everything else unknown, collections represented by one element): on corresponding paths the reader consumes exactly the
    fields the writer produces, in the same order, with the same primitive widths; the module path is stripped of / prefixed
    with the namespace at the corresponding position"""
    from . import execmodel
    ids = {k: F.fns[k] for k in F.fns if "MaslLibrary@" in k and "closure" not in k and (k.endswith("::write_into") or k.endswith("::read_from"))}
    w = [f for k, f in ids.items() if k.endswith("write_into")]
    r = [f for k, f in ids.items() if k.endswith("read_from")]
    ctx.inst(key="MaslLibrary", nontrivial=True)
    if len(w) != 1 or len(r) != 1:
        ctx.violation("masl-codec-missing", "assembly/src/library/masl.rs", "MaslLibrary Serializable / Deserializable impls not found (%d / %d)" % (len(w), len(r)))
        return
    rec = r"::write_into$|::read_from$|ByteWriter::write_\w+$|ByteReader::read_\w+$|strip_first$|prepend$|write_source_locations$|load_source_locations$"
    inl = r"MaslLibrary@\w+::(write_into|read_from)(::\{closure#\d+\})?$"
    norm = {"strip_first": "path-namespace", "prepend": "path-namespace", "write_source_locations": "source-locations", "load_source_locations": "source-locations"}

    def schema(fn):
        out = []
        for p in execmodel.skeleton_paths(F, fn, inl, rec, lambda: execmodel.havoc_args(fn, F), max_paths=64):
            if p["outcome"][0] == "unanalysable":
                raise Unanalysable(p["outcome"][1])
            if p["outcome"] != ("ok",):
                continue
            toks = []
            for e in p["events"]:
                if len(e) < 3:
                    continue
                name, owner = e[0], e[2]
                if name in norm:
                    toks.append(norm[name])
                elif name in ("write_into", "read_from"):
                    toks.append("codec:" + owner)
                else:
                    toks.append("prim:" + re.sub(r"^(write|read)_", "", name))
            out.append(toks)
        return out
    try:
        ws, rs = schema(w[0]), schema(r[0])
    except (Unanalysable, PanicReached) as e:
        ctx.violation("UNANALYSABLE|MaslLibrary-schema", w[0].loc(), str(e)[:300])
        return
    # the path-namespace step happens before the path is written and after it is read: compare modulo that adjacent swap
    def canon(toks):
        t = list(toks)
        for i in range(len(t) - 1):
            if t[i] == "path-namespace" and t[i + 1] == "codec:LibraryPath":
                t[i], t[i + 1] = t[i + 1], t[i]
        return tuple(t)
    wset, rset = sorted(set(canon(t) for t in ws)), sorted(set(canon(t) for t in rs))
    ok = bool(wset) and wset == rset
    ctx.oblig(ok)
    ctx.sample({"writer_schemas": [list(t) for t in wset], "reader_schemas": [list(t) for t in rset]})
    if not ok:
        only_w = [t for t in wset if t not in rset]
        only_r = [t for t in rset if t not in wset]
        ctx.violation("masl-schema-mismatch", w[0].loc(), "MaslLibrary: the writer produces %s but the reader consumes %s: a library written to bytes is not read back field by field"
                      % ([list(t) for t in only_w][:2], [list(t) for t in only_r][:2]))


def run(ctx, F):
    ctx.trusted += ["rustc MIR via mirfacts", "mirsym; serde model (vlib/serdemodel.py): recording writer / replaying reader, abstract string validators",
                    "winter-utils ByteReader/ByteWriter semantics (modelled per method)"]
    ctx.assumptions += ["collections are analysed for a representative length (2 elements), strings for length 3 with symbolic bytes",
                        "values handed to writers are valid (label / path validators are abstract and assumed to accept them)",
                        "equality of recompiled MAST roots is not decided"]
    ctx.run_rule("C10-R2", "MaslLibrary: writer and reader follow the same schema (order of sub-codecs, primitive widths, namespace handling of module paths, optional source locations) on corresponding paths", r2_masl_schema, F)
    ctx.run_rule("C10-R1", "every trait Serializable/Deserializable pair: reader(writer(v)) == v for a symbolic v of every enum variant (non-trivial = variant with payload)", r1_trait_pairs, F)
    ctx.run_rule("C10-R1b", "OpCode discriminants are unique bytes and every Instruction variant has an opcode", r1b_opcode_table, F)
    ctx.run_rule("C10-R1c", "ProgramAst / ModuleAst inherent write_into/read_from pairs under both serde options", r1c_inherent_pairs, F)

"""C11 — assembly is deterministic, history-independent and self-contained: callset closure (must-pass-through and
sibling agreement), rejection sites of invalid constructs, no panic on the parameter-validation path, cache keys."""
import re
from .mirutil import *
from .mirsym import Term, path_feasible
from . import lowering
from .facts import strip_targs

LEVEL = "other"
CTX = r"^miden_assembly::assembler::context::"


def r1_callset_closure(ctx, F):
    # (a) lowering side: every invocation lowering registers the call, with the right `inlined` constant
    want = {"exec_local": ("register_local_call", True), "exec_imported": ("register_external_call", True),
            "call_local": ("register_local_call", False), "call_imported": ("register_external_call", False),
            "syscall": ("register_external_call", False), "procref_local": ("register_local_call", False),
            "procref_imported": ("register_external_call", False), "call_mast_root": ("register_external_call", False)}
    for name, (reg, inl) in sorted(want.items()):
        fn = F.fn(r"^miden_assembly::assembler::instruction::procedures::Assembler::%s$" % name)
        regs = fn.calls_to(r"AssemblyContext::%s$" % reg)
        ctx.inst(key=name, nontrivial=True)
        ok = len(regs) == 1
        if ok:
            bi, c, t = regs[0]
            ok = fn.const_of(t["args"][2]) is inl
            # the registration must be passed on every path that returns Ok(Some(block)) / pushes the root, except the phantom branch
            builders = blocks_calling(fn, r"CodeBlock::(new_call|new_syscall)$|SpanBuilder::add_ops$|Procedure::code$")
            phantom = blocks_calling(fn, r"AssemblyContext::register_phantom_call$")
            for b in builders:
                reach_wo = fn.reachable_blocks(0, avoid={bi} | set(phantom))
                if b in reach_wo:
                    ok = False
            users = [c2 for b2, c2, t2 in fn.calls() if c2.endswith("Try::branch") and any(a.get("l") == t["d"]["l"] for a in t2["args"])]
            ok = ok and bool(users)
        ctx.oblig(ok)
        ctx.analysed("%s -> %s(inlined=%s) sites=%d" % (name, reg, inl, len(regs)))
        if not ok:
            ctx.violation("registration|%s" % name, fn.loc(), "%s must call AssemblyContext::%s(.., inlined = %s) exactly once, propagate its error, and build the call block / push the root only after it"
                          % (name, reg, str(inl).lower()))
    # (b) the AssemblyContext wrappers forward `inlined` unchanged to the ModuleContext method
    for reg in ("register_local_call", "register_external_call"):
        fn = F.fn(CTX + r"AssemblyContext::%s$" % reg)
        inner = fn.calls_to(CTX + r"ModuleContext::%s$" % reg)
        ctx.inst(key="wrapper|" + reg, nontrivial=True)
        ok = len(inner) == 1 and resolve_copy(fn, inner[0][2]["args"][2]).get("l") == 3
        ctx.oblig(ok)
        if not ok:
            ctx.violation("wrapper-forwarding|%s" % reg, fn.loc(), "AssemblyContext::%s must forward its `inlined` parameter to ModuleContext::%s" % (reg, reg))
    # (c) siblings: both ModuleContext::register_*_call append the callee's callset on every successful path and insert the
    #     callee's root exactly when !inlined
    for reg, inl_arg in (("register_local_call", 3), ("register_external_call", 3)):
        fn = F.fn(CTX + r"ModuleContext::%s$" % reg)
        ctx.inst(key="module|" + reg, nontrivial=True)
        app = fn.calls_to(r"procedures::CallSet::append$")
        ins = fn.calls_to(r"procedures::CallSet::insert$")
        ok_app = False
        if len(app) == 1:
            bi, c, t = app[0]
            sl = fn.backward_slice(t["args"][1]["l"]) if "l" in t["args"][1] else {"calls": []}
            from_callee = any(re.search(r"(NamedProcedure|Procedure)::callset$|NamedProcedure@Deref::deref$", cc) for b2, cc, tt in sl["calls"])
            mm = count_on_paths(fn, call_weight(fn, r"procedures::CallSet::append$"), avoid=err_blocks(fn) | panic_blocks(fn))
            ok_app = from_callee and mm == (1, 1)
        ctx.oblig(ok_app)
        if not ok_app:
            ctx.violation("callset-not-propagated|%s" % reg, fn.loc(),
                          "ModuleContext::%s must append the called procedure's callset to the current procedure's callset on every successful path: "
                          "otherwise a call/procref reached only through that procedure is missing from the code block table of importing programs" % reg)
        ok_ins = False
        if len(ins) == 1:
            bi, c, t = ins[0]
            # guarded by `inlined` (argument) being false: the switch on the argument dominates the insert and its false arm leads to it
            for sb, b in enumerate(fn.blocks):
                tt = b["t"]
                if tt["k"] == "switch" and resolve_copy(fn, tt["o"]).get("l") == inl_arg and not resolve_copy(fn, tt["o"]).get("p"):
                    arms = dict((a[0], a[1]) for a in tt["arms"])
                    if 0 in arms and bi in fn.reachable_blocks(arms[0]) and bi not in fn.reachable_blocks(tt["else"], avoid={sb}):
                        ok_ins = True
            sl = fn.backward_slice(t["args"][1]["l"]) if "l" in t["args"][1] else {"calls": []}
            ok_ins = ok_ins and any(cc.endswith("mast_root") for b2, cc, tt in sl["calls"])
        ctx.oblig(ok_ins)
        if not ok_ins:
            ctx.violation("callset-root-insert|%s" % reg, fn.loc(), "ModuleContext::%s must insert the callee's MAST root into the callset exactly when the call is not inlined" % reg)
    # (d) upward propagation and final resolution
    cp = F.fn(CTX + r"ModuleContext::complete_proc$")
    ok = any(True for bi, c, t in cp.calls_to(r"CallSet::append$"))
    ctx.inst(key="complete_proc", nontrivial=True)
    ctx.oblig(ok)
    if not ok:
        ctx.violation("module-callset|complete_proc", cp.loc(), "complete_proc must append the procedure's callset to the module callset")
    ce = F.fn(CTX + r"ModuleContext::complete_executable$")
    ok = any(True for bi, c, t in ce.calls_to(r"CallSet::append$"))
    ctx.oblig(ok)
    if not ok:
        ctx.violation("module-callset|complete_executable", ce.loc(), "complete_executable must append the main procedure's callset")
    cb = F.fn(CTX + r"AssemblyContext::into_cb_table$")
    fam = [cb] + [g for g in F.fns.values() if g.id.startswith(cb.id + "::{closure")]
    builds = any(s["r"].get("variant") == "CallSetProcedureNotFound" for g in fam for b in g.blocks for s in b["s"] if s["r"]["k"] == "agg")
    ins = any(c.endswith("CodeBlockTable::insert") for bi, c, t in cb.calls())
    ctx.inst(key="into_cb_table", nontrivial=True)
    ctx.oblig(builds and ins)
    if not (builds and ins):
        ctx.violation("cb-table-resolution", cb.loc(), "into_cb_table must insert every callset entry or fail with CallSetProcedureNotFound")
    # into_procedure keeps the accumulated callset
    ip = F.fn(CTX + r"ProcedureContext::into_procedure$")
    ok = False
    for bi, c, t in ip.calls_to(r"procedures::NamedProcedure::new$"):
        a = t["args"][-1]
        sl = ip.backward_slice(a["l"]) if "l" in a else {"fields": set()}
        ok = "callset" in {f for l, f in sl["fields"]}
    ctx.oblig(ok)
    if not ok:
        ctx.violation("procedure-callset", ip.loc(), "ProcedureContext::into_procedure must store the context's callset in the Procedure")


REJECT = [
    # (function regex, error constructor / variant regex, what)
    (CTX + r"ModuleContext::register_local_call$", r"local_proc_not_found", "undefined local procedure"),
    (CTX + r"AssemblyContext::register_local_call$", r"call_in_kernel", "call in a kernel (local)"),
    (CTX + r"AssemblyContext::register_external_call$", r"call_in_kernel", "call/syscall in a kernel (external)"),
    (r"^miden_assembly::assembler::instruction::env_ops::caller$", r"caller_out_of_kernel|CallerOutOKernel|caller", "caller outside a kernel"),
    (CTX + r"ModuleContext::begin_proc$", r"duplicate_proc_name", "duplicate procedure name"),
    (CTX + r"AssemblyContext::register_phantom_call$", r"phantom_calls_not_allowed", "phantom call where not allowed"),
    (r"^miden_assembly::assembler::Assembler::ensure_procedure_is_in_cache$", r"imported_proc_module_not_found", "unknown import"),
    (CTX + r"AssemblyContext::begin_module$", r"circular_module_dependency", "circular module dependency"),
]


def r2_rejections(ctx, F):
    for pat, err, what in REJECT:
        fn = F.fn(pat)
        fam = family(F, fn)
        has = any(re.search(err, c) for g in fam for bi, c, t in g.calls()) or \
            any(re.search(err, s["r"].get("variant", "")) for g in fam for b in g.blocks for s in b["s"] if s["r"]["k"] == "agg")
        ctx.inst(key=what, nontrivial=True)
        ctx.oblig(has)
        if not has:
            ctx.violation("rejection-missing|%s" % what.replace(" ", "_"), fn.loc(), "%s no longer rejects: %s (expected error %s)" % (short(fn.id), what, err))
    # zero-divisor immediates, parameter ranges and local indexes: from the lowering extractor
    L = lowering.lower_all(F)
    for v, errv in (("DivImm", "DivisionByZero"), ("U32DivImm", "DivisionByZero"), ("U32ModImm", "DivisionByZero"), ("U32DivModImm", "DivisionByZero"),
                    ("ExpBitLength", "ParamOutOfBounds"), ("AdvPush", "ParamOutOfBounds"), ("U32ShlImm", "ParamOutOfBounds"), ("U32ShrImm", "ParamOutOfBounds"),
                    ("U32RotlImm", "ParamOutOfBounds"), ("U32RotrImm", "ParamOutOfBounds"),
                    ("LocLoad", "ParamOutOfBounds"), ("LocLoadW", "ParamOutOfBounds"), ("LocStore", "ParamOutOfBounds"), ("LocStoreW", "ParamOutOfBounds"), ("Locaddr", "ParamOutOfBounds")):
        ps = L[v].paths
        ctx.inst(key="reject|" + v, nontrivial=True)
        ok = any(isinstance(p["outcome"], tuple) and p["outcome"][0] == "err" and p["outcome"][1] == errv for p in ps)
        ctx.oblig(ok)
        if not ok:
            ctx.violation("invalid-parameter-accepted|%s" % v, "assembly/src/assembler/instruction", "%s has no path rejecting an invalid parameter with %s" % (v, errv))
    # export in an executable / other parser-level rejections
    pa = F.find(r"^miden_assembly::ast::parsers::context::ParserContext::parse_procedures$")
    for fn in pa:
        has = any(re.search(r"proc_export_not_allowed", c) for bi, c, t in fn.calls())
        ctx.inst(key="export-in-executable", nontrivial=True)
        ctx.oblig(has)
        if not has:
            ctx.violation("rejection-missing|export_in_executable", fn.loc(), "the parser no longer rejects `export` in an executable module")


def r3_no_panic_in_validation(ctx, F):
    """the lowering of instructions with a validated parameter must not evaluate a compiler-inserted arithmetic check on the
    parameter before (or instead of) validating it"""
    L = lowering.lower_all(F)
    n = 0
    for v, low in sorted(L.items()):
        for p in low.paths:
            for e in p["effects"]:
                if isinstance(e, tuple) and e[0] == "may_panic":
                    kind, loc = e[1], e[2]
                    # guarded if a validate_param on the same path precedes it
                    idx = p["effects"].index(e)
                    validated_before = any(isinstance(x, tuple) and x[0] == "validate_param" for x in p["effects"][:idx])
                    n += 1
                    ctx.inst(key="%s|%s" % (v, re.sub(r":\d+$", "", loc)), nontrivial=True)
                    ctx.oblig(validated_before)
                    if not validated_before:
                        ctx.violation("unchecked-arithmetic|%s|%s" % (v, kind), loc,
                                      "lowering of %s evaluates a %s check on a value derived from the instruction's parameter / context before validating it: "
                                      "debug builds panic and release builds wrap for some inputs" % (v, kind))
    ctx.extra["parameter_arithmetic_sites"] = n


def r4_cache_keys(ctx, F):
    ins = F.fn(r"^miden_assembly::assembler::procedure_cache::ProcedureCache::insert$")
    ctx.inst(key="ProcedureCache::insert", nontrivial=True)
    rej = any(re.search(r"conflicting_proc_id|duplicate_proc_id|proc_mast_root_conflict|ConflictingProcId", c) for bi, c, t in ins.calls()) or bool(err_blocks(ins))
    ctx.oblig(rej)
    if not rej:
        ctx.violation("cache-conflict", ins.loc(), "ProcedureCache::insert has no rejecting path for a conflicting procedure id")
    keys = [c for bi, c, t in ins.calls() if re.search(r"BTreeMap::(insert|entry|get|contains_key)$", c)]
    ctx.analysed("ProcedureCache::insert map operations: %s" % sorted(set(short(k) for k in keys)))
    fam = [ins] + [g for g in F.fns.values() if g.id.startswith(ins.id + "::{closure")]
    roots = any(c.endswith("mast_root") for bi, c, t in ins.calls()) and any(re.search(r"BTreeMap::entry$", c) for bi, c, t in ins.calls())
    ids = any(re.search(r"ProcedureCache::contains_id$", c) for g in fam for bi, c, t in g.calls()) and any(re.search(r"BTreeMap::insert$", c) for bi, c, t in ins.calls())
    ctx.oblig(roots and ids)
    if not (roots and ids):
        ctx.violation("cache-keys", ins.loc(), "ProcedureCache::insert must key by MAST root and by procedure id")


def r5_alias_flattening(ctx, F):
    """ProcedureCache::get_by_id resolves an alias with a single hop (proc_aliases -> proc_id_map), so insert_proc_alias must
    store a key of proc_id_map for every alias, also when the aliased procedure is itself an alias (re-export of a re-export)"""
    from .mirsym import Interp, Agg, Term, Ptr, Opaque, deref, Unanalysable, PanicReached
    fn = F.fn(r"^miden_assembly::assembler::procedure_cache::ProcedureCache::insert_proc_alias$")
    adt = F.adt(r"^miden_assembly::assembler::procedure_cache::ProcedureCache$")
    fields = [f["name"] for f in adt["variants"][0]["fields"]]
    ctx.floor("procedure-cache-maps", len([f for f in fields if f in ("proc_id_map", "proc_aliases", "procedures")]), 3)

    class Map(Opaque):
        def __init__(self, name, d):
            Opaque.__init__(self, name)
            self.d = dict(d)
    key = lambda x: repr(deref(x))
    for scenario in ("direct", "alias-of-alias"):
        ctx.inst(key="insert_proc_alias|%s" % scenario, nontrivial=True)
        ids = {"alias": Term("ALIAS"), "ref": Term("REF"), "base": Term("BASE")}
        pim = Map("proc_id_map", {repr(ids["ref"]): Term("root_ref")} if scenario == "direct" else {repr(ids["base"]): Term("root_base")})
        pal = Map("proc_aliases", {} if scenario == "direct" else {repr(ids["ref"]): ids["base"]})
        I = Interp(F)
        add = lambda rx, m: I.overrides.append((re.compile(rx), m))
        some = lambda v: Agg([v], "adt", "core::option::Option", "Some")
        none = lambda: Agg([], "adt", "core::option::Option", "None")
        add(r"btree::map::BTreeMap::contains_key$", lambda I, a, f: key(a[1]) in deref(a[0]).d)
        add(r"btree::map::BTreeMap::get$", lambda I, a, f: some(Ptr([deref(a[0]).d[key(a[1])]], 0)) if key(a[1]) in deref(a[0]).d else none())

        def ins(I, a, f):
            m = deref(a[0])
            old = m.d.get(key(a[1]))
            m.d[key(a[1])] = a[2]
            return some(old) if old is not None else none()
        add(r"btree::map::BTreeMap::insert$", ins)
        add(r"AssemblyError::duplicate_proc_id$", lambda I, a, f: Opaque("duplicate_proc_id"))
        selfv = Agg([{"proc_id_map": pim, "proc_aliases": pal}.get(n, Opaque(n)) for n in fields], "adt", adt["id"], adt["variants"][0]["name"])
        try:
            res = I.call(fn.id, [Ptr([selfv], 0), ids["alias"], ids["ref"]])
        except (Unanalysable, PanicReached) as e:
            ctx.violation("UNANALYSABLE|insert_proc_alias|%s" % scenario, fn.loc(), str(e)[:300])
            continue
        stored = pal.d.get(repr(ids["alias"]))
        ok = isinstance(res, Agg) and res.variant == "Ok" and stored is not None and repr(stored) in pim.d
        ctx.oblig(ok)
        ctx.sample({"scenario": scenario, "stored_for_alias": repr(stored), "proc_id_map_keys": sorted(pim.d)})
        if not ok:
            ctx.violation("alias-not-flattened|%s" % scenario, fn.loc(), "insert_proc_alias(%s) stores %s for the new alias, which is not a key of proc_id_map (%s): get_by_id follows one hop only, so a later lookup of the alias panics ('missing MAST root') instead of finding the procedure"
                          % ("alias of a direct procedure" if scenario == "direct" else "alias of an alias", repr(stored), sorted(pim.d)))
    # get_by_id: a single hop
    g = F.fn(r"^miden_assembly::assembler::procedure_cache::ProcedureCache::get_by_id$")
    hops = len(g.calls_to(r"BTreeMap::get$")) + sum(len(F.fns[c].calls_to(r"BTreeMap::get$")) for c in F.fns if c.startswith(g.id + "::{closure"))
    ctx.inst(key="get_by_id", nontrivial=True)
    ctx.analysed("get_by_id performs %d map lookups (direct, alias, alias target, procedure)" % hops)


# ---- R6: module privacy - a name-derived cache id only for exported procedures ---------------------------------------------------
def _export_guarded(F, fn, bi, depth=4):
    """True when block bi of fn runs only after some NamedProcedure::is_export() returned true: a switch on that call's result
    whose true target dominates bi, in fn itself or (for helpers and closures) at every site that calls / builds fn"""
    for sb, b in enumerate(fn.blocks):
        t = b["t"]
        if t["k"] != "switch":
            continue
        o, neg = t["o"], False
        r = def_rvalue(fn, o)
        while r is not None and r["k"] == "un" and r["op"] == "Not":
            neg = not neg
            o = r["o"]
            r = def_rvalue(fn, o)
        dc = def_call(fn, o)
        if dc is None or not re.search(r"NamedProcedure::is_export$", strip_targs(dc[2]["f"].get("fn", ""))):
            continue
        arms = dict((a[0], a[1]) for a in t["arms"])
        if 0 not in arms:
            continue
        true_t, false_t = (t["else"], arms[0]) if not neg else (arms[0], t["else"])
        if true_t != false_t and fn.dominates(true_t, bi) and len(fn.preds().get(true_t, [])) == 1:
            return True
    if depth == 0:
        return False
    sites = []
    for cid in F.callers(fn.id):
        cf = F.fns[cid]
        sites += [(cf, cb) for cb, cc, ct in cf.calls() if cc == fn.id]
    if "{closure" in fn.id:
        parent = F.fns.get(fn.id.rsplit("::{closure", 1)[0])
        if parent is not None:
            sites += [(parent, pb) for pb, b in enumerate(parent.blocks) for st in b["s"] if st["r"]["k"] == "agg" and st["r"].get("ak") == "closure" and st["r"].get("fn") == fn.id]
    return bool(sites) and all(_export_guarded(F, cf, cb, depth - 1) for cf, cb in sites)


def r6_module_privacy(ctx, F):
    """the id under which compile_module caches a module's own procedure is derived from the procedure's name only when the
    procedure is exported; otherwise a by-name import from another module would resolve to a private procedure"""
    ins = [k for k in F.fns if re.search(r"procedure_cache::ProcedureCache::insert$", strip_targs(k))]
    if len(ins) != 1:
        ctx.violation("anchor|ProcedureCache::insert", "assembly/src/assembler/procedure_cache.rs", "ProcedureCache::insert not found")
        return
    nsites = 0
    nname = 0
    for cid in sorted(F.callers(ins[0])):
        cf = F.fns[cid]
        for cb, cc, ct in cf.calls():
            if cc != ins[0]:
                continue
            nsites += 1
            ctx.inst(key="insert@%s" % short(cf.id), nontrivial=True)
            # from_name calls feeding the id argument: in this function, or inside assembler helpers (and their closures) whose
            # result feeds it
            todo, seen, found = [(cf, ct["args"][2])], set(), []
            while todo:
                fn, opnd = todo.pop()
                sl = fn.backward_slice(opnd["l"], through_calls=False) if opnd is not None and "l" in opnd else {"calls": []}
                for b2, callee, t2 in sl["calls"]:
                    cs = strip_targs(callee)
                    if re.search(r"ProcedureId::from_name$", cs):
                        found.append((fn, b2, t2))
                    elif re.match(r"^miden_assembly::assembler::", cs) and callee in F.fns and callee not in seen and not re.search(r"procedure_cache::", cs):
                        seen.add(callee)
                        helper = F.fns[callee]
                        members = [helper] + [g for g in F.fns.values() if g.id.startswith(helper.id + "::{closure")]
                        for g in members:
                            for b3, c3, t3 in g.calls():
                                if re.search(r"ProcedureId::from_name$", strip_targs(c3)):
                                    found.append((g, b3, t3))
            for fn, b2, t2 in found:
                nname += 1
                ok = _export_guarded(F, fn, b2)
                ctx.oblig(ok)
                if not ok:
                    ctx.violation("private-procedure-named-id|%s" % short(fn.id), fn.loc(t2["ln"]),
                                  "the id passed to ProcedureCache::insert in %s comes from ProcedureId::from_name (%s) on a path that is not conditional on NamedProcedure::is_export(): "
                                  "a non-exported procedure becomes importable by name from other modules" % (short(cf.id), short(fn.id)))
    ctx.floor("cache-insert-sites", nsites, 1)
    ctx.floor("name-derived-ids", nname, 1)


def run(ctx, F):
    ctx.trusted += ["rustc MIR via mirfacts", "lowering extractor for the parameter paths"]
    ctx.assumptions += ["equality of programs across compilation histories is not decided; the rules decide that callsets are closed under every registration path, "
                        "that the listed invalid constructs have rejecting paths, and that parameter arithmetic is validated first"]
    ctx.run_rule("C11-R1", "callset closure: every invocation lowering registers the call (right `inlined`), both register_*_call siblings append the callee's callset and insert its root iff !inlined, callsets propagate upward and into_cb_table resolves or fails", r1_callset_closure, F)
    ctx.run_rule("C11-R2", "rejection sites: each listed invalid construct has a reachable rejecting path", r2_rejections, F)
    ctx.run_rule("C11-R3", "no compiler-inserted arithmetic check on an instruction parameter before its validation", r3_no_panic_in_validation, F)
    ctx.run_rule("C11-R4", "procedure cache keyed by MAST root and id with a rejecting path for conflicts", r4_cache_keys, F)
    ctx.run_rule("C11-R5", "procedure aliases are stored flattened: the value stored for an alias is always a key of proc_id_map (re-export chains resolve with one hop)", r5_alias_flattening, F)
    ctx.run_rule("C11-R6", "module privacy: the cache id of a module's own procedure is derived from its name only under NamedProcedure::is_export()", r6_module_privacy, F)

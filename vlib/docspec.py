"""Run-time parser of the repository's own specification (docs/src/design/stack/*.md and the decoder
'Effect on stack' table): per operation, the documented stack shift sentences and the LaTeX constraint
blocks, turned into (next cell <- current cell) maps and polynomials. The docs are the oracle; nothing
here is a frozen copy of them."""
import os, re
from .mirsym import Poly, P
from . import extract

DOCS = os.path.join(extract.REPO, "docs/src/design")
STACK_FILES = ["system_ops.md", "field_ops.md", "stack_ops.md", "u32_ops.md", "io_ops.md", "crypto_ops.md"]


class Section:
    def __init__(self, file, name, line):
        self.file, self.name, self.line = file, name, line
        self.lines = []
        self.shift_bullets = []   # raw
        self.latex = []           # raw blocks
        self.effects = None


def sections():
    out = []
    for fn in STACK_FILES:
        p = os.path.join(DOCS, "stack", fn)
        if not os.path.exists(p):
            continue
        cur = None
        with open(p) as fh:
            lines = fh.read().split("\n")
        i = 0
        while i < len(lines):
            l = lines[i]
            m = re.match(r"^#{2,3}\s+([A-Z][A-Z0-9]*(?:\(n\))?)\s*$", l)
            if m:
                cur = Section("docs/src/design/stack/" + fn, m.group(1), i + 1)
                out.append(cur)
            elif re.match(r"^#{1,3}\s", l):
                cur = None
            elif cur is not None:
                cur.lines.append(l)
                mb = re.match(r"^\s*[\*\-]\s+\*\*(Left shift|Right shift|No change)\.?\*\*\s*(.*)$", l)
                if mb:
                    cur.shift_bullets.append((mb.group(1), mb.group(2), i + 1))
                if l.strip().startswith(">$$"):
                    blk = []
                    rest = l.strip()[3:]
                    if rest.strip():
                        blk.append(rest)
                    i += 1
                    while i < len(lines) and "$$" not in lines[i]:
                        blk.append(lines[i])
                        i += 1
                    if i < len(lines):
                        tail = lines[i].split("$$")[0]
                        if tail.strip():
                            blk.append(tail)
                    cur.latex.append((" ".join(blk), i + 1))
            i += 1
    return out


def _ev(expr, n):
    expr = expr.replace("$", "").strip()
    if not re.match(r"^[0-9n+\- ]+$", expr):
        raise ValueError(expr)
    return eval(expr, {"n": n})


def params_of(name, sec):
    """concrete (variant name, n) instances of a documented section"""
    if name.endswith("(n)"):
        base = name[:-3]
        text = " ".join(sec.lines)
        if base == "DUP":
            ns = [0, 1, 2, 3, 4, 5, 6, 7, 9, 11, 13, 15]
            m = re.search(r"n \\in \\\{0, \.\.\., 7, 9, 11, 13, 15\\\}", text)
            if not m:
                raise ValueError("DUP(n) range not found")
        else:
            m = re.search(r"n \\in \[(\d+), (\d+)\)", text)
            if not m:
                raise ValueError("range of %s not found" % name)
            ns = list(range(int(m.group(1)), int(m.group(2))))
        return [(base, n) for n in ns]
    return [(name, None)]


def effects_of(sec, n):
    """dict next_cell -> current_cell documented by the shift bullets (cells 0..15)"""
    eff = {}
    for kind, rest, ln in sec.shift_bullets:
        rest = rest.strip()
        m1 = re.match(r"^(?:for positions )?starting from (?:position )?\$([^$]+)\$(?: except position \$(\d+)\$)?", rest)
        m2 = re.match(r"^for elements \$([0-9, ]+)\$", rest)
        m3 = re.match(r"^for elements between \$([^$]+)\$ and \$([^$]+)\$", rest)
        if m1:
            k = _ev(m1.group(1), n)
            cells = list(range(k, 16))
            if m1.group(2):
                cells = [c for c in cells if c != int(m1.group(2))]
        elif m2:
            cells = [int(x) for x in m2.group(1).split(",")]
        elif m3:
            cells = list(range(_ev(m3.group(1), n), _ev(m3.group(2), n) + 1))
        elif rest == "" and kind == "No change":
            cells = list(range(0, 16))
        else:
            raise ValueError("unparsed shift bullet %r (%s:%d)" % (rest, sec.file, ln))
        for c in cells:
            if c > 15:
                continue
            if kind == "No change":
                eff[c] = c
            elif kind == "Left shift":
                if c - 1 >= 0:
                    eff[c - 1] = c
            else:
                if c + 1 <= 15:
                    eff[c + 1] = c
    return eff


def decoder_table():
    """control operations: name -> 'none' | 'left' | 'right' | 'end' from docs/design/decoder/constraints.md"""
    p = os.path.join(DOCS, "decoder/constraints.md")
    out = {}
    for l in open(p):
        m = re.match(r"^\|\s*`([A-Z]+)`\s*\|[^|]*\|[^|]*\|\s*(.*?)\s*\|\s*$", l)
        if m:
            name, txt = m.group(1), m.group(2)
            if txt.startswith("Stack remains unchanged"):
                out[name] = "none"
            elif txt.startswith("Top stack element is dropped"):
                out[name] = "left"
            elif txt.startswith("When exiting a loop block, top stack element is dropped; otherwise, the stack remains unchanged"):
                out[name] = "end"
            elif txt.startswith("An immediate value is pushed"):
                out[name] = "right"
            else:
                out[name] = "?" + txt
    return out


# ---------------------------------------------------------------------------------------------
# LaTeX constraint subset -> polynomials

class LatexError(Exception):
    pass


TOK = re.compile(r"\s*(\\cdot|\\left|\\right|\\text\{[^}]*\}|\\[a-zA-Z]+|[0-9]+|[a-zA-Z]+|[_^'{}()+\-*=,|\[\]])")


def tokenize(s):
    s = s.replace("\\ ", " ").replace("\\,", " ").replace("\\;", " ").replace("\\!", "")
    out = []
    pos = 0
    while pos < len(s):
        m = TOK.match(s, pos)
        if not m:
            if s[pos:].strip() == "":
                break
            raise LatexError("cannot tokenize at %r" % s[pos:pos + 20])
        t = m.group(1)
        pos = m.end()
        if t in ("\\left", "\\right"):
            continue
        out.append(t)
    return out


class LatexParser:
    def __init__(self, toks, var, binding):
        self.t = toks
        self.i = 0
        self.var = var          # callable (name, index, primed) -> Poly
        self.binding = binding  # index variable values, e.g. {'i': 3, 'n': 5}

    def peek(self):
        return self.t[self.i] if self.i < len(self.t) else None

    def eat(self, x=None):
        t = self.peek()
        if t is None or (x is not None and t != x):
            raise LatexError("expected %r got %r" % (x, t))
        self.i += 1
        return t

    def expr(self):
        v = None
        sign = 1
        if self.peek() == "-":
            self.eat()
            sign = -1
        elif self.peek() == "+":
            self.eat()
        v = self.term().scale(sign)
        while self.peek() in ("+", "-"):
            op = self.eat()
            t = self.term()
            v = v + t if op == "+" else v - t
        return v

    def term(self):
        v = self.factor()
        while True:
            p = self.peek()
            if p in ("\\cdot", "*"):
                self.eat()
                v = v * self.factor()
            elif p is not None and (p == "(" or p == "{" or re.match(r"^[a-zA-Z0-9]+$", p)) and p not in ("for",):
                # implicit multiplication, e.g. 2^{16} h_1 or (1-s_0)s_1
                v = v * self.factor()
            else:
                return v

    def factor(self):
        b = self.atom()
        if self.peek() == "^":
            self.eat()
            e = self.int_group()
            r = Poly.const(1)
            for _ in range(e):
                r = r * b
            b = r
            if self.peek() == "'":
                raise LatexError("prime after power")
        return b

    def int_group(self):
        if self.peek() == "{":
            self.eat("{")
            v = self.int_expr()
            self.eat("}")
            return v
        t = self.eat()
        if t.isdigit():
            return int(t)
        if t in self.binding:
            return self.binding[t]
        raise LatexError("bad exponent/index %r" % t)

    def int_expr(self):
        # small integer expressions in indices: i, i+1, n-1, 12
        v = self.int_atom()
        while self.peek() in ("+", "-"):
            op = self.eat()
            w = self.int_atom()
            v = v + w if op == "+" else v - w
        return v

    def int_atom(self):
        t = self.eat()
        if t.isdigit():
            return int(t)
        if t in self.binding:
            return self.binding[t]
        raise LatexError("unbound index %r" % t)

    def atom(self):
        t = self.peek()
        if t == "(":
            self.eat()
            v = self.expr()
            self.eat(")")
            return v
        if t == "{":
            self.eat()
            v = self.expr()
            self.eat("}")
            return v
        if t is not None and t.isdigit():
            self.eat()
            return Poly.const(int(t))
        if t is not None and re.match(r"^[a-zA-Z]+$", t):
            name = self.eat()
            primed = False
            if self.peek() == "'":
                self.eat()
                primed = True
            idx = None
            if self.peek() == "_":
                self.eat()
                idx = self.int_group()
            if self.peek() == "'":
                self.eat()
                primed = True
            return self.var(name, idx, primed)
        raise LatexError("unexpected token %r" % t)


def parse_constraint_block(block, var):
    """returns list of Poly (one per binding of the quantified index); raises LatexError"""
    # split off quantifier and degree annotations
    s = block
    s = re.sub(r"\\text\s*\{\s*\|\s*degree\s*\}\s*=\s*\d+", "", s)
    quant = None
    m = re.search(r"\\text\s*\{\s*for\s*\}\s*([a-z])\s*\\in\s*(.*)$", s)
    if m:
        quant = (m.group(1), m.group(2).strip())
        s = s[:m.start()]
    s = s.replace("\\text{ }", " ").strip()
    if "\\begin" in s or "\\sum" in s or "\\prod" in s or "\\lnot" in s:
        raise LatexError("unsupported construct")
    if s.count("=") != 1:
        raise LatexError("expected exactly one '='")
    lhs, rhs = s.split("=")
    bindings = [{}]
    if quant:
        v, dom = quant
        m1 = re.match(r"^\[(\d+),\s*(\d+)\)", dom)
        m2 = re.match(r"^\\\{([0-9,\s\.]+)\\\}", dom)
        if m1:
            vals = list(range(int(m1.group(1)), int(m1.group(2))))
        elif m2:
            txt = m2.group(1).replace(" ", "")
            if "..." in txt:
                parts = txt.split(",")
                vals = []
                k = 0
                while k < len(parts):
                    if parts[k] == "...":
                        vals.extend(range(vals[-1] + 1, int(parts[k + 1])))
                    else:
                        vals.append(int(parts[k]))
                    k += 1
            else:
                vals = [int(x) for x in txt.split(",") if x]
        else:
            raise LatexError("unsupported quantifier domain %r" % dom)
        bindings = [{v: x} for x in vals]
    out = []
    for b in bindings:
        pl = LatexParser(tokenize(lhs), var, b)
        l = pl.expr()
        if pl.peek() is not None:
            raise LatexError("trailing tokens %r" % pl.t[pl.i:pl.i + 4])
        pr = LatexParser(tokenize(rhs), var, b)
        r = pr.expr()
        if pr.peek() is not None:
            raise LatexError("trailing tokens %r" % pr.t[pr.i:pr.i + 4])
        out.append((b, l - r))
    return out

"""C18 — standard-library memory / stack utilities keep their contracts. Decided parts (stdlib/asm/sys.masm, mem.masm):
R1  truncate_stack: the four saved words are restored to their original positions on a 16-deep stack whatever the loop left
    there (save prefix and restore suffix are executed symbolically around a summarised loop whose body only drops words and
    whose exit condition is depth == 16), so exactly the original top 16 remain
R2  loops of mem.masm: (a) the loop guard computed before the loop and the one recomputed at the end of the body are the same
    function of the loop-carried stack (same cells, same comparison); (b) memcopy's body copies the word at the read pointer
    to the write pointer and advances read pointer, write pointer and counter by one each; (c) the epilogue leaves the
    documented result (for memcopy: the untouched rest of the stack)
R3  smt::get / smt::set address every Merkle instruction by (64, K[3], current root) (provenance interpretation)
R4  collections::mmr: loop helpers decided on bit cubes (vlib/mmrflow.BitFlow); get / add / the peak-count helpers term-extracted
    (vlib/mmrflow.TermFlow) and the extracted address, depth, index and counter terms evaluated on a grid against the native
    addressing of a Merkle mountain range.  pack / unpack are not decided."""
import re
from .masm import *
from . import rules_c05

LEVEL = "other"
SYS = "/repo/stdlib/asm/sys.masm"
MEM = "/repo/stdlib/asm/mem.masm"


def split_loop(body):
    """(prefix, while-node, suffix) for a body with exactly one top-level while.true"""
    idx = [i for i, n in enumerate(body) if n[0] == "while"]
    if len(idx) != 1:
        return None
    i = idx[0]
    return body[:i], body[i], body[i + 1:]


def generic_state(n=40, prefix="g"):
    st = State()
    st.stack = [Val(ZP.var("%s%d" % (prefix, i)), P - 1) for i in range(n)] + [Val(ZP.var("deep%d" % i), P - 1) for i in range(n, 80)]
    return st


def run_nodes(X, st, nodes):
    out = []
    X.run_block(st, nodes, out, [5000])
    if len(out) != 1:
        raise Undecided("%d paths" % len(out))
    return out[0]


def guard_shape(cond, state_after_pop):
    """describe a loop guard as (kind, cell indexes of the loop-carried stack it tests, negated)"""
    f = cond.b
    neg = False
    while f is not None and f[0] == "not":
        neg = not neg
        f = f[1]
    if f is None or f[0] != "eq0":
        if cond.tag and cond.tag[0] == "sdepth":
            return ("depth",)
        return None
    d = f[1]
    cells = []
    rest = d
    for i, v in enumerate(state_after_pop[:32]):
        if v.z.is_zero() or v.z.const_value() is not None:
            continue
    # express d as a combination of cells: d == cell_i - const  or cell_i - cell_j
    for i, v in enumerate(state_after_pop[:32]):
        if v.z.const_value() is not None:
            continue
        c = (d - v.z).const_value()
        if c is not None:
            return ("cmp-const", (i,), -c, neg)
        for j, w in enumerate(state_after_pop[:32]):
            if j != i and w.z.const_value() is None and (d - (v.z - w.z)).is_zero():
                return ("cmp-cells", (i, j), 0, neg)
    if d.vars() and all(v.startswith("depth@") for v in d.vars()):
        return ("depth", (), -(d - ZP.var(next(iter(d.vars())))).const_value(), neg)
    return None


def r1_truncate(ctx, F):
    M = Module(SYS)
    X = Exec(M, rules_c05.family_expected)
    p = M.procs["truncate_stack"]
    loc = "stdlib/asm/sys.masm:%d" % p.line
    ctx.inst(key="sys::truncate_stack", nontrivial=True)
    sp = split_loop(p.body)
    if sp is None:
        ctx.violation("shape|truncate_stack", loc, "truncate_stack no longer has exactly one loop")
        return
    pre, loop, suf = sp
    st = generic_state(24, "t")
    try:
        st = run_nodes(X, st, pre)
    except (Undecided, MasmError) as e:
        ctx.violation("UNANALYSABLE|truncate_stack", loc, str(e)[:300])
        return
    # before the loop: the top 16 are saved in locals 0..3 word by word and removed from the stack; the guard is depth != 16
    cond = st.stack[0]
    after = st.stack[1:]
    saved = {k[1]: [repr(v.z) for v in w] for k, w in st.mem.items()}
    want_saved = {k: ["t%d" % (4 * k + i) for i in range(4)] for k in range(4)}
    ok = saved == want_saved and repr(after[0].z) == "t16"
    ctx.oblig(ok)
    if not ok:
        ctx.violation("truncate-save", loc, "before the loop the locals hold %s and the stack top is %s; expected words 0..3 of the original stack saved in locals 0..3 and removed" % (saved, repr(after[0].z)))
    g0 = guard_shape(cond, after)
    # loop body on a generic stack: only drops; guard recomputed as depth != 16
    b = generic_state(24, "b")
    try:
        b = run_nodes(X, b, loop[1])
    except (Undecided, MasmError) as e:
        ctx.violation("UNANALYSABLE|truncate_stack-loop", loc, str(e)[:300])
        return
    g1 = guard_shape(b.stack[0], b.stack[1:])
    body_after = [repr(v.z) for v in b.stack[1:9]]
    ok = g0 == g1 and g0 is not None and g0[0] == "depth" and g0[2] == 16 and g0[3] is True and re.match(r"^b\d+$", body_after[0]) is not None \
        and all(body_after[i] == "b%d" % (int(body_after[0][1:]) + i) for i in range(8)) and not [n for n in b.notes if n[0] not in ("sdepth",)]
    ctx.oblig(ok)
    if not ok:
        ctx.violation("truncate-loop", loc, "the loop must only drop words while depth != 16 (entry guard %s, end-of-body guard %s, body leaves %s, effects %s)" % (g0, g1, body_after[:3], [n[0] for n in b.notes]))
    # after the loop the stack holds exactly 16 unknown cells; the suffix must rebuild the original top 16
    e = State()
    e.stack = [Val(ZP.var("junk%d" % i), P - 1) for i in range(16)] + [Val(ZP.var("below%d" % i), P - 1) for i in range(64)]
    e.mem = dict(st.mem)
    try:
        e = run_nodes(X, e, suf)
    except (Undecided, MasmError) as ex:
        ctx.violation("UNANALYSABLE|truncate_stack-restore", loc, str(ex)[:300])
        return
    got = [repr(v.z) for v in e.stack[:17]]
    want = ["t%d" % i for i in range(16)] + ["below0"]
    ok = got == want
    ctx.oblig(ok)
    ctx.sample({"procedure": "sys::truncate_stack", "saved_locals": saved, "entry_guard": str(g0), "restored_top16": got[:16]})
    if not ok:
        ctx.violation("truncate-restore", loc, "after the loop the restore sequence yields %s; expected the original top 16 in order and nothing else" % got)


def r2_mem_loops(ctx, F):
    M = Module(MEM)
    X = Exec(M, rules_c05.family_expected)
    nloops = 0
    for name in M.order:
        p = M.procs[name]
        loc = "stdlib/asm/mem.masm:%d" % p.line
        sp = split_loop(p.body)
        if sp is None:
            continue
        nloops += 1
        pre, loop, suf = sp
        key = "mem::" + name
        ctx.inst(key=key, nontrivial=True)
        st = generic_state(24, "i")
        try:
            st = run_nodes(X, st, pre)
            g0 = guard_shape(st.stack[0], st.stack[1:])
            b = generic_state(24, "b")
            b = run_nodes(X, b, loop[1])
            g1 = guard_shape(b.stack[0], b.stack[1:])
        except (Undecided, MasmError) as e:
            ctx.violation("UNANALYSABLE|%s" % key, loc, str(e)[:300])
            continue
        ok = g0 is not None and g0 == g1
        ctx.oblig(ok)
        ctx.sample({"procedure": key, "entry_guard": str(g0), "end_of_body_guard": str(g1)})
        if not ok:
            ctx.violation("loop-guard|%s" % key, loc, "%s: the loop guard before the loop tests %s of the loop-carried stack, the guard at the end of the body tests %s: the first iteration is decided by a different quantity than the following ones" % (key, g0, g1))
        if name == "memcopy":
            # layout after the guard is popped: [0,0,0,0, counter, read_ptr, write_ptr, ...]
            after = b.stack[1:]
            loads = [n for n in b.notes if n[0] == "mem_loadw"]
            stores = [n for n in b.notes if n[0] == "mem_storew"]
            ok = len(loads) == 1 and len(stores) == 1 and repr(loads[0][1]) == "b5" and repr(stores[0][1]) == "b6" and [repr(x) for x in stores[0][2]] == [repr(x) for x in loads[0][2]] \
                and [repr(after[i].z) for i in (4, 5, 6)] == ["1 + b4", "1 + b5", "1 + b6"] and [repr(after[i].z) for i in range(7, 12)] == ["b%d" % i for i in range(7, 12)]
            ctx.oblig(ok)
            if not ok:
                ctx.violation("memcopy-body", loc, "memcopy's loop body must load the word at the read pointer (cell 5), store it at the write pointer (cell 6) and add 1 to counter, read pointer and write pointer: loads %s stores %s next state %s"
                              % ([(repr(n[1])) for n in loads], [(repr(n[1]), [repr(x) for x in n[2]]) for n in stores], [repr(after[i].z) for i in range(4, 8)]))
            # prefix: counter = -n, pointers in place; suffix: everything consumed
            init = [repr(v.z) for v in st.stack[1:8]]
            ok = init == ["0", "0", "0", "0", "-i0", "i1", "i2"]
            ctx.oblig(ok)
            if not ok:
                ctx.violation("memcopy-init", loc, "memcopy must enter the loop with [0,0,0,0,-n,read_ptr,write_ptr]: %s" % init)
            e = generic_state(24, "x")
            try:
                e = run_nodes(X, e, suf)
                ok = [repr(v.z) for v in e.stack[:4]] == ["x7", "x8", "x9", "x10"]
            except (Undecided, MasmError) as ex:
                ok = False
            ctx.oblig(ok)
            if not ok:
                ctx.violation("memcopy-epilogue", loc, "memcopy must drop its 7 working cells and leave the rest of the stack")
    ctx.floor("mem-loops", nloops, 2)


# ---- R3: sparse Merkle tree procedures address the tree by (LEAF_DEPTH, K[3], current root) --------------------------------
SMT = "/repo/stdlib/asm/collections/smt.masm"


class SmtFlow:
    """provenance interpretation of smt.masm: values are input elements, constants or fresh results (advice, hashes, Merkle
    results); every path through if.true/else is followed; Merkle instructions record their operands"""
    def __init__(self, module, consts):
        self.m, self.consts = module, consts
        self.n = 0

    def fresh(self, tag):
        self.n += 1
        return ("f", self.n, tag)

    def move(self, stack, name):
        exp = rules_c05.family_expected(name)
        if exp is None or "ok" not in exp:
            return False
        while len(stack) < 40:
            stack.append(("deep", len(stack)))
        new = []
        for x in exp["ok"]:
            if x.const_value() == 0:
                new.append(("c", 0))
            else:
                (v,) = x.vars()
                new.append(stack[int(v[1:])])
        stack[:] = new + stack[32:]
        return True

    def run(self, body, stack, events, depth=0):
        """returns the list of (stack, events) at the end of the block, one per path"""
        states = [(list(stack), list(events))]
        from .masm import expand
        for node in expand(self.m, body, inline=False):
            nxt = []
            for st, ev in states:
                if node[0] == "ins":
                    self.step(node[1], node[2], st, ev, depth, nxt)
                elif node[0] == "if":
                    c, pos = st.pop(0), True
                    while isinstance(c, tuple) and c and c[0] == "not":          # if.true on `not flag` = the other branch of flag
                        c, pos = c[1], not pos
                    nxt += self.run(node[1], st, ev + [("branch", node[-1], c, pos)], depth)
                    nxt += self.run(node[2], st, ev + [("branch", node[-1], c, not pos)], depth)
                else:
                    raise Undecided("%s: control flow %s" % (self.m.path, node[0]))
            states = nxt
            if len(states) > 256:
                raise Undecided("too many paths")
        return states

    def step(self, ins, ln, st, ev, depth, out):
        parts = ins.split(".")
        op, imm = parts[0], parts[1:]
        while len(st) < 40:
            st.append(("deep", len(st)))
        if op == "exec":
            name = ".".join(imm)
            if name not in self.m.procs or depth > 8:
                raise Undecided("%s:%d: exec %s" % (self.m.path, ln, name))
            out += self.run(self.m.procs[name].body, st, ev, depth + 1)
            return
        fam = {"dup": "Dup", "swap": "Swap", "movup": "MovUp", "movdn": "MovDn", "dupw": "DupW", "swapw": "SwapW", "movupw": "MovUpW", "movdnw": "MovDnW"}
        done = True
        if op in fam:
            default = {"dup": 0, "swap": 1, "dupw": 0, "swapw": 1}.get(op)
            n = int(imm[0]) if imm else default
            if not self.move(st, "%s%d" % (fam[op], n)):
                raise Undecided("%s:%d: %s" % (self.m.path, ln, ins))
        elif op in ("drop", "dropw", "padw"):
            self.move(st, {"drop": "Drop", "dropw": "DropW", "padw": "PadW"}[op])
        elif op == "push":
            for x in imm:
                v = self.consts.get(x, None)
                if v is None:
                    v = int(x, 16) if x.startswith("0x") else int(x)
                st.insert(0, ("c", v))
        elif op == "not":
            st.insert(0, ("not", st.pop(0)))
        elif op == "eqw":
            fl = self.fresh("flag")
            ev.append(("eqw", ln, tuple(st[0:4]), tuple(st[4:8]), fl))
            st.insert(0, fl)
        elif op in ("eq", "neq"):
            if not imm:
                st.pop(0)
            st.pop(0)
            st.insert(0, self.fresh("flag"))
        elif op in ("assert_eqw",):
            ev.append(("assert_eqw", ln, tuple(st[0:4]), tuple(st[4:8])))
            del st[:8]
        elif op in ("assert", "assertz"):
            v = st.pop(0)
            if v[0] == "c" and ((op == "assertz" and v[1] != 0) or (op == "assert" and v[1] != 1)):
                return          # an assertion on a constant that always fails: the path does not complete (unimplemented case)
        elif op == "adv_push":
            for _ in range(int(imm[0])):
                st.insert(0, self.fresh("advice"))
        elif op == "adv":
            pass
        elif op == "hmerge":
            b_, a_ = tuple(st[0:4]), tuple(st[4:8])         # [B, A, ...] -> hash(A || B)
            del st[:8]
            h = self.fresh("hash")
            out_ = [("f", h[1], "hash%d" % i) for i in range(4)]
            ev.append(("hmerge", ln, a_, b_, tuple(out_)))
            st[:0] = out_
        elif op == "mtree_get":
            d, i, root = st[0], st[1], tuple(st[2:6])
            ev.append(("mtree_get", ln, d, i, root))
            del st[:2]
            v = self.fresh("node")
            st[:0] = [("f", v[1], "node%d" % k) for k in range(4)]
        elif op == "mtree_set":
            d, i, root, val = st[0], st[1], tuple(st[2:6]), tuple(st[6:10])
            del st[:10]
            v = self.fresh("set")
            newroot = tuple(("f", v[1], "newroot%d" % k) for k in range(4))
            ev.append(("mtree_set", ln, d, i, root, newroot))
            st[:0] = [("f", v[1], "old%d" % k) for k in range(4)] + list(newroot)
        elif op == "mtree_verify":
            ev.append(("mtree_verify", ln, st[4], st[5], tuple(st[6:10])))
        else:
            raise Undecided("%s:%d: instruction %s is outside the SMT provenance model" % (self.m.path, ln, ins))
        out.append((st, ev))


def r3_smt(ctx, F):
    try:
        M = Module(SMT)
        txt = open(SMT).read()
    except (MasmError, OSError) as e:
        ctx.violation("UNANALYSABLE|smt", "stdlib/asm/collections/smt.masm", str(e)[:200])
        return
    consts = {m.group(1): int(m.group(2)) for m in re.finditer(r"^const\.(\w+)=(\d+)", txt, re.M)}
    depth = consts.get("LEAF_DEPTH")
    ctx.inst(key="LEAF_DEPTH", nontrivial=True)
    ctx.oblig(depth == 64)
    if depth != 64:
        ctx.violation("smt-leaf-depth", "stdlib/asm/collections/smt.masm", "LEAF_DEPTH is %r; leaves of the sparse Merkle tree sit at depth 64" % depth)
    n_ops = 0
    for proc, layout in (("get", ["K", "R"]), ("set", ["V", "K", "R"])):
        if proc not in M.procs or not M.procs[proc].exported:
            ctx.violation("smt-procedure-missing|%s" % proc, "stdlib/asm/collections/smt.masm", "exported procedure %s not found" % proc)
            continue
        loc = "stdlib/asm/collections/smt.masm:%d" % M.procs[proc].line
        stack = []
        for w in layout:
            stack += [("in", w, 3 - j) for j in range(4)]       # element 3 of a word is on top
        stack += [("deep", i) for i in range(len(stack), 40)]
        root_in = tuple(("in", "R", 3 - j) for j in range(4))
        X = SmtFlow(M, consts)
        try:
            finals = X.run(M.procs[proc].body, stack, [])
        except (Undecided, MasmError, IndexError) as e:
            ctx.inst(key="smt::" + proc, nontrivial=True)
            ctx.violation("UNANALYSABLE|smt::%s" % proc, loc, str(e)[:300])
            continue
        ctx.inst(key="smt::%s" % proc, nontrivial=True)
        ctx.analysed("smt::%s: %d paths, Merkle operations per path %s" % (proc, len(finals), sorted(set(len([e for e in ev if e[0].startswith("mtree_")]) for st, ev in finals))))
        seen = set()
        for st, ev in finals:
            cur_root = root_in
            for e in ev:
                if not e[0].startswith("mtree_"):
                    continue
                n_ops += 1
                kind, ln, d, i, root = e[:5]
                for what, got, want in (("depth", d, ("c", 64)), ("index", i, ("in", "K", 3)), ("root", root, cur_root)):
                    ok = got == want
                    ctx.oblig(ok)
                    k = "smt-merkle-operand|%s|%s|%s" % (proc, kind, what)
                    if not ok and (k, ln) not in seen:
                        seen.add((k, ln))
                        ctx.violation(k, "stdlib/asm/collections/smt.masm:%d" % ln,
                                      "smt::%s: %s at line %d is given %s = %s; the tree is addressed by depth 64, the most significant key element K[3] and the current root (%s)"
                                      % (proc, kind, ln, what, got, want))
                if kind == "mtree_set":
                    cur_root = e[5]
            # returned root: [V, R] for get, [V_old, R_new] for set
            okr = tuple(st[4:8]) == cur_root
            ctx.oblig(okr)
            if not okr and ("ret", proc) not in seen:
                seen.add(("ret", proc))
                ctx.violation("smt-returned-root|%s" % proc, loc, "smt::%s leaves %s as the root; expected %s" % (proc, st[4:8], "the root produced by its last mtree_set" if cur_root != root_in else "the input root"))
    ctx.floor("smt-merkle-operations", n_ops, 6)


def r3b_smt_values(ctx, F):
    """smt::get / smt::set: a value word that comes from the advice stack is returned only after it has been authenticated -
    hmerge(key', value) is asserted equal to a word delivered by the Merkle store, and key' is the requested key (the same word,
    an assert_eqw with it, or the true branch of an eqw with it); a node word is returned as the value only under the true
    branch of its comparison with the empty word"""
    try:
        M = Module(SMT)
        txt = open(SMT).read()
    except (MasmError, OSError) as e:
        ctx.violation("UNANALYSABLE|smt", "stdlib/asm/collections/smt.masm", str(e)[:200])
        return
    consts = {m.group(1): int(m.group(2)) for m in re.finditer(r"^const\.(\w+)=(\d+)", txt, re.M)}
    ZERO = (("c", 0),) * 4
    n_auth = 0
    for proc, layout in (("get", ["K", "R"]), ("set", ["V", "K", "R"])):
        if proc not in M.procs:
            continue
        loc = "stdlib/asm/collections/smt.masm:%d" % M.procs[proc].line
        stack = []
        for w in layout:
            stack += [("in", w, 3 - j) for j in range(4)]
        stack += [("deep", i) for i in range(len(stack), 40)]
        K = tuple(("in", "K", 3 - j) for j in range(4))
        try:
            finals = SmtFlow(M, consts).run(M.procs[proc].body, stack, [])
        except (Undecided, MasmError, IndexError) as e:
            ctx.inst(key="smt-values::" + proc, nontrivial=True)
            ctx.violation("UNANALYSABLE|smt-values::%s" % proc, loc, str(e)[:300])
            continue
        reported = set()
        for pi, (st, ev) in enumerate(finals):
            W = tuple(st[:4])
            ctx.inst(key="smt-values::%s|path%d" % (proc, pi), nontrivial=True)
            taken = {e[2] for e in ev if e[0] == "branch" and e[3] is True}
            eqws = [e for e in ev if e[0] == "eqw"]
            asserts = [frozenset((e[2], e[3])) for e in ev if e[0] == "assert_eqw"]
            store_born = lambda w: all(isinstance(x, tuple) and x[0] == "f" and re.match(r"^(node|old)\d$", str(x[2])) for x in w)
            advice_born = lambda w: all(isinstance(x, tuple) and x[0] == "f" and x[2] == "advice" for x in w)

            def same_as_key(x):
                if x == K or frozenset((x, K)) in asserts:
                    return True
                return any(frozenset((e[2], e[3])) == frozenset((x, K)) and e[4] in taken for e in eqws)
            bad = None
            if advice_born(W):
                n_auth += 1
                hm = [e for e in ev if e[0] == "hmerge" and e[3] == W]
                ok = False
                for e in hm:
                    checked = any(e[4] in a and any(store_born(w) for w in a if w != e[4]) for a in asserts)
                    if checked and same_as_key(e[2]):
                        ok = True
                if not ok:
                    if not hm:
                        bad = "the value read from the advice stack is returned without being hashed into the leaf"
                    elif not any(same_as_key(e[2]) for e in hm):
                        bad = "the value read from the advice stack is authenticated against the leaf hash, but the key stored in that leaf is never compared with the requested key: the value of another key with the same leaf index is returned"
                    else:
                        bad = "the hash of the leaf pre-image is not asserted equal to the node delivered by the Merkle store"
            elif store_born(W):
                if not any(frozenset((e[2], e[3])) == frozenset((W, ZERO)) and e[4] in taken for e in eqws):
                    bad = "a tree node is returned as the value without having been compared with the empty word"
            elif W != ZERO and not all(isinstance(x, tuple) and x[0] == "in" for x in W):
                bad = "the returned value %s is neither an authenticated advice word, the empty word nor an input" % (W[:1],)
            ctx.oblig(bad is None)
            if bad and (proc, bad) not in reported:
                reported.add((proc, bad))
                ctx.violation("smt-unauthenticated-value|%s" % proc, loc, "smt::%s: %s" % (proc, bad))
    ctx.floor("smt-authenticated-values", n_auth, 3)
    # completeness of get on an occupied leaf: the leaf index is K[3] only, so a key that was never inserted can share its leaf
    # with an inserted key; the native tree returns the empty word for it, so the comparison of the leaf's key with the
    # requested key must be a decision with an empty-word outcome, not an assertion
    if "get" in M.procs:
        loc = "stdlib/asm/collections/smt.masm:%d" % M.procs["get"].line
        stack = [("in", w, 3 - j) for w in ("K", "R") for j in range(4)]
        stack += [("deep", i) for i in range(len(stack), 40)]
        K = tuple(("in", "K", 3 - j) for j in range(4))
        ctx.inst(key="smt-values::get|other-key-in-leaf", nontrivial=True)
        try:
            finals = SmtFlow(M, consts).run(M.procs["get"].body, stack, [])
        except (Undecided, MasmError, IndexError) as e:
            ctx.violation("UNANALYSABLE|smt-values::get", loc, str(e)[:300])
            return
        ok = False
        for st, ev in finals:
            not_taken = {e[2] for e in ev if e[0] == "branch" and e[3] is False}
            differs = any(e[0] == "eqw" and K in (e[2], e[3]) and e[4] in not_taken and all(isinstance(x, tuple) and x[0] == "f" and x[2] == "advice" for x in (e[2] if e[3] == K else e[3])) for e in ev)
            if differs and tuple(st[:4]) == ZERO and any(e[0] == "hmerge" for e in ev):
                ok = True
        ctx.oblig(ok)
        if not ok:
            ctx.violation("smt-get-other-key-in-leaf", loc, "smt::get has no completing path that returns the empty word for a requested key that differs from the key stored in the (single) leaf "
                          "it maps to; the documentation and the native Smt::get_value give the empty word there")


# ---- R4: Merkle mountain range procedures ---------------------------------------------------------------------------------------
MMR = "/repo/stdlib/asm/collections/mmr.masm"


def mmr_peaks(n):
    """peak sizes of an MMR with n leaves, largest first"""
    return [1 << b for b in range(n.bit_length() - 1, -1, -1) if (n >> b) & 1]


def mmr_owner(n, pos):
    """(index of the owning peak, its depth, position of the leaf inside it) as the native Mmr addresses leaf `pos`"""
    before = 0
    for i, size in enumerate(mmr_peaks(n)):
        if pos < before + size:
            return i, size.bit_length() - 1, pos - before
        before += size
    return None


def r4_mmr(ctx, F):
    from . import mmrflow
    from .mmrflow import TermFlow, tev, Fail, bit_paths, compatible
    loc0 = "stdlib/asm/collections/mmr.masm"
    try:
        M = Module(MMR)
    except (MasmError, OSError) as e:
        ctx.violation("UNANALYSABLE|mmr", loc0, str(e)[:200])
        return

    def ploc(name):
        return "%s:%d" % (loc0, M.procs[name].line) if name in M.procs else loc0
    # -- (a) loop helpers: bit-cube paths against the reference cubes
    def tones_ref(w):
        return [({**{i: 1 for i in range(k)}, **({k: 0} if k < w else {})}, [k]) for k in range(w + 1)]
    ilog_ref = [({**{k: 1}, **{i: 0 for i in range(k + 1, 32)}}, [k, 1 << k]) for k in range(32)] + [({i: 0 for i in range(32)}, None)]
    decided = set()
    for name, width, ref in (("u32unchecked_trailing_ones", 32, tones_ref(32)), ("trailing_ones", 64, tones_ref(64)), ("ilog2_checked", 32, ilog_ref)):
        ctx.inst(key="mmr::" + name, nontrivial=True)
        if name not in M.procs:
            ctx.violation("mmr-procedure-missing|%s" % name, loc0, "procedure %s not found" % name)
            continue
        try:
            paths = bit_paths(M, name, width)
        except (Undecided, MasmError, IndexError) as e:
            ctx.violation("UNANALYSABLE|mmr::%s" % name, ploc(name), str(e)[:300])
            continue
        bad = None
        for cube, kind, detail in paths:
            for rc, want in ref:
                if not compatible(cube, rc):
                    continue
                if kind == "diverge":
                    bad = "does not terminate for operands with bits %s (%s)" % (cube, detail)
                elif want is None:
                    if kind != "fail":
                        bad = "completes for operands with bits %s; documented to fail" % cube
                elif kind != "ok":
                    bad = "fails (%s) for operands with bits %s; expected %s" % (detail, cube, want)
                else:
                    got = detail[:len(want)]
                    rest = detail[len(want):len(want) + 8]
                    if got != want or rest != [("deep", i) for i in range(1, 9)]:
                        bad = "for operands with bits %s leaves %s / %s; expected %s above the untouched stack" % (cube, got, rest[:3], want)
                if bad:
                    break
            if bad:
                break
        ctx.oblig(bad is None)
        ctx.analysed("mmr::%s: %d bit-cube paths" % (name, len(paths)))
        if bad:
            ctx.violation("mmr-helper|%s" % name, ploc(name), "mmr::%s %s" % (name, bad))
        else:
            decided.add(name)
    contracts = {k: v for k, v in TermFlow.CONTRACTS.items() if k in decided}

    def extract(name, stack):
        X = TermFlow(M, contracts)
        return X.run(M.procs[name].body, stack, [], [])

    def pick(paths, env):
        live = []
        for st, ev, gd in paths:
            ok = True
            for c, val in gd:
                if tev(c, env) != val:
                    ok = False
                    break
            if ok:
                live.append((st, ev))
        return live
    # -- (b) the two counting helpers
    for name, ref, dom in (("num_leaves_to_num_peaks", lambda n: bin(n).count("1"), list(range(0, 300)) + [2 ** 31, 2 ** 32 - 1, 2 ** 32, 2 ** 32 + 5, 2 ** 63 + 2 ** 31 + 1, 2 ** 64 - 2 ** 32]),
                           ("num_peaks_to_message_size", lambda n: max(16, n + (n & 1)), list(range(0, 70)))):
        ctx.inst(key="mmr::" + name, nontrivial=True)
        try:
            paths = extract(name, [("in", "x")] + [("deep", i) for i in range(1, 40)])
            bad = None
            for x in dom:
                live = pick(paths, {"x": x})
                if len(live) != 1:
                    bad = "%d paths at %d" % (len(live), x)
                    break
                st, ev = live[0]
                got = tev(st[0], {"x": x})
                if got != ref(x) or st[1:4] != [("deep", 1), ("deep", 2), ("deep", 3)] or ev:
                    bad = "at %d returns %s, expected %d" % (x, got, ref(x))
                    break
        except (Undecided, MasmError, IndexError, KeyError) as e:
            ctx.violation("UNANALYSABLE|mmr::%s" % name, ploc(name), str(e)[:300])
            continue
        except Fail as e:
            bad = "fails (%s)" % e
        ctx.oblig(bad is None)
        if bad:
            ctx.violation("mmr-count|%s" % name, ploc(name), "mmr::%s %s" % (name, bad))
    # -- (c) get: which peak is loaded, and which (depth, index, root) mtree_get is asked for
    ctx.inst(key="mmr::get", nontrivial=True)
    try:
        paths = extract("get", [("in", "pos"), ("in", "ptr")] + [("deep", i) for i in range(2, 40)])
    except (Undecided, MasmError, IndexError) as e:
        paths = None
        ctx.violation("UNANALYSABLE|mmr::get", ploc("get"), str(e)[:300])
    if paths is not None:
        top = 130 if ctx.tier != "thorough" else 700
        grid = [(n, pos) for n in range(1, top) for pos in range(n)]
        for n in (2 ** 31, 2 ** 32 - 1, 2 ** 31 + 1, 0xAAAAAAAA, 0x55555555, 0x80000001, 0xFFFF0000, 0x00010001):
            edges = {0, n - 1, n // 2}
            acc = 0
            for size in mmr_peaks(n):
                edges |= {acc, acc + size - 1}
                acc += size
            grid += [(n, pos) for pos in sorted(edges) if 0 <= pos < n]
        bad = None
        # positions past the end: the native structure reports InvalidPosition, so the procedure must not complete - it fails in
        # its own arithmetic / assertions, or asks mtree_get for an index that does not exist at that depth (the VM rejects it)
        past = [(n, pos) for n in range(1, 40 if ctx.tier != "thorough" else 200) for pos in range(n, 4 * n + 9)] + [(2 ** 31, 2 ** 31), (2 ** 31, 2 ** 32 - 1), (0xFFFFFFFF, 0xFFFFFFFF), (3, 2 ** 32 - 2), (5, 2 ** 31 + 4)]
        for n, pos in past:
            env = {"pos": pos, "ptr": 1000}
            completes = False
            for st, ev, gd in paths:
                e2 = dict(env)
                for e in ev:
                    if e[0] == "mem_load":
                        e2[e[3]] = n
                try:
                    if not all(tev(c, e2) == val for c, val in gd):
                        continue
                    for e in ev:
                        if e[0] in ("mem_loadw",):
                            tev(e[2], e2)
                    if any(e[0] == "assert" and tev(e[2], e2) != e[3] for e in ev):
                        continue                # a failing assertion: the procedure does not complete
                    mg = [e for e in ev if e[0] == "mtree_get"]
                    if mg:
                        d_, i_ = tev(mg[0][2], e2), tev(mg[0][3], e2)
                        if d_ > 63 or i_ >= 2 ** d_:
                            continue            # no such node: mtree_get fails
                    for x in st[:4]:
                        if isinstance(x, tuple) and x[0] not in ("f", "deep"):
                            tev(x, e2)
                    completes = True
                except Fail:
                    continue
            if completes:
                bad = "for num_leaves=%d the position %d is past the end, yet the procedure completes and returns a leaf (the native Mmr::get fails with InvalidPosition)" % (n, pos)
                break
        ctx.oblig(bad is None)
        if bad:
            ctx.violation("mmr-get-past-end", ploc("get"), "mmr::get: " + bad)
            bad = None
        for n, pos in grid:
            for ptr in (0, 1000):
                env = {"pos": pos, "ptr": ptr}
                idx, depth, rel = mmr_owner(n, pos)
                try:
                    # the value mem_load returns is the number of leaves
                    outcome = None
                    for st, ev, gd in paths:
                        e2 = dict(env)
                        loads = [e for e in ev if e[0] == "mem_load"]
                        for e in loads:
                            e2[e[3]] = n
                        if all(tev(c, e2) == val for c, val in gd):
                            if outcome is not None:
                                bad = "two paths at n=%d pos=%d" % (n, pos)
                            outcome = (st, ev, e2)
                    if outcome is None:
                        bad = bad or "no path at n=%d pos=%d" % (n, pos)
                        break
                    st, ev, e2 = outcome
                    loads = [e for e in ev if e[0] == "mem_load"]
                    lw = [e for e in ev if e[0] == "mem_loadw"]
                    mg = [e for e in ev if e[0] == "mtree_get"]
                    others = [e for e in ev if e[0] not in ("mem_load", "mem_loadw", "mtree_get", "assert")]
                    failing = [e for e in ev if e[0] == "assert" and tev(e[2], e2) != e[3]]
                    if failing:
                        bad = "the assertion at line %d fails at the valid position num_leaves=%d pos=%d" % (failing[0][1], n, pos)
                    elif len(loads) != 1 or tev(loads[0][2], e2) != ptr:
                        bad = "the number of leaves is not read from mmr_ptr"
                    elif len(lw) != 1 or tev(lw[0][2], e2) != ptr + 1 + idx:
                        bad = "at num_leaves=%d pos=%d the peak is loaded from mmr_ptr+%s; the owning peak is peak %d, stored at mmr_ptr+%d" % (n, pos, (tev(lw[0][2], e2) - ptr) if lw else None, idx, 1 + idx)
                    elif others:
                        bad = "unexpected effect %s" % others[0][0]
                    elif depth == 0:
                        if mg or tuple(st[:4]) != lw[0][3]:
                            bad = "at num_leaves=%d pos=%d (single-leaf peak) the peak itself must be returned" % (n, pos)
                    else:
                        if len(mg) != 1 or tev(mg[0][2], e2) != depth or tev(mg[0][3], e2) != rel or mg[0][4] != lw[0][3] or tuple(st[:4]) != mg[0][5]:
                            bad = "at num_leaves=%d pos=%d mtree_get is asked for (depth %s, index %s) of %s; expected (depth %d, index %d) of the loaded peak, returning the node" % (
                                n, pos, tev(mg[0][2], e2) if mg else None, tev(mg[0][3], e2) if mg else None, "the loaded peak" if mg and mg[0][4] == lw[0][3] else "another word", depth, rel)
                    if not bad and st[4:8] != [("deep", i) for i in range(2, 6)]:
                        bad = "the stack below the result is %s" % (st[4:8],)
                except Fail as e:
                    bad = "fails (%s) at the valid position num_leaves=%d pos=%d" % (e, n, pos)
                if bad:
                    break
            if bad:
                break
        ctx.oblig(bad is None)
        ctx.analysed("mmr::get: %d paths, evaluated at %d (num_leaves, pos) points" % (len(paths), len(grid)))
        if bad:
            ctx.violation("mmr-get", ploc("get"), "mmr::get: " + bad)
    # -- (d) add: prologue, generic loop iteration, epilogue
    ctx.inst(key="mmr::add", nontrivial=True)
    sp = split_loop(M.procs["add"].body) if "add" in M.procs else None
    if sp is None:
        ctx.violation("shape|mmr::add", ploc("add") if "add" in M.procs else loc0, "mmr::add no longer has exactly one loop")
        return
    pre, loop, suf = sp
    try:
        X = TermFlow(M, contracts)
        el = [("in", "el%d" % k) for k in range(4)]
        pres = X.run(pre, el + [("in", "ptr")] + [("deep", i) for i in range(5, 40)], [], [])
        body = TermFlow(M, contracts).run(loop[1], [("in", "w%d" % k) for k in range(4)] + [("in", "e%d" % k) for k in range(4)] + [("in", "cnt"), ("in", "end")] + [("deep", i) for i in range(10, 40)], [], [])
        sufs = TermFlow(M, contracts).run(suf, [("in", "w%d" % k) for k in range(4)] + [("in", "e%d" % k) for k in range(4)] + [("in", "cnt"), ("in", "end")] + [("deep", i) for i in range(10, 40)], [], [])
    except (Undecided, MasmError, IndexError) as e:
        ctx.violation("UNANALYSABLE|mmr::add", ploc("add"), str(e)[:300])
        return
    bad = None
    if len(pres) != 1 or len(body) != 1 or len(sufs) != 1:
        bad = "prologue / body / epilogue are expected to be straight-line"
    else:
        st, ev, gd = pres[0]
        loads = [e for e in ev if e[0] == "mem_load"]
        stores = [e for e in ev if e[0] == "mem_store"]
        for n in list(range(0, 300 if ctx.tier != "thorough" else 5000)) + [2 ** 31 - 1, 2 ** 31, 2 ** 32 - 2, 0xFFFF, 0x7FFFFFFF, 0xAAAAAAAA, 0x55555555]:
            for ptr in (0, 77):
                env = {"ptr": ptr}
                for e in loads:
                    env[e[3]] = n
                try:
                    t1 = 0
                    while (n >> t1) & 1:
                        t1 += 1
                    if len(loads) != 1 or tev(loads[0][2], env) != ptr:
                        bad = "the number of leaves is not read from mmr_ptr"
                    elif len(stores) != 1 or tev(stores[0][2], env) != ptr or tev(stores[0][3], env) != n + 1:
                        bad = "the prologue must store num_leaves + 1 at mmr_ptr"
                    elif [e for e in ev if e[0] not in ("mem_load", "mem_store")]:
                        bad = "unexpected effect in the prologue"
                    else:
                        guard, work = st[0], st[1:]
                        vals = [tev(x, env) if not (isinstance(x, tuple) and x[0] == "in" and x[1].startswith("el")) else x for x in work[:10]]
                        want = [0, 0, 0, 0] + el + [(-t1) % mmrflow.P, ptr + bin(n).count("1") + 1]
                        if vals != want or work[10:13] != [("deep", 5), ("deep", 6), ("deep", 7)]:
                            bad = "at num_leaves=%d the loop is entered with %s; expected [0,0,0,0, EL, -trailing_ones(num_leaves) = %d, mmr_ptr + num_peaks + 1 = %d]" % (n, vals, (-t1) % mmrflow.P, want[9])
                        elif tev(guard, env) != int(t1 != 0):
                            bad = "at num_leaves=%d the entry guard is %d; %d merges are needed" % (n, tev(guard, env), t1)
                except Fail as e:
                    bad = "the prologue fails (%s) at num_leaves=%d" % (e, n)
                if bad:
                    break
            if bad:
                break
    if not bad:
        st, ev, gd = body[0]
        lw = [e for e in ev if e[0] == "mem_loadw"]
        mm = [e for e in ev if e[0] == "mtree_merge"]
        sw = [e for e in ev if e[0] == "mem_storew"]
        E = [("in", "e%d" % k) for k in range(4)]
        for cnt, end in ((mmrflow.P - 1, 5), (mmrflow.P - 3, 40), (mmrflow.P - 31, 1000)):
            env = {"cnt": cnt, "end": end}
            if len(lw) != 1 or tev(lw[0][2], env) != end - 1:
                bad = "the loop body must load the last peak (at mmr_end - 1)"
            elif len(mm) != 1 or mm[0][2] != lw[0][3] or mm[0][3] != tuple(E):
                bad = "the loop body must merge (left = the loaded peak, right = the element being added); it merges left=%s right=%s" % (mm[0][2][:1] if mm else None, mm[0][3][:1] if mm else None)
            elif len(sw) != 1 or tev(sw[0][2], env) != end or any(x != 0 for x in sw[0][3]):
                bad = "the loop body must erase the slot at mmr_end with a zero word"
            elif len(ev) != 3:
                bad = "unexpected effect in the loop body"
            else:
                guard, work = st[0], st[1:]
                if tuple(work[4:8]) != mm[0][4] or tev(work[8], env) != (cnt + 1) % mmrflow.P or tev(work[9], env) != end - 1 or work[10:12] != [("deep", 10), ("deep", 11)]:
                    bad = "the loop body must leave [_, merged, -num_merges + 1, mmr_end - 1]; it leaves counter %s, end %s" % (tev(work[8], env), tev(work[9], env))
                elif tev(guard, env) != int((cnt + 1) % mmrflow.P != 0):
                    bad = "the end-of-body guard does not test the remaining merge count"
            if bad:
                break
    if not bad:
        st, ev, gd = sufs[0]
        sw = [e for e in ev if e[0] == "mem_storew"]
        env = {"cnt": 0, "end": 9}
        if len(ev) != 1 or len(sw) != 1 or tev(sw[0][2], env) != 9 or sw[0][3] != tuple(("in", "e%d" % k) for k in range(4)):
            bad = "the epilogue must store the merged element at mmr_end and nothing else"
        elif st[:3] != [("deep", 10), ("deep", 11), ("deep", 12)]:
            bad = "the epilogue must consume the working cells and leave the rest of the stack (%s)" % (st[:3],)
    ctx.oblig(bad is None)
    if bad:
        ctx.violation("mmr-add", ploc("add"), "mmr::add: " + bad)


# ---- R5: pipe_* procedures, hash_memory_even, mmr::pack / unpack ------------------------------------------------------------------
NATIVE = "/repo/stdlib/asm/crypto/hashes/native.masm"


def r5_hash_memory(ctx, decided):
    """native::hash_memory [start, end] -> [digest]: requires start < end, hashes the even prefix with hash_memory_even from the
    state [0 x 11, capacity[0] = is_odd(end - start)] and, for an odd word count, absorbs the last word mem[end - 1] with the
    padding [1,0,0,0]; the digest is word B of the final state"""
    from .mmrflow import PipeFlow, tev, Fail
    ctx.inst(key="native::hash_memory", nontrivial=True)
    try:
        M = Module(NATIVE)
        p = M.procs["hash_memory"]
        loc = "stdlib/asm/crypto/hashes/native.masm:%d" % p.line
        paths = PipeFlow(M, loops=decided).run(p.body, [("in", "sa"), ("in", "ea")] + [("deep", i) for i in range(2, 40)], [], [])
    except (Undecided, MasmError, OSError, KeyError, IndexError) as e:
        ctx.violation("UNANALYSABLE|native::hash_memory", "stdlib/asm/crypto/hashes/native.masm", str(e)[:300])
        return

    def val(x, env):
        return tev(x, env) if not (isinstance(x, tuple) and x and x[0] in ("f", "deep")) else x
    bad = None
    try:
        for sa, ea in [(a, a + n) for a in (0, 1, 2, 7, 1000, 1001) for n in range(1, 9)] + [(5, 5), (9, 3)]:
            env = {"sa": sa, "ea": ea}
            live = []
            for st, ev, gd in paths:
                try:
                    if all(tev(c, env) == v for c, v in gd):
                        live.append((st, ev))
                except Fail:
                    pass
            if len(live) != 1:
                bad = "%d paths for the range %d..%d" % (len(live), sa, ea)
                break
            st, ev = live[0]
            asserts = [e for e in ev if e[0] == "assert"]
            if ea <= sa:
                if not any(val(e[2], env) != e[3] for e in asserts):
                    bad = "an empty or reversed range (%d, %d) must be rejected" % (sa, ea)
                    break
                continue
            if any(val(e[2], env) != e[3] for e in asserts):
                bad = "the valid range %d..%d is rejected" % (sa, ea)
                break
            odd = (ea - sa) & 1
            L = [e for e in ev if e[0] == "hash_loop"]
            rest = [e for e in ev if e[0] not in ("hash_loop", "assert", "u32assert2")]
            if len(L) != 1 or [val(x, env) for x in L[0][2]] != [0] * 11 + [odd] or val(L[0][3], env) != sa or val(L[0][4], env) != ea - odd:
                bad = "for the range %d..%d the even prefix %d..%d must be absorbed from the state [0 x 11, capacity[0] = %d]; hash_memory_even gets (%s, %s) and capacity %s" % (
                    sa, ea, sa, ea - odd, odd, val(L[0][3], env) if L else None, val(L[0][4], env) if L else None, [val(x, env) for x in L[0][2]][8:] if L else None)
            elif not odd:
                if rest or tuple(st[:4]) != L[0][5][4:8] or st[4] != ("deep", 2):
                    bad = "for an even word count the result must be word B of the state left by hash_memory_even"
            else:
                kinds = [e[0] for e in rest]
                if kinds != ["mem_loadw", "hperm"] or val(rest[0][2], env) != ea - 1:
                    bad = "for the odd range %d..%d the last word mem[%d] must be loaded and absorbed once (%s at %s)" % (sa, ea, ea - 1, kinds, val(rest[0][2], env) if rest and rest[0][0] == "mem_loadw" else None)
                elif [val(x, env) for x in rest[1][2][:4]] != [0, 0, 0, 1] or rest[1][2][4:8] != rest[0][3] or rest[1][2][8:12] != L[0][5][8:12]:
                    bad = "the final permutation must absorb [padding 1,0,0,0 | last word | capacity]"
                elif tuple(st[:4]) != rest[1][3][4:8] or st[4] != ("deep", 2):
                    bad = "the result must be word B of the final state above the rest of the stack"
            if bad:
                break
    except (Undecided, Fail, KeyError, IndexError) as e:
        ctx.violation("UNANALYSABLE|native::hash_memory", loc, str(e)[:300])
        return
    ctx.oblig(bad is None)
    if bad:
        ctx.violation("native-hash-memory", loc, "native::hash_memory: " + bad)


def absorb_loops(ctx, only=None):
    """decides the two absorbing loops; returns the names whose contract may be used"""
    from . import mmrflow
    from .mmrflow import PipeFlow, TermFlow, tev, Fail
    deep = lambda a, b: [("deep", i) for i in range(a, b)]
    IN = lambda n: ("in", n)

    def val(x, env):
        try:
            return tev(x, env) if not (isinstance(x, tuple) and x[0] in ("f", "deep")) else x
        except (Undecided, Fail, KeyError):
            return x
    decided = set()
    # -- (a) the two absorbing loops
    for path, name, op, has_suffix in ((MEM, "pipe_double_words_to_memory", "adv_pipe", True), (NATIVE, "hash_memory_even", "mem_stream", False)):
        if only is not None and name not in only:
            continue
        key = "%s::%s" % ("mem" if path == MEM else "native", name)
        ctx.inst(key=key, nontrivial=True)
        loc = path.replace("/repo/", "")
        try:
            M = Module(path)
            p = M.procs[name]
            loc = "%s:%d" % (loc, p.line)
            sp = split_loop(p.body)
            if sp is None:
                ctx.violation("shape|%s" % key, loc, "%s no longer has exactly one loop" % key)
                continue
            pre, loop, suf = sp
            st0 = [IN("s%d" % i) for i in range(12)] + [IN("wp"), IN("ep")] + deep(14, 40)
            (st, ev, gd), = PipeFlow(M).run(pre, st0, [], [])
            (bs, bev, bgd), = PipeFlow(M).run(loop[1], st0, [], [])
            (ss, sev, sgd), = PipeFlow(M).run(suf, st0, [], [])
        except (Undecided, MasmError, OSError, KeyError, IndexError, ValueError) as e:
            ctx.violation("UNANALYSABLE|%s" % key, loc, str(e)[:300])
            continue
        bad = None
        is_guard = lambda g, a, b: isinstance(g, tuple) and g[0] == "neq" and (g[1:] == (a, b) or g[1:] == (b, a))
        if ev or not is_guard(st[0], IN("wp"), IN("ep")) or st[1:15] != st0[:14]:
            bad = "the entry guard must be write/start pointer != end pointer on the untouched state (it is %s)" % (st[0],)
        elif [e[0] for e in bev] != [op, "hperm"] or bev[0][2] != IN("wp"):
            bad = "the loop body must be one %s at the current pointer followed by one hperm (it performs %s)" % (op, [e[0] for e in bev])
        elif bev[1][2] != bev[0][3] + tuple(st0[8:12]):
            bad = "the permutation must absorb the two words just read into the rate and keep the capacity"
        elif tuple(bs[1:13]) != bev[1][3] or bs[13] != ("add", IN("wp"), 2) or bs[14] != IN("ep") or bs[15] != ("deep", 14):
            bad = "the loop body must leave [state', pointer + 2, end pointer]"
        elif not is_guard(bs[0], ("add", IN("wp"), 2), IN("ep")):
            bad = "the end-of-body guard must compare the advanced pointer with the end pointer (it is %s)" % (bs[0],)
        elif has_suffix and (sev or ss[:13] != st0[:13] or ss[13] != ("deep", 14)):
            bad = "the epilogue must remove the end pointer only"
        elif not has_suffix and (suf or sev):
            bad = "unexpected epilogue"
        ctx.oblig(bad is None)
        if bad:
            ctx.violation("absorb-loop|%s" % key, loc, "%s: %s" % (key, bad))
        else:
            decided.add(name)
    return decided


def r5_pipes(ctx, F):
    from . import mmrflow
    from .mmrflow import PipeFlow, TermFlow, tev, Fail
    deep = lambda a, b: [("deep", i) for i in range(a, b)]
    IN = lambda n: ("in", n)

    def val(x, env):
        try:
            return tev(x, env) if not (isinstance(x, tuple) and x[0] in ("f", "deep")) else x
        except (Undecided, Fail, KeyError):
            return x
    decided = absorb_loops(ctx)
    if len(decided) != 2:
        return
    r5_hash_memory(ctx, decided)
    MM = Module(MEM)

    def msgsize(n):
        k = bin(n).count("1")
        return max(16, k + (k & 1))
    # -- (b) pipe_words_to_memory
    ctx.inst(key="mem::pipe_words_to_memory", nontrivial=True)
    loc = "stdlib/asm/mem.masm:%d" % MM.procs["pipe_words_to_memory"].line
    try:
        paths = PipeFlow(MM, loops=decided).run(MM.procs["pipe_words_to_memory"].body, [IN("n"), IN("wp")] + deep(2, 40), [], [])
        bad = None
        for n in list(range(0, 12)) + [1000, 1001]:
            for wp in (0, 500):
                env = {"n": n, "wp": wp}
                live = [(st, ev) for st, ev, gd in paths if all(tev(c, env) == v for c, v in gd)]
                if len(live) != 1:
                    bad = "%d paths for num_words=%d" % (len(live), n)
                    break
                st, ev = live[0]
                odd = n & 1
                end = wp + n - odd
                L = ev[0] if ev and ev[0][0] == "pipe_loop" else None
                if L is None or [val(x, env) for x in L[2]] != [0] * 11 + [odd] or val(L[3], env) != wp or val(L[4], env) != end:
                    bad = "for num_words=%d the double-word loop must start from the state [0 x 11, capacity[0] = %d] with pointers (%d, %d); it gets %s" % (
                        n, odd, wp, end, None if L is None else ([val(x, env) for x in L[2]][8:], val(L[3], env), val(L[4], env)))
                elif not odd:
                    if len(ev) != 1 or tuple(st[:4]) != L[5][4:8] or val(st[4], env) != end or st[5] != ("deep", 2):
                        bad = "for an even num_words the result must be [digest (word B of the final state), write_ptr'] and nothing else"
                else:
                    kinds = [e[0] for e in ev]
                    if kinds != ["pipe_loop", "adv_loadw", "mem_storew", "hperm"]:
                        bad = "for an odd num_words the last word must be read from the advice stack, stored and absorbed once (%s)" % kinds
                    else:
                        w = ev[1][2]
                        if val(ev[2][2], env) != end or ev[2][3] != w:
                            bad = "the last word must be stored at the pointer the loop stopped at (%s)" % (val(ev[2][2], env),)
                        elif [val(x, env) for x in ev[3][2][:4]] != [0, 0, 0, 1] or ev[3][2][4:8] != w or ev[3][2][8:12] != L[5][8:12]:
                            bad = "the final permutation must absorb [padding 1,0,0,0 | last word | capacity]"
                        elif tuple(st[:4]) != ev[3][3][4:8] or val(st[4], env) != end + 1 or st[5] != ("deep", 2):
                            bad = "for an odd num_words the result must be [digest, write_ptr + num_words]"
                if bad:
                    break
            if bad:
                break
    except (Undecided, MasmError, KeyError, IndexError, Fail) as e:
        bad = None
        ctx.violation("UNANALYSABLE|mem::pipe_words_to_memory", loc, str(e)[:300])
    else:
        ctx.oblig(bad is None)
        if bad:
            ctx.violation("pipe-words", loc, "mem::pipe_words_to_memory: " + bad)
    # -- (c) pipe_preimage_to_memory
    ctx.inst(key="mem::pipe_preimage_to_memory", nontrivial=True)
    loc = "stdlib/asm/mem.masm:%d" % MM.procs["pipe_preimage_to_memory"].line
    try:
        com = tuple(IN("c%d" % i) for i in range(4))
        paths = PipeFlow(MM, loops=decided).run(MM.procs["pipe_preimage_to_memory"].body, [IN("n"), IN("wp")] + list(com) + deep(6, 40), [], [])
        bad = None
        for st, ev, gd in paths:
            digest = ev[-2][3][4:8] if len(ev) >= 2 and ev[-2][0] == "hperm" else (ev[-2][5][4:8] if len(ev) >= 2 and ev[-2][0] == "pipe_loop" else None)
            if not ev or ev[-1][0] != "assert_eqw" or {ev[-1][2], ev[-1][3]} != {digest, com}:
                bad = "the computed digest must be compared with the commitment (assert_eqw on %s)" % ((ev[-1][2][:1], ev[-1][3][:1]) if ev else None,)
            elif st[1] != ("deep", 6) or not (isinstance(st[0], tuple) and st[0][0] in ("add", "in", "sub")):
                bad = "the result must be [write_ptr'] above the rest of the stack"
            if bad:
                break
        if len(paths) != 2:
            bad = bad or "%d paths" % len(paths)
    except (Undecided, MasmError, KeyError, IndexError, Fail) as e:
        ctx.violation("UNANALYSABLE|mem::pipe_preimage_to_memory", loc, str(e)[:300])
    else:
        ctx.oblig(bad is None)
        if bad:
            ctx.violation("pipe-preimage", loc, "mem::pipe_preimage_to_memory: " + bad)
    # -- (d) mmr::unpack, (e) mmr::pack
    try:
        M = Module(MMR)
    except (MasmError, OSError) as e:
        ctx.violation("UNANALYSABLE|mmr", "stdlib/asm/collections/mmr.masm", str(e)[:200])
        return
    grid = list(range(0, 70)) + [0xFFFF, 0x1FFFF, 0xFFFFF, 0xFFFFFFFF, 0x80000000]
    ctx.inst(key="mmr::unpack", nontrivial=True)
    loc = "stdlib/asm/collections/mmr.masm:%d" % M.procs["unpack"].line
    try:
        H = tuple(IN("h%d" % i) for i in range(4))
        (st, ev, gd), = PipeFlow(M, loops=decided).run(M.procs["unpack"].body, list(H) + [IN("ptr")] + deep(5, 40), [], [])
        kinds = [e[0] for e in ev]
        want = ["adv.push_mapval"] + ["adv_push"] * 4 + ["mem_store"] + ["adv_pipe", "hperm"] * 8 + ["pipe_loop", "assert_eqw"]
        bad = None
        if kinds != want:
            bad = "expected the effects %s, found %s" % (want, kinds)
        elif ev[0][2] != H:
            bad = "the advice map must be queried with the MMR hash"
        else:
            nvar = ev[1][2]          # first value popped from the advice stack
            pipes = [e for e in ev if e[0] == "adv_pipe"]
            perms = [e for e in ev if e[0] == "hperm"]
            L = ev[-2]
            for n in grid:
                for ptr in (0, 3000):
                    env = {"ptr": ptr, nvar: n}
                    if val(ev[5][2], env) != ptr or ev[5][3] != nvar:
                        bad = "the first advice value (num_leaves) must be stored at mmr_ptr"
                    elif [val(e[2], env) for e in pipes] != [ptr + 1 + 2 * i for i in range(8)]:
                        bad = "the first sixteen words must be piped to mmr_ptr + 1 .. mmr_ptr + 16 (%s)" % [val(e[2], env) - ptr for e in pipes]
                    elif [val(x, env) for x in perms[0][2][8:12]] != [0, 0, 0, 0] or any(perms[i][2] != pipes[i][3] + (perms[i - 1][3][8:12] if i else perms[0][2][8:12]) for i in range(8)):
                        bad = "each permutation must absorb the two words just piped on top of the previous capacity (zero at the start)"
                    elif L[2] != perms[7][3] or val(L[3], env) != ptr + 17 or val(L[4], env) != ptr + 1 + msgsize(n):
                        bad = "for num_leaves=%d the remaining words must be piped from mmr_ptr + 17 up to mmr_ptr + 1 + %d (got %s .. %s)" % (n, msgsize(n), val(L[3], env) - ptr, val(L[4], env) - ptr)
                    elif {ev[-1][2], ev[-1][3]} != {L[5][4:8], H}:
                        bad = "the digest of the piped data must be compared with the MMR hash"
                    elif st[:3] != deep(5, 8):
                        bad = "the working cells must be consumed"
                    if bad:
                        break
                if bad:
                    break
    except (Undecided, MasmError, KeyError, IndexError, ValueError, Fail) as e:
        ctx.violation("UNANALYSABLE|mmr::unpack", loc, str(e)[:300])
    else:
        ctx.oblig(bad is None)
        if bad:
            ctx.violation("mmr-unpack", loc, "mmr::unpack: " + bad)
    ctx.inst(key="mmr::pack", nontrivial=True)
    loc = "stdlib/asm/collections/mmr.masm:%d" % M.procs["pack"].line
    try:
        (st, ev, gd), = PipeFlow(M, loops=decided).run(M.procs["pack"].body, [IN("ptr")] + deep(1, 40), [], [])
        kinds = [e[0] for e in ev]
        bad = None
        if kinds != ["mem_load", "hash_loop", "adv.insert_mem"]:
            bad = "expected the effects [mem_load, hash_loop, adv.insert_mem], found %s" % kinds
        else:
            nvar = ev[0][3]
            L = ev[1]
            for n in grid:
                for ptr in (0, 3000):
                    env = {"ptr": ptr, nvar: n}
                    if val(ev[0][2], env) != ptr:
                        bad = "num_leaves must be read from mmr_ptr"
                    elif [val(x, env) for x in L[2]] != [0] * 12 or val(L[3], env) != ptr + 1 or val(L[4], env) != ptr + 1 + msgsize(n):
                        bad = "for num_leaves=%d the peaks mmr_ptr + 1 .. mmr_ptr + 1 + %d must be hashed from the zero state (got %s .. %s)" % (n, msgsize(n), val(L[3], env) - ptr, val(L[4], env) - ptr)
                    elif ev[2][2] != L[5][4:8] or val(ev[2][3], env) != ptr or val(ev[2][4], env) != ptr + 1 + msgsize(n):
                        bad = "adv.insert_mem must be keyed by the digest and cover mmr_ptr .. peaks_end"
                    elif tuple(st[:4]) != L[5][4:8] or st[4] != ("deep", 1):
                        bad = "the result must be [HASH] above the rest of the stack"
                    if bad:
                        break
                if bad:
                    break
    except (Undecided, MasmError, KeyError, IndexError, ValueError, Fail) as e:
        ctx.violation("UNANALYSABLE|mmr::pack", loc, str(e)[:300])
    else:
        ctx.oblig(bad is None)
        if bad:
            ctx.violation("mmr-pack", loc, "mmr::pack: " + bad)


def r5_native(ctx, F):
    """the native RPO memory hasher alone (also run under C17)"""
    decided = absorb_loops(ctx, only=("hash_memory_even",))
    if "hash_memory_even" in decided:
        r5_hash_memory(ctx, decided)


def run(ctx, F):
    ctx.trusted += ["vlib/masm.py (MASM parser, positional word model for loc_storew/loc_loadw/mem_loadw/mem_storew, C05's data-movement table)",
                    "loop lemma: a loop whose body only drops words and whose guard is depth != 16 ends with depth 16; a loop that copies mem[r] to mem[w] and increments r, w and a counter from -n to 0 copies n consecutive words"]
    ctx.assumptions += ["collections::smt: only the addressing of the Merkle operations and the returned root are decided (C18-R3); collections::mmr: get / add / helpers decided for valid positions (C18-R4), pack / unpack not decided", "pipe_* procedures: only the loop-guard agreement is decided"]
    ctx.run_rule("C18-R1", "truncate_stack saves the top 16 in locals, loops only dropping words until depth 16, and restores the saved words to their original positions", r1_truncate, F)
    ctx.run_rule("C18-R3", "smt::get / smt::set: on every path each mtree_get / mtree_set / mtree_verify is addressed by (LEAF_DEPTH = 64, K[3], current root) and the returned root is the input root or the one produced by the last mtree_set (provenance interpretation of smt.masm)", r3_smt, F)
    ctx.run_rule("C18-R3b", "smt::get / smt::set: an advice-supplied value is returned only after hmerge(key', value) was asserted equal to a word from the Merkle store and key' was tied to the requested key; a node is returned as value only when it equals the empty word", r3b_smt_values, F)
    ctx.run_rule("C18-R4", "collections::mmr: the loop helpers (trailing ones, ilog2) decided on bit cubes; get loads the owning peak and asks mtree_get for (depth, index) of the leaf inside it; add stores num_leaves + 1, merges trailing_ones(num_leaves) times (left = last peak, right = element) erasing merged slots, and stores the result as the new last peak", r4_mmr, F)
    ctx.run_rule("C18-R5", "pipe_double_words_to_memory / hash_memory_even absorb two words per iteration until the pointers meet; pipe_words_to_memory, pipe_preimage_to_memory, mmr::pack and mmr::unpack drive them with the documented state, addresses, padding and digest comparison", r5_pipes, F)
    ctx.run_rule("C18-R2", "mem.masm loops: entry guard and end-of-body guard are the same function of the loop-carried stack; memcopy's body copies one word and advances the three counters; prologue/epilogue as documented", r2_mem_loops, F)

"""C18 — standard-library memory / stack utilities keep their contracts. Decided parts (stdlib/asm/sys.masm, mem.masm):
R1  truncate_stack: the four saved words are restored to their original positions on a 16-deep stack whatever the loop left
    there (save prefix and restore suffix are executed symbolically around a summarised loop whose body only drops words and
    whose exit condition is depth == 16), so exactly the original top 16 remain
R2  loops of mem.masm: (a) the loop guard computed before the loop and the one recomputed at the end of the body are the same
    function of the loop-carried stack (same cells, same comparison); (b) memcopy's body copies the word at the read pointer
    to the write pointer and advances read pointer, write pointer and counter by one each; (c) the epilogue leaves the
    documented result (for memcopy: the untouched rest of the stack)
The sparse-Merkle-tree and Merkle-mountain-range procedures are not decided."""
import re
from .masm import *
from . import rules_c05

LEVEL = "other"
SYS = "/repo/stdlib/asm/sys.masm"
MEM = "/repo/stdlib/asm/mem.masm"


def split_loop(body):
    """(prefix, while-node, suffix) for a body with exactly one top-level while.true"""
    idx = [i for i, n in enumerate(body) if n[0] == "while"]
    if len(idx) != 1:
        return None
    i = idx[0]
    return body[:i], body[i], body[i + 1:]


def generic_state(n=40, prefix="g"):
    st = State()
    st.stack = [Val(ZP.var("%s%d" % (prefix, i)), P - 1) for i in range(n)] + [Val(ZP.var("deep%d" % i), P - 1) for i in range(n, 80)]
    return st


def run_nodes(X, st, nodes):
    out = []
    X.run_block(st, nodes, out, [5000])
    if len(out) != 1:
        raise Undecided("%d paths" % len(out))
    return out[0]


def guard_shape(cond, state_after_pop):
    """describe a loop guard as (kind, cell indexes of the loop-carried stack it tests, negated)"""
    f = cond.b
    neg = False
    while f is not None and f[0] == "not":
        neg = not neg
        f = f[1]
    if f is None or f[0] != "eq0":
        if cond.tag and cond.tag[0] == "sdepth":
            return ("depth",)
        return None
    d = f[1]
    cells = []
    rest = d
    for i, v in enumerate(state_after_pop[:32]):
        if v.z.is_zero() or v.z.const_value() is not None:
            continue
    # express d as a combination of cells: d == cell_i - const  or cell_i - cell_j
    for i, v in enumerate(state_after_pop[:32]):
        if v.z.const_value() is not None:
            continue
        c = (d - v.z).const_value()
        if c is not None:
            return ("cmp-const", (i,), -c, neg)
        for j, w in enumerate(state_after_pop[:32]):
            if j != i and w.z.const_value() is None and (d - (v.z - w.z)).is_zero():
                return ("cmp-cells", (i, j), 0, neg)
    if d.vars() and all(v.startswith("depth@") for v in d.vars()):
        return ("depth", (), -(d - ZP.var(next(iter(d.vars())))).const_value(), neg)
    return None


def r1_truncate(ctx, F):
    M = Module(SYS)
    X = Exec(M, rules_c05.family_expected)
    p = M.procs["truncate_stack"]
    loc = "stdlib/asm/sys.masm:%d" % p.line
    ctx.inst(key="sys::truncate_stack", nontrivial=True)
    sp = split_loop(p.body)
    if sp is None:
        ctx.violation("shape|truncate_stack", loc, "truncate_stack no longer has exactly one loop")
        return
    pre, loop, suf = sp
    st = generic_state(24, "t")
    try:
        st = run_nodes(X, st, pre)
    except (Undecided, MasmError) as e:
        ctx.violation("UNANALYSABLE|truncate_stack", loc, str(e)[:300])
        return
    # before the loop: the top 16 are saved in locals 0..3 word by word and removed from the stack; the guard is depth != 16
    cond = st.stack[0]
    after = st.stack[1:]
    saved = {k[1]: [repr(v.z) for v in w] for k, w in st.mem.items()}
    want_saved = {k: ["t%d" % (4 * k + i) for i in range(4)] for k in range(4)}
    ok = saved == want_saved and repr(after[0].z) == "t16"
    ctx.oblig(ok)
    if not ok:
        ctx.violation("truncate-save", loc, "before the loop the locals hold %s and the stack top is %s; expected words 0..3 of the original stack saved in locals 0..3 and removed" % (saved, repr(after[0].z)))
    g0 = guard_shape(cond, after)
    # loop body on a generic stack: only drops; guard recomputed as depth != 16
    b = generic_state(24, "b")
    try:
        b = run_nodes(X, b, loop[1])
    except (Undecided, MasmError) as e:
        ctx.violation("UNANALYSABLE|truncate_stack-loop", loc, str(e)[:300])
        return
    g1 = guard_shape(b.stack[0], b.stack[1:])
    body_after = [repr(v.z) for v in b.stack[1:9]]
    ok = g0 == g1 and g0 is not None and g0[0] == "depth" and g0[2] == 16 and g0[3] is True and re.match(r"^b\d+$", body_after[0]) is not None \
        and all(body_after[i] == "b%d" % (int(body_after[0][1:]) + i) for i in range(8)) and not [n for n in b.notes if n[0] not in ("sdepth",)]
    ctx.oblig(ok)
    if not ok:
        ctx.violation("truncate-loop", loc, "the loop must only drop words while depth != 16 (entry guard %s, end-of-body guard %s, body leaves %s, effects %s)" % (g0, g1, body_after[:3], [n[0] for n in b.notes]))
    # after the loop the stack holds exactly 16 unknown cells; the suffix must rebuild the original top 16
    e = State()
    e.stack = [Val(ZP.var("junk%d" % i), P - 1) for i in range(16)] + [Val(ZP.var("below%d" % i), P - 1) for i in range(64)]
    e.mem = dict(st.mem)
    try:
        e = run_nodes(X, e, suf)
    except (Undecided, MasmError) as ex:
        ctx.violation("UNANALYSABLE|truncate_stack-restore", loc, str(ex)[:300])
        return
    got = [repr(v.z) for v in e.stack[:17]]
    want = ["t%d" % i for i in range(16)] + ["below0"]
    ok = got == want
    ctx.oblig(ok)
    ctx.sample({"procedure": "sys::truncate_stack", "saved_locals": saved, "entry_guard": str(g0), "restored_top16": got[:16]})
    if not ok:
        ctx.violation("truncate-restore", loc, "after the loop the restore sequence yields %s; expected the original top 16 in order and nothing else" % got)


def r2_mem_loops(ctx, F):
    M = Module(MEM)
    X = Exec(M, rules_c05.family_expected)
    nloops = 0
    for name in M.order:
        p = M.procs[name]
        loc = "stdlib/asm/mem.masm:%d" % p.line
        sp = split_loop(p.body)
        if sp is None:
            continue
        nloops += 1
        pre, loop, suf = sp
        key = "mem::" + name
        ctx.inst(key=key, nontrivial=True)
        st = generic_state(24, "i")
        try:
            st = run_nodes(X, st, pre)
            g0 = guard_shape(st.stack[0], st.stack[1:])
            b = generic_state(24, "b")
            b = run_nodes(X, b, loop[1])
            g1 = guard_shape(b.stack[0], b.stack[1:])
        except (Undecided, MasmError) as e:
            ctx.violation("UNANALYSABLE|%s" % key, loc, str(e)[:300])
            continue
        ok = g0 is not None and g0 == g1
        ctx.oblig(ok)
        ctx.sample({"procedure": key, "entry_guard": str(g0), "end_of_body_guard": str(g1)})
        if not ok:
            ctx.violation("loop-guard|%s" % key, loc, "%s: the loop guard before the loop tests %s of the loop-carried stack, the guard at the end of the body tests %s: the first iteration is decided by a different quantity than the following ones" % (key, g0, g1))
        if name == "memcopy":
            # layout after the guard is popped: [0,0,0,0, counter, read_ptr, write_ptr, ...]
            after = b.stack[1:]
            loads = [n for n in b.notes if n[0] == "mem_loadw"]
            stores = [n for n in b.notes if n[0] == "mem_storew"]
            ok = len(loads) == 1 and len(stores) == 1 and repr(loads[0][1]) == "b5" and repr(stores[0][1]) == "b6" and [repr(x) for x in stores[0][2]] == [repr(x) for x in loads[0][2]] \
                and [repr(after[i].z) for i in (4, 5, 6)] == ["1 + b4", "1 + b5", "1 + b6"] and [repr(after[i].z) for i in range(7, 12)] == ["b%d" % i for i in range(7, 12)]
            ctx.oblig(ok)
            if not ok:
                ctx.violation("memcopy-body", loc, "memcopy's loop body must load the word at the read pointer (cell 5), store it at the write pointer (cell 6) and add 1 to counter, read pointer and write pointer: loads %s stores %s next state %s"
                              % ([(repr(n[1])) for n in loads], [(repr(n[1]), [repr(x) for x in n[2]]) for n in stores], [repr(after[i].z) for i in range(4, 8)]))
            # prefix: counter = -n, pointers in place; suffix: everything consumed
            init = [repr(v.z) for v in st.stack[1:8]]
            ok = init == ["0", "0", "0", "0", "-i0", "i1", "i2"]
            ctx.oblig(ok)
            if not ok:
                ctx.violation("memcopy-init", loc, "memcopy must enter the loop with [0,0,0,0,-n,read_ptr,write_ptr]: %s" % init)
            e = generic_state(24, "x")
            try:
                e = run_nodes(X, e, suf)
                ok = [repr(v.z) for v in e.stack[:4]] == ["x7", "x8", "x9", "x10"]
            except (Undecided, MasmError) as ex:
                ok = False
            ctx.oblig(ok)
            if not ok:
                ctx.violation("memcopy-epilogue", loc, "memcopy must drop its 7 working cells and leave the rest of the stack")
    ctx.floor("mem-loops", nloops, 2)


# ---- R3: sparse Merkle tree procedures address the tree by (LEAF_DEPTH, K[3], current root) --------------------------------
SMT = "/repo/stdlib/asm/collections/smt.masm"


class SmtFlow:
    """provenance interpretation of smt.masm: values are input elements, constants or fresh results (advice, hashes, Merkle
    results); every path through if.true/else is followed; Merkle instructions record their operands"""
    def __init__(self, module, consts):
        self.m, self.consts = module, consts
        self.n = 0

    def fresh(self, tag):
        self.n += 1
        return ("f", self.n, tag)

    def move(self, stack, name):
        exp = rules_c05.family_expected(name)
        if exp is None or "ok" not in exp:
            return False
        while len(stack) < 40:
            stack.append(("deep", len(stack)))
        new = []
        for x in exp["ok"]:
            if x.const_value() == 0:
                new.append(("c", 0))
            else:
                (v,) = x.vars()
                new.append(stack[int(v[1:])])
        stack[:] = new + stack[32:]
        return True

    def run(self, body, stack, events, depth=0):
        """returns the list of (stack, events) at the end of the block, one per path"""
        states = [(list(stack), list(events))]
        for node in body:
            nxt = []
            for st, ev in states:
                if node[0] == "ins":
                    self.step(node[1], node[2], st, ev, depth, nxt)
                elif node[0] == "if":
                    st.pop(0)
                    nxt += self.run(node[1], st, ev, depth)
                    nxt += self.run(node[2], st, ev, depth)
                else:
                    raise Undecided("%s: control flow %s" % (self.m.path, node[0]))
            states = nxt
            if len(states) > 256:
                raise Undecided("too many paths")
        return states

    def step(self, ins, ln, st, ev, depth, out):
        parts = ins.split(".")
        op, imm = parts[0], parts[1:]
        while len(st) < 40:
            st.append(("deep", len(st)))
        if op == "exec":
            name = ".".join(imm)
            if name not in self.m.procs or depth > 8:
                raise Undecided("%s:%d: exec %s" % (self.m.path, ln, name))
            out += self.run(self.m.procs[name].body, st, ev, depth + 1)
            return
        fam = {"dup": "Dup", "swap": "Swap", "movup": "MovUp", "movdn": "MovDn", "dupw": "DupW", "swapw": "SwapW", "movupw": "MovUpW", "movdnw": "MovDnW"}
        done = True
        if op in fam:
            default = {"dup": 0, "swap": 1, "dupw": 0, "swapw": 1}.get(op)
            n = int(imm[0]) if imm else default
            if not self.move(st, "%s%d" % (fam[op], n)):
                raise Undecided("%s:%d: %s" % (self.m.path, ln, ins))
        elif op in ("drop", "dropw", "padw"):
            self.move(st, {"drop": "Drop", "dropw": "DropW", "padw": "PadW"}[op])
        elif op == "push":
            for x in imm:
                v = self.consts.get(x, None)
                if v is None:
                    v = int(x, 16) if x.startswith("0x") else int(x)
                st.insert(0, ("c", v))
        elif op == "eqw":
            st.insert(0, self.fresh("flag"))
        elif op in ("eq", "neq"):
            if not imm:
                st.pop(0)
            st.pop(0)
            st.insert(0, self.fresh("flag"))
        elif op in ("assert_eqw",):
            del st[:8]
        elif op in ("assert", "assertz"):
            v = st.pop(0)
            if v[0] == "c" and ((op == "assertz" and v[1] != 0) or (op == "assert" and v[1] != 1)):
                return          # an assertion on a constant that always fails: the path does not complete (unimplemented case)
        elif op == "adv_push":
            for _ in range(int(imm[0])):
                st.insert(0, self.fresh("advice"))
        elif op == "adv":
            pass
        elif op == "hmerge":
            del st[:8]
            h = self.fresh("hash")
            st[:0] = [("f", h[1], "hash%d" % i) for i in range(4)]
        elif op == "mtree_get":
            d, i, root = st[0], st[1], tuple(st[2:6])
            ev.append(("mtree_get", ln, d, i, root))
            del st[:2]
            v = self.fresh("node")
            st[:0] = [("f", v[1], "node%d" % k) for k in range(4)]
        elif op == "mtree_set":
            d, i, root, val = st[0], st[1], tuple(st[2:6]), tuple(st[6:10])
            del st[:10]
            v = self.fresh("set")
            newroot = tuple(("f", v[1], "newroot%d" % k) for k in range(4))
            ev.append(("mtree_set", ln, d, i, root, newroot))
            st[:0] = [("f", v[1], "old%d" % k) for k in range(4)] + list(newroot)
        elif op == "mtree_verify":
            ev.append(("mtree_verify", ln, st[4], st[5], tuple(st[6:10])))
        else:
            raise Undecided("%s:%d: instruction %s is outside the SMT provenance model" % (self.m.path, ln, ins))
        out.append((st, ev))


def r3_smt(ctx, F):
    try:
        M = Module(SMT)
        txt = open(SMT).read()
    except (MasmError, OSError) as e:
        ctx.violation("UNANALYSABLE|smt", "stdlib/asm/collections/smt.masm", str(e)[:200])
        return
    consts = {m.group(1): int(m.group(2)) for m in re.finditer(r"^const\.(\w+)=(\d+)", txt, re.M)}
    depth = consts.get("LEAF_DEPTH")
    ctx.inst(key="LEAF_DEPTH", nontrivial=True)
    ctx.oblig(depth == 64)
    if depth != 64:
        ctx.violation("smt-leaf-depth", "stdlib/asm/collections/smt.masm", "LEAF_DEPTH is %r; leaves of the sparse Merkle tree sit at depth 64" % depth)
    n_ops = 0
    for proc, layout in (("get", ["K", "R"]), ("set", ["V", "K", "R"])):
        if proc not in M.procs or not M.procs[proc].exported:
            ctx.violation("smt-procedure-missing|%s" % proc, "stdlib/asm/collections/smt.masm", "exported procedure %s not found" % proc)
            continue
        loc = "stdlib/asm/collections/smt.masm:%d" % M.procs[proc].line
        stack = []
        for w in layout:
            stack += [("in", w, 3 - j) for j in range(4)]       # element 3 of a word is on top
        stack += [("deep", i) for i in range(len(stack), 40)]
        root_in = tuple(("in", "R", 3 - j) for j in range(4))
        X = SmtFlow(M, consts)
        try:
            finals = X.run(M.procs[proc].body, stack, [])
        except (Undecided, MasmError, IndexError) as e:
            ctx.inst(key="smt::" + proc, nontrivial=True)
            ctx.violation("UNANALYSABLE|smt::%s" % proc, loc, str(e)[:300])
            continue
        ctx.inst(key="smt::%s" % proc, nontrivial=True)
        ctx.analysed("smt::%s: %d paths, Merkle operations per path %s" % (proc, len(finals), sorted(set(len(ev) for st, ev in finals))))
        seen = set()
        for st, ev in finals:
            cur_root = root_in
            for e in ev:
                n_ops += 1
                kind, ln, d, i, root = e[:5]
                for what, got, want in (("depth", d, ("c", 64)), ("index", i, ("in", "K", 3)), ("root", root, cur_root)):
                    ok = got == want
                    ctx.oblig(ok)
                    k = "smt-merkle-operand|%s|%s|%s" % (proc, kind, what)
                    if not ok and (k, ln) not in seen:
                        seen.add((k, ln))
                        ctx.violation(k, "stdlib/asm/collections/smt.masm:%d" % ln,
                                      "smt::%s: %s at line %d is given %s = %s; the tree is addressed by depth 64, the most significant key element K[3] and the current root (%s)"
                                      % (proc, kind, ln, what, got, want))
                if kind == "mtree_set":
                    cur_root = e[5]
            # returned root: [V, R] for get, [V_old, R_new] for set
            okr = tuple(st[4:8]) == cur_root
            ctx.oblig(okr)
            if not okr and ("ret", proc) not in seen:
                seen.add(("ret", proc))
                ctx.violation("smt-returned-root|%s" % proc, loc, "smt::%s leaves %s as the root; expected %s" % (proc, st[4:8], "the root produced by its last mtree_set" if cur_root != root_in else "the input root"))
    ctx.floor("smt-merkle-operations", n_ops, 6)


def run(ctx, F):
    ctx.trusted += ["vlib/masm.py (MASM parser, positional word model for loc_storew/loc_loadw/mem_loadw/mem_storew, C05's data-movement table)",
                    "loop lemma: a loop whose body only drops words and whose guard is depth != 16 ends with depth 16; a loop that copies mem[r] to mem[w] and increments r, w and a counter from -n to 0 copies n consecutive words"]
    ctx.assumptions += ["collections::smt: only the addressing of the Merkle operations and the returned root are decided (C18-R3); collections::mmr is not decided", "pipe_* procedures: only the loop-guard agreement is decided"]
    ctx.run_rule("C18-R1", "truncate_stack saves the top 16 in locals, loops only dropping words until depth 16, and restores the saved words to their original positions", r1_truncate, F)
    ctx.run_rule("C18-R3", "smt::get / smt::set: on every path each mtree_get / mtree_set / mtree_verify is addressed by (LEAF_DEPTH = 64, K[3], current root) and the returned root is the input root or the one produced by the last mtree_set (provenance interpretation of smt.masm)", r3_smt, F)
    ctx.run_rule("C18-R2", "mem.masm loops: entry guard and end-of-body guard are the same function of the loop-carried stack; memcopy's body copies one word and advances the three counters; prologue/epilogue as documented", r2_mem_loops, F)

"""Writer/reader agreement of serialisation code by abstract interpretation: write_into is interpreted on a symbolic
instance of the type with a recording ByteWriter; read_from is interpreted with a ByteReader that replays the
recorded token stream (kind + symbolic value). Widths, tags, order, counts and the rebuilt value are compared."""
import re
from .mirsym import *
from .facts import strip_targs
from . import procmodel


class SerdeMismatch(Exception):
    pass


_fresh = [0]


def fresh(prefix):
    _fresh[0] += 1
    return "%s%d" % (prefix, _fresh[0])


INT_TYS = {"u8", "u16", "u32", "u64", "usize", "i32", "i64"}


MODE = {"bool": False, "option": "Some"}


def split_top(s):
    parts, depth_, cur = [], 0, ""
    for ch in s:
        if ch in "<([":
            depth_ += 1
        if ch in ">)]":
            depth_ -= 1
        if ch == "," and depth_ == 0:
            parts.append(cur.strip())
            cur = ""
        else:
            cur += ch
    if cur.strip():
        parts.append(cur.strip())
    return parts


def gen(F, ty, depth=0, variant=None, owner=None):
    """one symbolic instance of a type (given as the pretty type string of the facts); booleans and Option
    variants are concrete and follow MODE (each type is analysed under both settings)"""
    ty = ty.strip()
    if ty.startswith("&"):
        return gen(F, ty.lstrip("&").replace("mut ", "").strip(), depth)
    if ty in INT_TYS:
        return Term(fresh(ty + "_"))
    if ty == "bool":
        return MODE["bool"]
    if ty.endswith("Felt") or ty.endswith("BaseElement"):
        return Poly.var(fresh("felt"))
    if ty.endswith("String") or ty == "str":
        return StrVal([Term(fresh("ch")) for _ in range(3)])
    m = re.match(r"^\[(.*); ([\w:]+)\]$", ty)
    if m:
        n = None
        if m.group(2).isdigit():
            n = int(m.group(2))
        else:
            cname = m.group(2).replace("Self::", (owner or "") + "::")
            for cid, c in F.consts.items():
                if cid == cname or cid.endswith("::" + cname.split("::")[-1]) and (owner is None or cid.startswith(owner)):
                    if isinstance(c["val"], int):
                        n = c["val"]
                        break
        if n is None:
            n = 4
        return Agg([gen(F, m.group(1), depth + 1) for _ in range(n)], "array")
    m = re.match(r"^(?:std|alloc)::vec::Vec<(.*)>$", ty)
    if m:
        return Agg([gen(F, m.group(1), depth + 1) for _ in range(2 if depth < 3 else 0)], "vec")
    m = re.match(r"^(?:std|core)::option::Option<(.*)>$", ty)
    if m:
        if variant == "None" or (variant is None and MODE["option"] == "None"):
            return Agg([], "adt", "core::option::Option", "None")
        return Agg([gen(F, m.group(1), depth + 1)], "adt", "core::option::Option", "Some")
    m = re.match(r"^(?:std|alloc)::collections::BTreeMap<(.*)>$", ty)
    if m:
        kt, vt = split_top(m.group(1))[:2]
        return Agg([Agg([gen(F, kt, depth + 1), gen(F, vt, depth + 1)], "tuple") for _ in range(2 if depth < 2 else 0)], "btreemap")
    m = re.match(r"^(?:std|alloc)::collections::BTreeSet<(.*)>$", ty)
    if m:
        return Agg([gen(F, m.group(1), depth + 1) for _ in range(2 if depth < 2 else 0)], "btreeset")
    if ty.startswith("(") and ty.endswith(")"):
        return Agg([gen(F, p_, depth + 1) for p_ in split_top(ty[1:-1])], "tuple")
    if ty.endswith("RpoDigest") or ty.endswith("hasher::Digest") or ty.endswith("::Digest"):
        return Agg([Agg([Poly.var(fresh("dg")) for _ in range(4)], "array")], "adt", "miden_crypto::hash::rescue::rpo::digest::RpoDigest", "RpoDigest")
    base = ty.split("<")[0]
    cands = [a for i, a in F.adts.items() if i == base or i.endswith("::" + base.split("::")[-1])]
    exact = [a for a in cands if a["id"].endswith(base) or base.endswith(a["id"].split("::", 1)[-1])]
    adt = (exact or cands or [None])[0]
    if adt is None:
        return Opaque("val:" + ty)
    return gen_adt(F, adt, depth, variant)


def gen_adt(F, adt, depth=0, variant=None):
    vs = adt["variants"]
    v = vs[0]
    if variant is not None:
        v = [x for x in vs if x["name"] == variant][0]
    elif depth > 0 and MODE.get("nested", {}).get(adt["id"]):
        # the rule iterates over the variants of enums nested in a payload (check_pair)
        v = [x for x in vs if x["name"] == MODE["nested"][adt["id"]]][0]
    if depth > 5:
        return Opaque("deep:" + adt["id"])
    if adt["id"].endswith("stack::outputs::StackOutputs"):
        # a StackOutputs that exists has been through StackOutputs::new: at least 16 elements, no overflow addresses for exactly 16
        return Agg([Agg([Term(fresh("u64_")) for _ in range(16)], "vec"), Agg([], "vec")], "adt", adt["id"], v["name"])
    if adt["id"].endswith("tokens::location::SourceLocation") and depth > 0 and not MODE.get("locations"):
        # locations are written by write_source_locations, not by write_into: readers rebuild the default location
        dflt = [k for k in F.fns if strip_targs(k).endswith("SourceLocation@Default::default")]
        if dflt:
            return Interp(F).call(dflt[0], [])
    if adt["id"].endswith("ast::imports::ModuleImports"):
        # canonical instance: keys of `imports` are the last path component (the reader recomputes them); when imports are
        # not serialised (AstSerdeOptions) the reader yields the empty default
        n = 0 if (MODE.get("serialize_imports") is False or depth >= 2) else 2
        imps, inv = [], []
        for _ in range(n):
            pth = gen(F, "library::path::LibraryPath", depth + 1)
            imps.append(Agg([StrVal([Term("last", repr(pth.items[0]))]), pth], "tuple"))
            inv.append(Agg([gen(F, "procedures::ProcedureId", depth + 1), Agg([gen(F, "procedures::ProcedureName", depth + 1), gen(F, "library::path::LibraryPath", depth + 1)], "tuple")], "tuple"))
        return Agg([Agg(imps, "btreemap"), Agg(inv, "btreemap")], "adt", adt["id"], v["name"])
    if adt["id"].endswith("library::path::LibraryPath"):
        sv = StrVal([Term(fresh("ch")) for _ in range(3)])
        return Agg([sv, Term("num_components", repr(sv))], "adt", adt["id"], "LibraryPath")
    if adt["id"].endswith("code_body::CodeBody") and not MODE.get("locations"):
        # locations are not part of the node encoding (written separately by write_source_locations)
        return Agg([gen(F, v["fields"][0]["ty"], depth + 1), Agg([], "vec")], "adt", adt["id"], "CodeBody")
    return Agg([gen(F, f["ty"], depth + 1, owner=adt["id"]) for f in v["fields"]], "adt", adt["id"], v["name"])


def same(a, b):
    """structural equality of symbolic values"""
    if isinstance(a, (Ptr,)):
        a = a.get()
    if isinstance(b, (Ptr,)):
        b = b.get()
    if isinstance(a, StrVal) and isinstance(b, StrVal):
        return len(a.b) == len(b.b) and all(same(x, y) for x, y in zip(a.b, b.b))
    if isinstance(a, Agg) and isinstance(b, Agg):
        if a.kind in ("vec", "array", "btreeset", "btreemap") and b.kind in ("vec", "array", "btreeset", "btreemap"):
            return len(a.items) == len(b.items) and all(same(x, y) for x, y in zip(a.items, b.items))
        if (a.adt or "").rsplit("::", 1)[-1] != (b.adt or "").rsplit("::", 1)[-1] or a.variant != b.variant or len(a.items) != len(b.items):
            return False
        return all(same(x, y) for x, y in zip(a.items, b.items))
    if isinstance(a, Poly) and isinstance(b, Poly):
        return a == b
    if isinstance(a, Term) and isinstance(b, Term):
        return a == b or strip_casts(a) == strip_casts(b)
    if isinstance(a, Term) or isinstance(b, Term):
        return strip_casts(a) == strip_casts(b)
    if isinstance(a, Opaque) and isinstance(b, Opaque):
        return a is b or a.name == b.name
    return a == b


def term_width(t):
    """bit width of an integer term when it is known: a generated leaf (`u16_7`), or a cast `as_uN(..)`"""
    if isinstance(t, Term) and not t.args:
        m = re.match(r"^(u8|u16|u32|u64|usize)_", t.op)
        if m:
            return {"u8": 8, "u16": 16, "u32": 32, "u64": 64, "usize": 64}[m.group(1)]
    if isinstance(t, Term) and len(t.args) == 1:
        m = re.match(r"^as_(u8|u16|u32|u64|usize)$", t.op)
        if m:
            return {"u8": 8, "u16": 16, "u32": 32, "u64": 64, "usize": 64}[m.group(1)]
    return None


def strip_casts(t):
    """remove value-preserving integer casts: `as_uN(x)` is x when x is known to fit in N bits; a narrowing cast (the writer
    emitting a u32 field as u16) is kept, so the rebuilt value differs from the original"""
    while isinstance(t, Term) and t.op.startswith("as_") and len(t.args) == 1:
        outer, inner = term_width(t), term_width(t.args[0])
        if outer is not None and inner is not None and inner > outer:
            break
        t = t.args[0]
    return t


def width_of(kind):
    return {"u8": 1, "bool": 1, "u16": 2, "u32": 4, "u64": 8, "usize": 8}.get(kind)


def install(I, F, stream, mode):
    """mode 'w': recording writer; mode 'r': replaying reader (stream is a list of tokens)"""
    ov = I.overrides
    def add(rx, m):
        ov.append((re.compile(rx), m))
    unit = lambda: Agg([], "tuple")
    ok = lambda v: Agg([v], "adt", "core::result::Result", "Ok")
    procmodel.install_field(I)
    st = {"pos": 0}

    # ---- generic helpers --------------------------------------------------------------------
    def impl_for(value, trait_fn):
        if isinstance(value, Ptr):
            value = value.get()
        if isinstance(value, Agg) and value.adt:
            last = value.adt.rsplit("::", 1)[-1]
            c = [k for k in F.fns if re.search(r"::%s@%s$" % (re.escape(last), trait_fn), strip_targs(k))]
            if len(c) == 1:
                return c[0]
        return None

    def write_value(I, v, target, elem_ty=None):
        v0 = v.get() if isinstance(v, Ptr) else v
        if isinstance(v0, Poly):
            stream.append(("felt", v0))
            return
        if isinstance(v0, Agg) and v0.adt and v0.adt.endswith("RpoDigest"):
            for x in v0.items[0].items:
                stream.append(("felt", x))
            return
        fid = impl_for(v0, "Serializable::write_into")
        if fid:
            I.call(fid, [Ptr([v0], 0) if not isinstance(v, Ptr) else v, target])
            return
        if isinstance(v0, (int, Term)) and elem_ty in INT_TYS:
            stream.append((elem_ty, v0))
            return
        if isinstance(v0, Agg) and v0.kind in ("array", "vec"):
            for x in v0.items:
                write_value(I, x, target, elem_ty)
            return
        if isinstance(v0, StrVal):
            raise Unanalysable("String written through Serializable::write_into")
        raise Unanalysable("cannot dispatch Serializable::write_into for %r" % (v0,))

    # ---- writer ---------------------------------------------------------------------------
    for k in ("u8", "u16", "u32", "u64", "usize", "bool"):
        def mk(k):
            def m(I, a, f):
                stream.append((k, a[1]))
                return unit()
            return m
        add(r"ByteWriter::write_%s$" % k, mk(k))

    def write_bytes(I, a, f):
        s = slice_of(I, a[1]) if not isinstance(a[1], StrVal) else None
        vals = s.values() if s is not None else a[1].b
        stream.append(("bytes", list(vals)))
        return unit()
    add(r"ByteWriter::write_bytes$", write_bytes)

    def elem_ty_of(f):
        for g in f.ga:
            m = re.search(r"(?:Vec<|\[|Iter<'_, |&)(u8|u16|u32|u64)", g)
            if m:
                return m.group(1)
            if g in INT_TYS:
                return g
        return None

    def write_many(I, a, f):
        items = drain(as_iter(I, a[1])) if not (isinstance(a[1], Ptr) and isinstance(a[1].get(), Agg) and a[1].get().kind == "btreeset") else list(a[1].get().items)
        stream.append(("many_begin", len(items)))
        for x in items:
            write_value(I, x, a[0], elem_ty_of(f))
        stream.append(("many_end", len(items)))
        return unit()
    add(r"ByteWriter::write_many$", write_many)
    add(r"ByteWriter::write$", lambda I, a, f: (write_value(I, a[1], a[0], elem_ty_of(f)), unit())[1])

    def ser_write_into(I, a, f):
        write_value(I, a[0], a[1], elem_ty_of(f))
        return unit()
    add(r"^winter_utils::serde::Serializable::write_into$", ser_write_into)
    add(r"BaseElement@Serializable::write_into$|RpoDigest@Serializable::write_into$", ser_write_into)
    add(r"u(8|16|32|64)@Serializable::write_into$|usize@Serializable::write_into$", lambda I, a, f: (stream.append((re.search(r"(u\d+|usize)@", f.id).group(1), deref(a[0]))), unit())[1])

    # ---- reader ---------------------------------------------------------------------------
    def take(kind, peek=False):
        while st["pos"] < len(stream) and stream[st["pos"]][0] in ("many_begin", "many_end"):
            st["pos"] += 1
        if st["pos"] >= len(stream):
            raise SerdeMismatch("reader asks for %s after the %d tokens the writer produced" % (kind, len(stream)))
        k, v = stream[st["pos"]][0], stream[st["pos"]][1]
        if k != kind:
            raise SerdeMismatch("reader reads %s at token %d where the writer wrote %s (%r)" % (kind, st["pos"], k, v))
        if not peek:
            st["pos"] += 1
        return v

    for k in ("u8", "u16", "u32", "u64", "usize", "bool"):
        def mk(k):
            return lambda I, a, f: ok(take(k))
        add(r"ByteReader::read_%s$" % k, mk(k))
    add(r"ByteReader::peek_u8$", lambda I, a, f: ok(take("u8", peek=True)))
    add(r"ByteReader::has_more_bytes$", lambda I, a, f: st["pos"] < len([t for t in stream if t[0] not in ("many_begin", "many_end")]))

    def read_vec(I, a, f):
        n = a[1]
        vals = take("bytes")
        if isinstance(n, int) and n != len(vals):
            raise SerdeMismatch("reader reads %d bytes where the writer wrote %d" % (n, len(vals)))
        if not isinstance(n, int):
            # symbolic length: must be the length value the writer put in front
            pass
        return ok(Agg(list(vals), "vec"))
    add(r"ByteReader::read_vec$|ByteReader::read_slice$", read_vec)

    def read_array(I, a, f):
        vals = take("bytes")
        return ok(Agg(list(vals), "array"))
    add(r"ByteReader::read_array$", read_array)

    def read_value(I, ty, source):
        ty = ty.strip()
        if ty.endswith("Felt") or ty.endswith("BaseElement"):
            return take("felt")
        if ty.endswith("RpoDigest") or ty.endswith("::Digest"):
            return Agg([Agg([take("felt") for _ in range(4)], "array")], "adt", "miden_crypto::hash::rescue::rpo::digest::RpoDigest", "RpoDigest")
        if ty in INT_TYS:
            return take(ty)
        last = ty.split("<")[0].rsplit("::", 1)[-1]
        c = [k for k in F.fns if re.search(r"::%s@Deserializable::read_from$" % re.escape(last), strip_targs(k))]
        if len(c) == 1:
            r = I.call(c[0], [source])
            if isinstance(r, Agg) and r.variant == "Ok":
                return r.items[0]
            raise ReadErr(r)
        raise Unanalysable("cannot dispatch Deserializable::read_from for %s" % ty)

    class ReadErr(Exception):
        def __init__(self, r):
            self.r = r

    def read_many(I, a, f):
        n = a[1]
        ty = f.ga[-1] if f.ga else "?"
        if not isinstance(n, int):
            raise Unanalysable("read_many with symbolic count %r" % (n,))
        out = []
        try:
            for _ in range(n):
                out.append(read_value(I, ty, a[0]))
        except ReadErr as e:
            return e.r
        return ok(Agg(out, "vec"))
    add(r"ByteReader::read_many$", read_many)

    def read_generic(I, a, f):
        ty = f.ga[-1] if f.ga else "?"
        try:
            return ok(read_value(I, ty, a[0]))
        except ReadErr as e:
            return e.r
    add(r"ByteReader::read$", read_generic)
    add(r"^winter_utils::serde::Deserializable::read_from$", lambda I, a, f: read_generic(I, [a[0]], f))
    add(r"BaseElement@Deserializable::read_from$", lambda I, a, f: ok(take("felt")))
    add(r"RpoDigest@Deserializable::read_from$", lambda I, a, f: ok(Agg([Agg([take("felt") for _ in range(4)], "array")], "adt", "miden_crypto::hash::rescue::rpo::digest::RpoDigest", "RpoDigest")))

    # ---- abstract validators (valid values are what writers are given) --------------------------
    add(r"parsers::labels::LabelParser::parse_label$", lambda I, a, f: ok(a[1]))
    add(r"library::path::LibraryPath::last$", lambda I, a, f: StrVal([Term("last", repr(deref(a[0]).items[0]))]))
    add(r"library::path::LibraryPath::validate$", lambda I, a, f: ok(Term("num_components", repr(deref(a[0])))))

    def kernel_new(I, a, f):
        # Kernel::new orders the hashes and rejects duplicates / more than 255: a summary for canonical instances (the
        # generated hashes are distinct symbols taken as already ordered; writers are only handed constructed values).
        # Its own panic freedom is covered by C19-R5 / R5b (slicing, unwraps) and the windows(2) indexing is in range.
        kadt = [x for i, x in F.adts.items() if i.endswith("program::Kernel")]
        items = list(slice_of(I, a[0]).values())
        return ok(Agg([Agg([clone_val(deref(x)) for x in items], "vec")], "adt", kadt[0]["id"], kadt[0]["variants"][0]["name"]))
    add(r"^miden_core::program::Kernel::new$", kernel_new)
    add(r"core::convert::AsRef::as_ref$|@AsRef::as_ref$", lambda I, a, f: (deref(a[0]).items[0] if isinstance(deref(a[0]), Agg) and deref(a[0]).items and isinstance(deref(a[0]).items[0], StrVal) else a[0]))
    add(r"core::str::str::is_empty$|core::str::is_empty$|alloc::string::String::is_empty$", lambda I, a, f: (len(deref(a[0]).b) == 0) if isinstance(deref(a[0]), StrVal) else Term("is_empty", repr(a[0])))

    def try_into(I, a, f):
        to = f.ga[1] if len(f.ga) > 1 else ""
        last = to.split("<")[0].rsplit("::", 1)[-1]
        src = f.ga[0] if f.ga else ""
        c = [k for k in F.fns if re.search(r"::%s@TryFrom::try_from$" % re.escape(last), strip_targs(k))]
        if len(c) > 1:
            want = "String" if "String" in src else ("&str" if "str" in src else src.rsplit("::", 1)[-1])
            c = [k for k in c if ("<%s>" % want) in k] or c[:1]
        if len(c) == 1:
            return I.call(c[0], [a[0]])
        return ok(a[0])
    add(r"core::convert::T@TryInto::try_into$", try_into)

    # ---- strings / collections ----------------------------------------------------------------
    add(r"alloc::string::String::len$|core::str::len$", lambda I, a, f: len(deref(a[0]).b) if isinstance(deref(a[0]), StrVal) else Term("len", repr(a[0])))
    add(r"alloc::string::String::as_bytes$|core::str::as_bytes$", lambda I, a, f: SlicePtr(deref(a[0]).b, 0, len(deref(a[0]).b)))
    add(r"alloc::string::String@Deref::deref$|alloc::string::String::as_str$", lambda I, a, f: a[0])

    def from_utf8(I, a, f):
        s = slice_of(I, a[0])
        return ok(StrVal(s.values()))
    add(r"core::str::converts::from_utf8$", from_utf8)
    add(r"alloc::string::String::from_utf8$", lambda I, a, f: ok(StrVal(deref(a[0]).items)))
    add(r"@ToString::to_string$|alloc::string::String@From::from$|alloc::str::.*to_owned$|str@ToOwned::to_owned$", lambda I, a, f: deref(a[0]) if isinstance(deref(a[0]), StrVal) else Term("to_string", repr(a[0])))
    add(r"core::result::Result::map_err$", lambda I, a, f: a[0] if (isinstance(a[0], Agg) and a[0].variant == "Ok") else Agg([Opaque("mapped_err")], "adt", "core::result::Result", "Err"))
    add(r"core::result::Result::is_ok$", lambda I, a, f: isinstance(deref(a[0]), Agg) and deref(a[0]).variant == "Ok")
    add(r"core::result::Result::is_err$", lambda I, a, f: isinstance(deref(a[0]), Agg) and deref(a[0]).variant == "Err")
    add(r"core::option::Option::is_some$", lambda I, a, f: isinstance(deref(a[0]), Agg) and deref(a[0]).variant == "Some")
    add(r"core::option::Option::is_none$", lambda I, a, f: isinstance(deref(a[0]), Agg) and deref(a[0]).variant == "None")
    add(r"StarkProof@Serializable::write_into$", lambda I, a, f: (stream.append(("starkproof", deref(a[0]))), unit())[1])
    add(r"StarkProof@Deserializable::read_from$", lambda I, a, f: ok(take("starkproof")))

    def result_map(I, a, f):
        r = a[0]
        if isinstance(r, Agg) and r.variant == "Ok":
            return ok(I.call_closure(a[1], [r.items[0]]))
        return r
    add(r"core::result::Result::map$", result_map)
    add(r"core::convert::T@TryFrom::try_from$", lambda I, a, f: ok(a[0]))
    add(r"alloc::collections::btree::map::BTreeMap::new$|btree::map::BTreeMap@Default::default$", lambda I, a, f: Agg([], "btreemap"))
    add(r"alloc::vec::Vec@Default::default$", lambda I, a, f: Agg([], "vec"))
    add(r"core::option::Option@Default::default$", lambda I, a, f: Agg([], "adt", "core::option::Option", "None"))
    add(r"alloc::collections::btree::map::BTreeMap::len$", lambda I, a, f: len(deref(a[0]).items))
    add(r"btree::map::BTreeMap::is_empty$|alloc::vec::Vec::is_empty$|btree::set::BTreeSet::is_empty$", lambda I, a, f: (len(deref(a[0]).items) == 0) if isinstance(deref(a[0]), Agg) else Term("is_empty", repr(a[0])))
    add(r"core::slice::\[T\]::is_empty$", lambda I, a, f: slice_of(I, a[0]).len == 0)

    def bt_insert(I, a, f):
        deref(a[0]).items.append(Agg([a[1], a[2]], "tuple"))
        return Agg([], "adt", "core::option::Option", "None")
    add(r"alloc::collections::btree::map::BTreeMap::insert$", bt_insert)
    add(r"alloc::collections::btree::map::BTreeMap::iter$", lambda I, a, f: ListIt([Agg([Ptr(t.items, 0), Ptr(t.items, 1)], "tuple") for t in deref(a[0]).items]))
    add(r"alloc::collections::btree::map::BTreeMap::values$", lambda I, a, f: ListIt([Ptr(t.items, 1) for t in deref(a[0]).items]))
    add(r"alloc::collections::btree::map::BTreeMap::keys$", lambda I, a, f: ListIt([Ptr(t.items, 0) for t in deref(a[0]).items]))
    add(r"BTreeSet@IntoIterator::into_iter$|btree::set::BTreeSet::iter$", lambda I, a, f: ListIt([Ptr(deref(a[0]).items, i) for i in range(len(deref(a[0]).items))]))
    add(r"slice::iter::Iter@ExactSizeIterator::len$", lambda I, a, f: len(a[0].items) - a[0].pos if isinstance(a[0], ListIt) else len(drain(as_iter(I, a[0]))))

    def try_for_each(I, a, f):
        it = as_iter(I, a[0])
        while True:
            v = it.next()
            if v is StopIteration:
                break
            r = I.call_closure(a[1], [v])
            if isinstance(r, Agg) and r.variant in ("Err", "Break"):
                return r
        return ok(unit())
    add(r"Iterator::try_for_each$", try_for_each)
    return st


def roundtrip(F, writer_id, reader_id, value, extra_w=(), extra_r=(), max_paths=64):
    """returns (stream, list of (outcome, value/exception, guards))"""
    stream = []
    I = Interp(F)
    I.havoc = True
    install(I, F, stream, "w")
    I.call(writer_id, [Ptr([value], 0), Ptr([Opaque("writer")], 0)] + list(extra_w))
    results = []
    holder = {}

    def make():
        J = Interp(F)
        J.havoc = True
        holder["st"] = install(J, F, stream, "r")
        return J

    def run(J):
        return J.call(reader_id, [Ptr([Opaque("reader")], 0)] + list(extra_r))

    decisions = []
    n = 0
    while decisions is not None and n < max_paths:
        J = make()
        J.fork = ForkState()
        J.fork.decisions = decisions
        try:
            out = run(J)
            leftover = [t for t in stream[holder["st"]["pos"]:] if t[0] not in ("many_begin", "many_end")]
            results.append(("ret", out, list(J.path), leftover))
        except SerdeMismatch as e:
            results.append(("mismatch", str(e), list(J.path), []))
        except (Unanalysable, PanicReached) as e:
            results.append(("panic" if isinstance(e, PanicReached) else "unanalysable", str(e), list(J.path), []))
        decisions = J.fork.next_decisions()
        n += 1
    return stream, results

"""Operation model (§2.4): the stack effect of each Operation, extracted by abstract interpretation of
Process::execute_op on an abstract Process (symbolic current stack row, recorded next-row writes, helper
registers, chiplet/host/system effects) over every syntactic path (guards kept as labels)."""
import re
from .mirsym import *
from . import opmodel

EXEC_OP = r"^miden_processor::operations::Process::execute_op$"


class PathResult:
    def __init__(self):
        self.outcome = None      # "ok" | ("err", variant) | ("panic", msg) | ("unanalysable", msg)
        self.guards = []
        self.nxt = None          # list of 16 values or None for unwritten
        self.shift = None        # ("copy"|"left"|"right", start) list of calls
        self.helpers = None
        self.effects = []
        self.writes = {}         # pos -> list of writer kinds
        self.reads = set()       # stack positions read


class AbstractProcess:
    def __init__(self, I, depth_gt16=False, in_syscall=None, deep=None):
        self.I = I
        self.cur = [Poly.var("s%d" % i) for i in range(16)]
        self.nxt = [None] * 16
        self.writers = {i: [] for i in range(16)}
        self.shifts = []
        self.helpers = None
        self.depth_gt16 = depth_gt16
        self.fresh = 0
        self.deep = deep          # None: single-row model; list: symbolic elements below position 15 (top first)
        self.reads = set()        # stack positions read by the handler (Stack::get / peek)

    def begin_row(self):
        self.nxt = [None] * 16
        self.writers = {i: [] for i in range(16)}
        self.shifts = []
        self.helpers = None

    def end_row(self):
        missing = [i for i, x in enumerate(self.nxt) if x is None]
        if missing:
            raise Unanalysable("stale next-row cells %s" % missing)
        self.cur = list(self.nxt)

    def new(self, base):
        self.fresh += 1
        return Poly.var("%s#%d" % (base, self.fresh))


def install(I, AP):
    """models for the Process components"""
    ov = I.overrides
    eff = I.effects
    def add(rx, m):
        ov.append((re.compile(rx), m))
    unit = lambda: Agg([], "tuple")
    ok = lambda v: Agg([v], "adt", "core::result::Result", "Ok")

    def intarg(x, what):
        if not isinstance(x, int):
            raise Unanalysable("%s with non-constant argument %r" % (what, x))
        return x

    # ---- stack --------------------------------------------------------------------------------
    def st_get(I, a, f):
        k = intarg(a[1], "Stack::get")
        AP.reads.add(k)
        return AP.cur[k]
    add(r"^miden_processor::stack::Stack::get$", st_get)

    def st_peek(I, a, f):
        AP.reads.add(0)
        return AP.cur[0]
    add(r"^miden_processor::stack::Stack::peek$", st_peek)

    def st_set(I, a, f):
        pos = intarg(a[1], "Stack::set")
        AP.nxt[pos] = a[2]
        AP.writers[pos].append("set")
        return unit()
    add(r"^miden_processor::stack::Stack::set$", st_set)

    def copy_state(I, a, f):
        k = intarg(a[1], "copy_state")
        for i in range(k, 16):
            AP.nxt[i] = AP.cur[i]
            AP.writers[i].append("copy")
        AP.shifts.append(("copy", k))
        return unit()
    add(r"^miden_processor::stack::Stack::copy_state$", copy_state)

    def shift_left(I, a, f):
        k = intarg(a[1], "shift_left")
        if not (0 < k <= 16):
            raise PanicReached("shift_left(%d)" % k)
        for i in range(k, 16):
            AP.nxt[i - 1] = AP.cur[i]
            AP.writers[i - 1].append("shl")
        if AP.deep is not None:
            AP.nxt[15] = AP.deep.pop(0) if AP.deep else Poly.const(0)
        else:
            AP.nxt[15] = Poly.var("ovf_top") if AP.depth_gt16 else Poly.const(0)
        AP.writers[15].append("shl")
        AP.shifts.append(("left", k))
        return unit()
    add(r"^miden_processor::stack::Stack::shift_left$", shift_left)

    def shift_right(I, a, f):
        k = intarg(a[1], "shift_right")
        for i in range(k, 15):
            AP.nxt[i + 1] = AP.cur[i]
            AP.writers[i + 1].append("shr")
        AP.shifts.append(("right", k))
        if AP.deep is not None:
            AP.deep.insert(0, AP.cur[15])
        return unit()
    add(r"^miden_processor::stack::Stack::shift_right$", shift_right)
    add(r"^miden_processor::stack::Stack::depth$", lambda I, a, f: Term("depth"))
    add(r"::ensure_trace_capacity$", lambda I, a, f: unit())

    # ---- system -------------------------------------------------------------------------------
    add(r"^miden_processor::system::System::clk$", lambda I, a, f: Term("clk"))
    add(r"^miden_processor::system::System::ctx$", lambda I, a, f: Term("ctx"))
    add(r"^miden_processor::system::System::fmp$", lambda I, a, f: Poly.var("fmp"))
    add(r"^miden_processor::system::System::in_syscall$", lambda I, a, f: Term("in_syscall"))
    add(r"^miden_processor::system::System::fn_hash$", lambda I, a, f: Agg([Poly.var("fn_hash%d" % i) for i in range(4)], "array"))

    def set_fmp(I, a, f):
        eff.append(("set_fmp", a[1]))
        return unit()
    add(r"^miden_processor::system::System::set_fmp$", set_fmp)

    def adv_clock(I, a, f):
        eff.append(("advance_clock",))
        return ok(unit())
    add(r"^miden_processor::operations::Process::advance_clock$", adv_clock)

    # ---- decoder ------------------------------------------------------------------------------
    def set_helpers(I, a, f):
        vals = slice_of(I, a[2]).values() if isinstance(a[2], (Ptr, SlicePtr)) else [a[2]]
        AP.helpers = list(vals)
        eff.append(("helpers", len(vals)))
        return unit()
    add(r"^miden_processor::decoder::Decoder::set_user_op_helpers$", set_helpers)

    # ---- range checker ------------------------------------------------------------------------
    def add_rc(I, a, f):
        eff.append(("range_checks", a[1:]))
        return unit()
    add(r"^miden_processor::range::RangeChecker::add_range_checks$", add_rc)

    # ---- chiplets -----------------------------------------------------------------------------
    def word(base):
        return Agg([AP.new(base) for _ in range(4)], "array")

    def read_mem(I, a, f):
        eff.append(("mem_read", a[1], a[2]))
        return word("mem")
    add(r"^miden_processor::chiplets::Chiplets::read_mem$", read_mem)

    def read_mem_double(I, a, f):
        eff.append(("mem_read2", a[1], a[2]))
        return Agg([word("mem"), word("mem")], "array")
    add(r"^miden_processor::chiplets::Chiplets::read_mem_double$", read_mem_double)

    def write_mem(I, a, f):
        eff.append(("mem_write", a[1], a[2], a[3]))
        return unit()
    add(r"^miden_processor::chiplets::Chiplets::write_mem$", write_mem)

    def write_mem_element(I, a, f):
        eff.append(("mem_write_elem", a[1], a[2], a[3]))
        return word("memold")
    add(r"^miden_processor::chiplets::Chiplets::write_mem_element$", write_mem_element)

    def write_mem_double(I, a, f):
        eff.append(("mem_write2", a[1], a[2], a[3]))
        return unit()
    add(r"^miden_processor::chiplets::Chiplets::write_mem_double$", write_mem_double)

    def bitw(name):
        def m(I, a, f):
            out = AP.new(name)
            eff.append((name, a[1], a[2], out))
            # the bitwise chiplet rejects non-u32 operands: decided when an operand is a constant, forked otherwise
            consts = [x.const_value() if isinstance(x, Poly) else (x if isinstance(x, int) else None) for x in (a[1], a[2])]
            bad = [x for x, c_ in zip((a[1], a[2]), consts) if c_ is not None and c_ >= 2 ** 32]
            # operands known to be below 2^32 (constants, halves of a split, masked values)
            small = [c_ is not None and c_ < 2 ** 32 or (isinstance(x, Poly) and _ms.int_range(Term("as_int", x))[1] < 2 ** 32) for x, c_ in zip((a[1], a[2]), consts)]
            if bad:
                c = 1
            elif all(small):
                c = 0
            else:
                c = I.fork.choose(("chiplet", name), 2, Term("u32pair", repr(a[1]), repr(a[2]))) if I.fork else 0
            if c == 1:
                I.path.append((Term("u32pair"), 0, "chiplets"))
                return Agg([Agg([bad[0] if bad else a[1]], "adt", "miden_processor::errors::ExecutionError", "NotU32Value")], "adt", "core::result::Result", "Err")
            return ok(out)
        return m
    add(r"^miden_processor::chiplets::Chiplets::u32and$", bitw("u32and"))
    add(r"^miden_processor::chiplets::Chiplets::u32xor$", bitw("u32xor"))

    def permute(I, a, f):
        eff.append(("hperm", a[1]))
        return Agg([AP.new("haddr"), Agg([AP.new("hperm") for _ in range(12)], "array")], "tuple")
    add(r"^miden_processor::chiplets::Chiplets::permute$", permute)

    def build_root(I, a, f):
        eff.append(("mpverify", a[1:]))
        return Agg([AP.new("haddr"), word("root")], "tuple")
    add(r"^miden_processor::chiplets::Chiplets::build_merkle_root$", build_root)

    def update_root(I, a, f):
        eff.append(("mrupdate", a[1:]))
        return Opaque("MerkleRootUpdate", old=word("oldroot"), new=word("newroot"), addr=AP.new("haddr"))
    add(r"^miden_processor::chiplets::Chiplets::update_merkle_root$", update_root)
    add(r"^miden_processor::chiplets::MerkleRootUpdate::get_address$", lambda I, a, f: deref(a[0]).addr)
    add(r"^miden_processor::chiplets::MerkleRootUpdate::get_old_root$", lambda I, a, f: deref(a[0]).old)
    add(r"^miden_processor::chiplets::MerkleRootUpdate::get_new_root$", lambda I, a, f: deref(a[0]).new)

    # ---- host ---------------------------------------------------------------------------------
    add(r"^core::cell::RefCell::borrow_mut$", lambda I, a, f: a[0])
    add(r"^core::cell::RefCell::borrow$", lambda I, a, f: a[0])
    add(r"RefMut@DerefMut::deref_mut$|RefMut@Deref::deref$|Ref@Deref::deref$", lambda I, a, f: a[0])

    def host(name, mk):
        def m(I, a, f):
            eff.append(("host", name))
            return ok(mk())
        return m
    add(r"^miden_processor::host::Host::pop_adv_stack$", host("pop_adv_stack", lambda: AP.new("adv")))
    add(r"^miden_processor::host::Host::pop_adv_stack_word$", host("pop_adv_stack_word", lambda: word("adv")))
    add(r"^miden_processor::host::Host::pop_adv_stack_dword$", host("pop_adv_stack_dword", lambda: Agg([word("adv"), word("adv")], "array")))
    add(r"^miden_processor::host::Host::get_adv_merkle_path$", host("get_adv_merkle_path", lambda: Opaque("MerklePath")))
    add(r"^miden_processor::host::Host::update_merkle_node$", host("update_merkle_node", lambda: Agg([Opaque("MerklePath"), word("adv")], "tuple")))
    add(r"^miden_processor::host::Host::set_advice$", host("set_advice", lambda: Opaque("HostResponse")))

    def on_assert_failed(I, a, f):
        eff.append(("host", "on_assert_failed", a[-1]))
        return Agg([a[-1]], "adt", "miden_processor::errors::ExecutionError", "FailedAssertion")
    add(r"^miden_processor::host::Host::on_assert_failed$", on_assert_failed)

    add(r"MerklePath@Deref::deref$", lambda I, a, f: Ptr([Opaque("merkle_path_nodes")], 0))
    add(r"^core::num::u64::wrapping_sub$", lambda I, a, f: (a[0] - a[1]) % 2**64 if isinstance(a[0], int) and isinstance(a[1], int) else Term("wrapping_sub", a[0], a[1]))

    install_field(I)


from . import mirsym as _ms
FELT_TERMS = _ms.FELT_REGISTRY      # name of a `felt[<term>]` variable -> the machine-integer term it was built from (Felt::new / Felt::from)


def install_field(I):
    ov = I.overrides
    ok = lambda v: Agg([v], "adt", "core::result::Result", "Ok")
    def add(rx, m):
        ov.append((re.compile(rx), m))
    # ---- field helpers ------------------------------------------------------------------------
    add(r"BaseElement::as_int$", lambda I, a, f: (deref(a[0]).const_value() if isinstance(deref(a[0]), Poly) and deref(a[0]).const_value() is not None else Term("as_int", deref(a[0]))))

    def felt_new(I, a, f):
        x = a[0]
        while isinstance(x, Agg) and x.kind == "adt" and len(x.items) == 1:
            x = x.items[0]          # newtype wrappers (ContextId(u32) ...)
        if isinstance(x, bool):
            x = int(x)
        if isinstance(x, int):
            return Poly.const(x)
        if isinstance(x, BitInt):
            return x.to_poly()
        if isinstance(x, Term) and x.op == "as_int" and len(x.args) == 1 and isinstance(x.args[0], Poly):
            return x.args[0]        # Felt::new(f.as_int()) = f
        name = "felt[%r]" % (x,)
        FELT_TERMS[name] = x
        return Poly.var(name)
    add(r"BaseElement::new$", felt_new)
    add(r"BaseElement@From::from$", lambda I, a, f: felt_new(I, a, f) if not is_field(a[0]) else a[0])
    add(r"BaseElement@TryFrom::try_from$", lambda I, a, f: ok(felt_new(I, a, f)))

    def inv(I, a, f):
        x = deref(a[0])
        if isinstance(x, Poly) and x.const_value() is not None:
            return Poly.const(pow(x.const_value(), -1, P)) if x.const_value() else Poly.const(0)
        return inv_var(x)
    add(r"BaseElement@FieldElement::inv$|FieldElement::inv$", inv)


def run_operation(F, variant, depth_gt16=False, max_paths=64):
    """all syntactic paths of execute_op(variant); returns list of PathResult"""
    fn = F.fn(EXEC_OP)
    vdef = [v for v in opmodel.operation_variants(F) if v["name"] == variant][0]
    results = []

    holder = {}

    def make():
        I = Interp(F)
        I.havoc = True
        AP = AbstractProcess(I, depth_gt16)
        install(I, AP)
        holder["AP"] = AP
        return I

    def run(I):
        AP = holder["AP"]
        payload = []
        for fdef in vdef["fields"]:
            if fdef["ty"].endswith("Felt"):
                payload.append(Poly.var("imm"))
            else:
                payload.append(Term("imm_u32"))
        op = Agg(payload, "adt", opmodel.OPS, variant)
        proc = Opaque("Process")
        comps = {n: Opaque(n) for n in ("system", "decoder", "stack", "range", "chiplets", "host", "max_cycles", "enable_tracing")}
        proc.field = lambda name: comps[name]
        return I.call(fn.id, [Ptr([proc], 0), op])

    for I, out, exc in enumerate_paths(make, run, max_paths=max_paths):
        AP = holder["AP"]
        r = PathResult()
        r.guards = list(I.path)
        r.effects = list(I.effects)
        r.nxt = list(AP.nxt)
        r.reads = set(AP.reads)
        r.shift = list(AP.shifts)
        r.helpers = AP.helpers
        r.writes = {k: list(v) for k, v in AP.writers.items()}
        if exc is not None:
            r.outcome = ("panic" if isinstance(exc, PanicReached) else "unanalysable", str(exc))
        elif isinstance(out, Agg) and out.variant == "Ok":
            r.outcome = "ok"
        elif isinstance(out, Agg) and out.variant == "Err":
            e = out.items[0]
            r.outcome = ("err", e.variant if isinstance(e, Agg) else repr(e))
        else:
            r.outcome = ("unknown", repr(out))
        results.append(r)
    return results


def release_semantics(I):
    """debug assertions of helper functions removed (what a release build executes)"""
    def split16(I_, a, f):
        v = a[0]
        if isinstance(v, int):
            return Agg([(v >> 16) & 0xFFFF, v & 0xFFFF], "tuple")
        return Agg([Term("as_u16", Term(">>", v, 16)), Term("as_u16", v)], "tuple")
    I.overrides.insert(0, (re.compile(r"^miden_processor::utils::split_u32_into_u16$"), split16))


def run_sequence(F, ops, max_paths=256, ndeep=16, release=False):
    """composes the operation model along a sequence of (variant, payload tuple) on a symbolic stack e0..e15 with
    symbolic elements e16.. below; returns list of dict(outcome, guards, stack (top 16 + deep), effects)"""
    fn = F.fn(EXEC_OP)
    holder = {}
    out = []

    def make():
        I = Interp(F)
        I.havoc = True
        AP = AbstractProcess(I, deep=[Poly.var("e%d" % (16 + i)) for i in range(ndeep)])
        AP.cur = [Poly.var("e%d" % i) for i in range(16)]
        install(I, AP)
        if release:
            release_semantics(I)
        holder["AP"] = AP
        return I

    def run(I):
        AP = holder["AP"]
        proc = Opaque("Process")
        comps = {n: Opaque(n) for n in ("system", "decoder", "stack", "range", "chiplets", "host", "max_cycles", "enable_tracing")}
        proc.field = lambda name: comps[name]
        for k, (variant, payload) in enumerate(ops):
            AP.begin_row()
            if variant == "Push":
                payload = [Poly.const(x) if isinstance(x, int) and not isinstance(x, bool) else x for x in payload]
            op = Agg(list(payload), "adt", opmodel.OPS, variant)
            r = I.call(fn.id, [Ptr([proc], 0), op])
            if isinstance(r, Agg) and r.variant == "Err":
                e = r.items[0]
                return ("err", k, e.variant if isinstance(e, Agg) else repr(e))
            AP.end_row()
        return ("ok",)

    for I, res, exc in enumerate_paths(make, run, max_paths=max_paths):
        AP = holder["AP"]
        d = {"guards": list(I.path), "effects": list(I.effects), "stack": list(AP.cur) + list(AP.deep)}
        if exc is not None:
            d["outcome"] = ("panic" if isinstance(exc, PanicReached) else "unanalysable", str(exc))
        else:
            d["outcome"] = res
        out.append(d)
    return out

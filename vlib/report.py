"""Verdict bookkeeping: rule instances, violations keyed without line numbers, known findings,
evidence files."""
import hashlib, json, os, re, sys, time, traceback
from .facts import AnchorLost

VERIF = os.path.dirname(os.path.dirname(os.path.abspath(__file__)))
KNOWN = os.path.join(VERIF, "known_findings.txt")


def load_known():
    known, fixed = {}, []
    if os.path.exists(KNOWN):
        for line in open(KNOWN):
            line = line.strip()
            if not line or line.startswith("#"):
                continue
            m = re.match(r"known:\s+property=(\S+)\s+key=(\S+)\s+(.*)$", line)
            if m:
                known[(m.group(1), m.group(2))] = m.group(3)
                continue
            if line.startswith("fixed:"):
                fixed.append(line)
    return known, fixed


class Ctx:
    def __init__(self, pid, tier, seed, level, only_rule=None):
        self.pid, self.tier, self.seed, self.level = pid, tier, seed, level
        self.t0 = time.time()
        self.only_rule = only_rule
        self.rules = {}          # rule id -> dict(instances, nontrivial, obligations, discharged, desc)
        self.cur = None
        self.violations = []     # dicts
        self.samples = []
        self.assumptions = []
        self.trusted = []
        self.notes = []
        self.extra = {}

    # ---- rule scope -----------------------------------------------------------------------
    def rule(self, rid, desc):
        self.cur = rid
        self.rules.setdefault(rid, {"instances": 0, "nontrivial": set(), "obligations": 0, "discharged": 0,
                                    "desc": desc, "analysed": []})
        return self.rules[rid]

    def inst(self, key=None, nontrivial=False, n=1):
        r = self.rules[self.cur]
        r["instances"] += n
        if nontrivial and key is not None:
            r["nontrivial"].add(str(key))

    def oblig(self, ok, n=1):
        r = self.rules[self.cur]
        r["obligations"] += n
        if ok:
            r["discharged"] += n

    def analysed(self, what):
        r = self.rules[self.cur]
        if len(r["analysed"]) < 400:
            r["analysed"].append(what)

    def sample(self, obj):
        if len(self.samples) < 40:
            self.samples.append({"rule": self.cur, "case": obj})

    def floor(self, name, count, floor):
        if count < floor:
            self.violation("ANCHOR-LOST:%s" % name, "", "%s matched %d instances, floor is %d (a rule matching fewer "
                           "sites than confirmed by hand would pass vacuously)" % (name, count, floor))

    def violation(self, instance, where, msg, facts=None, rule=None):
        rid = rule or self.cur
        key = "%s|%s" % (rid, instance)
        key = re.sub(r"\s+", "_", key)
        for v in self.violations:
            if v["key"] == key:
                return
        self.violations.append({"rule": rid, "key": key, "where": where, "msg": msg, "facts": facts})

    def run_rule(self, rid, desc, fn, *args):
        if self.only_rule and self.only_rule != rid:
            return
        self.rule(rid, desc)
        try:
            fn(self, *args)
        except AnchorLost as e:
            self.violation("ANCHOR-LOST", "", "anchor lost: %s" % e)
        except Exception as e:  # fail closed: an analyser crash is not a pass
            tb = traceback.format_exc()
            sys.stderr.write(tb)
            self.violation("UNANALYSABLE", "", "analyser error: %s: %s" % (type(e).__name__, e), facts=tb[-1500:])

    # ---- finish ---------------------------------------------------------------------------
    def finish(self, write_evidence=True):
        known, fixed = load_known()
        new, kn = [], []
        for v in self.violations:
            (kn if (self.pid, v["key"]) in known else new).append(v)
        os.makedirs(os.path.join(VERIF, "evidence", "replay"), exist_ok=True)
        for v in kn:
            print("KNOWN-FINDING: property=%s %s %s — %s" % (self.pid, v["key"], v["where"], v["msg"]))
        for v in new:
            h = hashlib.sha1(v["key"].encode()).hexdigest()[:10]
            path = os.path.join(VERIF, "evidence", "replay", "%s-%s.json" % (self.pid, h))
            with open(path, "w") as fh:
                json.dump({"property": self.pid, "rule": v["rule"], "key": v["key"], "where": v["where"], "msg": v["msg"],
                           "facts": v["facts"], "replay_cmd": "./check %s --replay %s" % (self.pid, path)}, fh, indent=1, default=str)
            print("%s %s — %s — %s" % (v["where"] or "-", v["rule"], v["key"], v["msg"]))
            print("VIOLATION property=%s replay=%s" % (self.pid, path))
        evaluations = sum(r["instances"] for r in self.rules.values())
        nontrivial = sum(len(r["nontrivial"]) for r in self.rules.values())
        obligations = sum(r["obligations"] for r in self.rules.values())
        discharged = sum(r["discharged"] for r in self.rules.values())
        cov = {
            "evaluations": evaluations,
            "distinct_nontrivial": nontrivial,
            "rule": "every rule enumerates all instances of its site class in /repo's current source (no sampling); "
                    "an instance is counted non-trivial when it exercises an instance-specific branch of the rule "
                    "(see per-rule 'desc'); keys are distinct by construction (set of instance keys)",
            "samples": self.samples or [{"note": "no samples recorded"}],
            "explanation": "static analysis of /repo's current source: " + "; ".join(
                "%s: %s [%d instances, %d non-trivial%s]" % (rid, r["desc"], r["instances"], len(r["nontrivial"]),
                                                             (", %d/%d obligations" % (r["discharged"], r["obligations"])) if r["obligations"] else "")
                for rid, r in self.rules.items()),
            "per_rule": {rid: {"desc": r["desc"], "instances": r["instances"], "nontrivial": len(r["nontrivial"]),
                               "obligations": r["obligations"], "discharged": r["discharged"],
                               "analysed": r["analysed"][:60]} for rid, r in self.rules.items()},
            "known_findings_reported": [v["key"] for v in kn],
            "new_violations": [v["key"] for v in new],
            "trusted_base": self.trusted,
            "checker_cmd": "./check %s --tier %s" % (self.pid, self.tier),
            "exhaustive": True,
        }
        if obligations:
            cov["obligations"] = obligations
            cov["discharged"] = discharged
        cov.update(self.extra)
        ev = {
            "property_id": self.pid, "tier": self.tier, "seed": self.seed, "level": self.level,
            "coverage": cov, "assumptions": self.assumptions, "wall_s": round(time.time() - self.t0, 2),
            "violations": len(new),
        }
        if write_evidence:
            with open(os.path.join(VERIF, "evidence", "%s.json" % self.pid), "w") as fh:
                json.dump(ev, fh, indent=1, default=str)
        print("[%s] tier=%s rules=%d instances=%d nontrivial=%d obligations=%d/%d known=%d new=%d wall=%.1fs" % (
            self.pid, self.tier, len(self.rules), evaluations, nontrivial, discharged, obligations, len(kn), len(new),
            time.time() - self.t0))
        return 1 if new else 0

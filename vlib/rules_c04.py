"""C04 — the AIR rejects any deviation from an operation's defined effect.
Decided on the constraint polynomials extracted from /repo's AIR code by abstract interpretation (mirsym),
restricted per opcode; the oracle is the repository's own specification (docs/src/design), parsed at run time."""
import os, re
from .mirutil import *
from .mirsym import Poly, Sup, P, poly_str
from . import opmodel, docspec, extract
from .airmodel import AirModel

LEVEL = "other"

# documented operations whose operation-specific cells are *not* fixed by a single linear constraint;
# (operation, next cell) -> reason. These cells must still occur in a constraint active under the operation.
CONDITIONAL = {
    ("Inv", 0): "s0*s0' = 1 determines s0' because s0 != 0 on valid rows (docs field_ops.md INV)",
    ("Eq", 0): "pair of constraints s0'*(s0-s1)=0 and s0' = 1-(s0-s1)*h0 (docs field_ops.md EQ)",
    ("Eqz", 0): "pair of constraints s0'*s0=0 and s0' = 1-s0*h0 (docs field_ops.md EQZ)",
    ("Expacc", 0): "bit' is determined through b = 2b'+bit' with bit' binary (docs field_ops.md EXPACC)",
    ("Expacc", 3): "b' = (b - bit')/2, linear once bit' is fixed",
    ("Expacc", 2): "acc' = acc*val, val fixed by bit' (degree-2 in next-row cells)",
    ("U32split", 0): "limb decomposition with range-checked helpers (docs u32_ops.md U32SPLIT)",
    ("U32split", 1): "limb decomposition with range-checked helpers",
    ("U32add", 0): "s0' binary carry, fixed with s1' by a+b = 2^32*s0' + s1' and range checks",
    ("U32add", 1): "see U32add s0'",
    ("U32add3", 0): "carry/sum fixed by a+b+c = 2^32*s0'+s1' and range checks",
    ("U32add3", 1): "see U32add3 s0'",
    ("U32sub", 0): "borrow binary, a = b + s1' - 2^32*s0' with range checks",
    ("U32sub", 1): "see U32sub s0'",
    ("U32mul", 0): "a*b = 2^32*s0'+s1' with range checks and the validity helper m",
    ("U32mul", 1): "see U32mul s0'",
    ("U32madd", 0): "a*b+c = 2^32*s0'+s1' with range checks",
    ("U32madd", 1): "see U32madd s0'",
    ("U32div", 0): "a = b*s1' + s0' with range-checked differences (docs u32_ops.md U32DIV)",
    ("U32div", 1): "see U32div s0'",
}
# cells whose value the specification defines through a bus or leaves to the prover: not obligations of C04
EXEMPT = {
    ("U32and", 0): "result defined through the bitwise chiplet bus (docs u32_ops.md U32AND)",
    ("U32xor", 0): "result defined through the bitwise chiplet bus",
    ("Push", 0): "immediate value bound through the decoder op-group table (docs io_ops.md PUSH)",
}
# documented operations enforced directly by this AIR (the classes C04 names); io/crypto sections define their
# operation-specific cells through buses and are used for shift agreement only (C03)
ENFORCED_FILES = {"system_ops.md", "field_ops.md", "stack_ops.md", "u32_ops.md"}
ENFORCED_IO = {"PUSH", "SDEPTH"}


def variant_of(docname, n, variants_upper):
    nm = docname if n is None else "%s%d" % (docname, n)
    if nm == "DUP0" and "DUP0" in variants_upper:
        pass
    return variants_upper.get(nm)


def unit_multiple(p, q):
    """True if p == k*q for a non-zero field constant k (both Poly)"""
    if not isinstance(p, Poly) or not isinstance(q, Poly):
        return False
    if p.is_zero() or q.is_zero():
        return False
    if set(p.t) != set(q.t):
        return False
    m0 = next(iter(q.t))
    k = p.t[m0] * pow(q.t[m0], -1, P) % P
    return all(p.t[m] == q.t[m] * k % P for m in q.t)


class AirView:
    def __init__(self, F):
        self.F = F
        self.R = opmodel.restricted_air(F)
        self.A = AirModel(F)
        self.STK = self.A.STK
        self.ops = self.R["ops"]
        self.by_name = {n: self.R["by_opcode"][oc] for n, oc in self.ops.items()}
        self.srange = self.R["ranges"]["stack"]
        self.upper = {n.upper(): n for n in self.ops}

    def stack_polys(self, op):
        lo, hi = self.srange
        return [p for p in self.by_name[op][lo:hi]]

    def all_polys(self, op):
        return self.by_name[op]

    def s(self, i):
        return Poly.var("c%d" % (self.STK + i))

    def sn(self, i):
        return Poly.var("n%d" % (self.STK + i))

    def latex_var(self, name, idx, primed):
        pre = "n" if primed else "c"
        if name == "s" and idx is not None and 0 <= idx < 16:
            return Poly.var("%s%d" % (pre, self.STK + idx))
        if name == "h" and idx is not None and 0 <= idx < 6 and not primed:
            return Poly.var("c%d" % (self.A.helpers + idx))
        if name == "b" and idx in (0, 1):
            return Poly.var("%s%d" % (pre, self.STK + 16 + idx))
        if name == "fmp" and idx is None:
            return Poly.var("%s%d" % (pre, self.F.const(r"^miden_air::trace::FMP_COL_IDX$")))
        if name == "clk" and idx is None:
            return Poly.var("%s%d" % (pre, self.F.const(r"^miden_air::trace::CLK_COL_IDX$")))
        raise docspec.LatexError("unknown symbol %s_%s" % (name, idx))

    def pretty(self, p):
        names = self.A.col_names()
        s = poly_str(p) if isinstance(p, Poly) else repr(p)
        def rep(m):
            k, i = m.group(1), int(m.group(2))
            nm = names.get(i, "col%d" % i)
            return nm + ("'" if k == "n" else "")
        return re.sub(r"\b([cn])(\d+)\b", rep, s)


def determined(polys, var):
    for p in polys:
        if not isinstance(p, Poly) or var not in p.vars():
            continue
        if p.degree_in(var) != 1:
            continue
        co = p.coeff_of(var, 1)
        if co.const_value() in (None, 0):
            continue
        others = [v for v in p.vars() if v != var and v.startswith("n")]
        if others:
            continue
        return p
    return None


def occurs(polys, var):
    return any((var in p.vars()) for p in polys if isinstance(p, (Poly, Sup)))


def r1_wiring(ctx, F):
    roots = [F.fn(r"^miden_air::ProcessorAir@Air::evaluate_transition$").id, F.fn(r"^miden_air::ProcessorAir@Air::evaluate_aux_transition$").id]
    reach = F.reachable(roots)
    enf = [f for f in F.fns.values() if f.id.startswith("miden_air::constraints::") and re.match(r"^enforce_\w+$", f.name)]
    ctx.floor("enforce_*-functions", len(enf), 40)
    for f in sorted(enf, key=lambda f: f.id):
        ctx.inst(key=f.id, nontrivial=True)
        ctx.oblig(f.id in reach)
        if f.id not in reach:
            ctx.violation("unwired|%s" % f.id, f.loc(), "constraint function %s is defined but not reachable from ProcessorAir::evaluate_transition / "
                          "evaluate_aux_transition: its constraints are never enforced" % f.id)
    ctx.sample({"roots": roots, "enforce_functions": len(enf), "example_path": F.call_path(roots[0], lambda x: x.endswith("enforce_swap_constraints"))})


def r3_flags(ctx, F):
    """flag_X(opcode_Y) = delta_XY over the defined opcodes, evaluated by abstract interpretation of OpFlags::new + accessors"""
    from .mirsym import Interp, Ptr, Agg
    A = AirModel(F)
    ops = opmodel.opcode_table(F)
    by_code = {}
    for n, oc in ops.items():
        if oc in by_code:
            ctx.violation("opcode-collision|%s|%s" % (by_code[oc], n), "core/src/operations/mod.rs", "operations %s and %s share opcode %d" % (by_code[oc], n, oc))
        if not (0 <= oc < 128):
            ctx.violation("opcode-range|%s" % n, "core/src/operations/mod.rs", "opcode %d of %s does not fit 7 bits" % (oc, n))
        by_code[oc] = n
    ctx.floor("operations", len(ops), 89)
    new = F.fn(r"^miden_air::constraints::stack::op_flags::OpFlags::new$")
    accs = [f for f in F.fns.values() if re.match(r"^miden_air::constraints::stack::op_flags::OpFlags::\w+$", f.id)
            and f.d["argc"] == 1 and f.name not in ("new", "right_shift", "left_shift", "control_flow", "u32_rc_op", "overflow", "top_binary")]
    ctx.floor("flag-accessors", len(accs), 80)
    fires = {a.id: [] for a in accs}
    for oc, name in sorted(by_code.items()):
        I = Interp(F)
        fr = A.frame(oc)
        flags = I.call(new.id, [Ptr([fr], 0)])
        for a in accs:
            v = I.call(a.id, [Ptr([flags], 0)])
            cv = v.const_value() if isinstance(v, Poly) else None
            ctx.inst()
            if cv is None:
                # END reads h5; every other flag must be a constant once the op bits are fixed
                if not (isinstance(v, Poly) and v.vars() <= {"c%d" % (A.DEC + F.const(r"^miden_air::trace::decoder::IS_LOOP_FLAG_COL_IDX$"))}):
                    ctx.violation("flag-not-constant|%s|%s" % (a.name, name), a.loc(), "flag %s at opcode of %s is %s" % (a.name, name, v))
                continue
            if cv == 1:
                fires[a.id].append(name)
            elif cv != 0:
                ctx.violation("flag-not-binary|%s|%s" % (a.name, name), a.loc(), "flag %s evaluates to %d at the opcode of %s" % (a.name, cv, name))
    used = {}
    for a in accs:
        f = fires[a.id]
        ctx.inst(key=a.name, nontrivial=True)
        ctx.oblig(len(f) == 1)
        if len(f) != 1:
            ctx.violation("flag-selectivity|%s" % a.name, a.loc(), "flag accessor %s is 1 on the opcodes of %s (must be exactly one operation)" % (a.name, f))
            continue
        nm = f[0]
        norm_a = a.name.replace("_op", "").replace("_", "").lower()
        norm_v = nm.lower()
        if not (norm_a == norm_v or norm_a + "0" == norm_v):
            ctx.violation("flag-name|%s" % a.name, a.loc(), "flag accessor `%s` selects operation %s" % (a.name, nm))
        if nm in used:
            ctx.violation("flag-duplicate|%s" % nm, a.loc(), "accessors %s and %s both select %s" % (used[nm], a.name, nm))
        used[nm] = a.name
    ctx.sample({"accessor": "add", "fires_on": fires.get("miden_air::constraints::stack::op_flags::OpFlags::add")})


def doc_instances(V):
    """(variant, section, n, effects dict) for every documented operation"""
    out = []
    for sec in docspec.sections():
        for base, n in docspec.params_of(sec.name, sec):
            var = variant_of(base, n, V.upper)
            out.append((var, sec, n, base))
    return out


def r2_determinacy(ctx, F):
    V = AirView(F)
    docs = doc_instances(V)
    nsent = sum(len(sec.shift_bullets) for sec in docspec.sections())
    ctx.floor("documented-shift-sentences", nsent, 53)
    dec = docspec.decoder_table()
    ctx.floor("decoder-effect-table-rows", len(dec), 12)
    covered = set()
    ncell = 0
    for var, sec, n, base in docs:
        fname = sec.file.rsplit("/", 1)[-1]
        if var is None:
            ctx.violation("doc-op-unknown|%s" % sec.name, "%s:%d" % (sec.file, sec.line), "documented operation %s%s has no Operation variant" % (base, "" if n is None else n))
            continue
        if not (fname in ENFORCED_FILES or base in ENFORCED_IO):
            continue
        covered.add(var)
        polys = V.stack_polys(var)
        try:
            eff = docspec.effects_of(sec, n)
        except ValueError as e:
            ctx.violation("doc-unparsed|%s" % sec.name, "%s:%d" % (sec.file, sec.line), str(e))
            continue
        if base == "NOOP":
            eff = {i: i for i in range(16)}
        if base == "SWAPDW":
            eff = {}
        for cell in range(16):
            ncell += 1
            nv = "n%d" % (V.STK + cell)
            ctx.inst(key="%s.%d" % (var, cell), nontrivial=(cell not in eff))
            if cell in eff:
                want = V.sn(cell) - V.s(eff[cell])
                ok = any(unit_multiple(p, want) for p in polys)
                ctx.oblig(ok)
                if not ok:
                    ctx.violation("shift-cell|%s|s%d'" % (var, cell), "%s:%d" % (sec.file, sec.line),
                                  "under %s the specification says s%d' = s%d, but no transition constraint restricted to %s equals "
                                  "s%d' - s%d (up to a unit): that cell is not enforced. constraints mentioning s%d': %s" % (
                                      var, cell, eff[cell], var, cell, eff[cell], cell,
                                      [V.pretty(p) for p in polys if isinstance(p, Poly) and nv in p.vars()][:3]),
                                  facts={"op": var, "cell": cell})
                continue
            # cell 15 on a left shift comes from the overflow table
            left = any(k == "Left shift" for k, _, _ in sec.shift_bullets)
            if cell == 15 and left and 14 in eff and eff[14] == 15:
                continue
            if (var, cell) in EXEMPT:
                continue
            d = determined(polys, nv)
            if d is not None:
                ctx.oblig(True)
                if len(ctx.samples) < 12:
                    ctx.sample({"op": var, "cell": "s%d'" % cell, "determined_by": V.pretty(d)})
                continue
            if (var, cell) in CONDITIONAL:
                ok = occurs(polys, nv)
                ctx.oblig(ok)
                if not ok:
                    ctx.violation("specific-cell-absent|%s|s%d'" % (var, cell), "%s:%d" % (sec.file, sec.line),
                                  "s%d' of %s occurs in no constraint active under %s (expected: %s)" % (cell, var, var, CONDITIONAL[(var, cell)]))
                continue
            ctx.oblig(False)
            ctx.violation("specific-cell|%s|s%d'" % (var, cell), "%s:%d" % (sec.file, sec.line),
                          "operation-specific cell s%d' of %s is not fixed by any constraint of the form u*s%d' - f(current row) with u a non-zero constant; "
                          "constraints mentioning it: %s" % (cell, var, cell, [V.pretty(p) for p in polys if isinstance(p, Poly) and nv in p.vars()][:3]))
    # control-flow operations: stack shifts from the decoder table
    for name, kind in sorted(dec.items()):
        var = V.upper.get(name)
        if var is None:
            ctx.violation("doc-op-unknown|%s" % name, "docs/src/design/decoder/constraints.md", "control operation %s has no Operation variant" % name)
            continue
        if var == "Push":
            continue  # covered through io_ops.md
        covered.add(var)
        polys = V.stack_polys(var)
        h5 = Poly.var("c%d" % (V.A.DEC + F.const(r"^miden_air::trace::decoder::IS_LOOP_FLAG_COL_IDX$")))
        for cell in range(16):
            ncell += 1
            ctx.inst(key="%s.%d" % (var, cell), nontrivial=True)
            if kind == "none":
                want = [V.sn(cell) - V.s(cell)]
            elif kind == "left":
                if cell == 15:
                    continue
                want = [V.sn(cell) - V.s(cell + 1)]
            elif kind == "end":
                # s' = (1-h5)*s_i + h5*s_{i+1}
                if cell == 15:
                    want = [V.sn(cell) * (Poly.const(1) - h5) - V.s(cell) * (Poly.const(1) - h5)]
                else:
                    want = [V.sn(cell) - (V.s(cell) * (Poly.const(1) - h5) + V.s(cell + 1) * h5)]
            else:
                ctx.violation("doc-effect-unparsed|%s" % name, "docs/src/design/decoder/constraints.md", "effect %r" % kind)
                break
            ok = any(unit_multiple(p, w) for p in polys for w in want)
            ctx.oblig(ok)
            if not ok:
                ctx.violation("shift-cell|%s|s%d'" % (var, cell), "docs/src/design/decoder/constraints.md",
                              "control operation %s: documented stack effect %r requires the constraint %s, which is not among the constraints restricted to %s"
                              % (var, kind, V.pretty(want[0]), var))
    ctx.floor("obligation-cells", ncell, 1100)
    ctx.extra["operations_with_obligations"] = len(covered)


def r2b_latex(ctx, F):
    """every constraint formula of the specification that parses must be among the restricted constraints (up to a unit)"""
    V = AirView(F)
    parsed = matched = 0
    unparsed = []
    for var, sec, n, base in doc_instances(V):
        if var is None:
            continue
        fname = sec.file.rsplit("/", 1)[-1]
        if not (fname in ENFORCED_FILES or base in ENFORCED_IO):
            continue
        polys = [p for p in V.all_polys(var) if isinstance(p, Poly)]
        for blk, ln in sec.latex:
            try:
                res = docspec.parse_constraint_block(blk, V.latex_var)
            except docspec.LatexError as e:
                unparsed.append("%s:%d %s" % (sec.file, ln, e))
                continue
            for binding, want in res:
                if n is not None and "n" in binding and binding["n"] != n:
                    continue
                if want.is_zero():
                    continue
                parsed += 1
                ok = any(unit_multiple(p, want) for p in polys)
                key = "%s|%s" % (var, V.pretty(want).replace(" ", ""))
                ctx.inst(key=key, nontrivial=True)
                ctx.oblig(ok or (var, key) in LATEX_DISCREPANCIES)
                if ok:
                    matched += 1
                    if len(ctx.samples) < 25 and parsed % 7 == 0:
                        ctx.sample({"op": var, "doc_constraint": V.pretty(want), "source": "%s:%d" % (sec.file, ln)})
                elif (var, key) not in LATEX_DISCREPANCIES:
                    ctx.violation("doc-constraint|%s" % key, "%s:%d" % (sec.file, ln),
                                  "documented constraint of %s, %s = 0, is not among the transition constraints restricted to %s (up to a unit)" % (var, V.pretty(want), var))
    ctx.extra["latex_blocks_parsed"] = parsed
    ctx.extra["latex_blocks_unparsed"] = unparsed[:40]
    ctx.floor("parsed-doc-constraints", parsed, 60)


# documented formulas that differ from the code on the pinned tree where the *code* is right (triaged by reading);
# (variant, key) -> reason
LATEX_DISCREPANCIES = {
    ("Expacc", "Expacc|-2*s3-s0'+s3'"): "docs field_ops.md EXPACC write b' = 2b + bit'; handler op_expacc computes bit' = b & 1, b' = b >> 1, i.e. b = 2b' + bit', "
                                "which is the code's constraint s3 - s0' - 2*s3' (C03-R3 checks handler => constraint)",
    ("Ext2Mul", "Ext2Mul|s2'-s0*s3-s1*s2-s1*s3"): "docs field_ops.md EXT2MUL third formula has a sign/term typo; handler op_ext2mul sets s2' = (s1+s0)(s2+s3) - s1*s3 = s0s2+s0s3+s1s2, "
                                  "which is the code's constraint",
    ("U32sub", "U32sub|-s0+s1-4294967296*s0'-s1'"): "docs u32_ops.md U32SUB first formula has the sign of the borrow term flipped; handler op_u32sub: s1 + 2^32*borrow = s0 + diff is the code's constraint",
    ("U32add", "U32add|-hlp2+s0'"): "docs u32_ops.md U32ADD write s0' = h2; the code enforces s0' = 2^16*h3 + h2 (the common limb-aggregation constraint). Together with "
                                    "a + b = 2^48*h3 + 2^32*h2 + 2^16*h1 + h0, 16-bit range checks of h0..h3 and a, b < 2^32 (a + b < 2^33) this forces h3 = 0, so both forms are equivalent on the operation's domain",
    ("U32add3", "U32add3|-hlp2+s0'"): "same as U32ADD: a + b + c < 3*2^32 forces h3 = 0 under the limb decomposition and the range checks",
    ("U32div", "U32div|-1-65536*hlp2-hlp3+s0-s0'"): "docs u32_ops.md U32DIV third formula swaps the limb weights (2^16*h2 + h3); add_range_checks puts the low limb in h2, as the code's constraint has it",
}


def r2d_referenced_primitives(ctx, F):
    """a section of u32_ops.md that refers to the element-validity primitive ("form a valid field element", link
    #checking-element-validity) obliges the operation to carry that constraint; the constraint's form is parsed from the
    primitive's own section with t_i := h_i and m := h_4"""
    V = AirView(F)
    path = os.path.join(docspec.DOCS, "stack", "u32_ops.md")
    txt = open(path).read()
    m = re.search(r"### Checking element validity(.*?)\n## ", txt, re.S)
    if not m:
        ctx.violation("doc-anchor|element-validity", "docs/src/design/stack/u32_ops.md", "section 'Checking element validity' not found")
        return
    blk = re.search(r">\s*\$\$(.*?)\$\$", m.group(1), re.S)
    if not blk:
        ctx.violation("doc-anchor|element-validity-formula", "docs/src/design/stack/u32_ops.md", "no constraint formula in 'Checking element validity'")
        return
    ftxt = blk.group(1).replace("v_{hi}", "vhi").replace("v_{lo}", "vlo")
    H = lambda i: Poly.var("c%d" % (V.A.helpers + i))

    def var(name, idx, primed):
        if name == "m":
            return H(4)
        if name == "vhi":
            return H(3) * Poly.const(1 << 16) + H(2)
        if name == "vlo":
            return H(1) * Poly.const(1 << 16) + H(0)
        raise docspec.LatexError("unknown symbol %s" % name)
    try:
        res = docspec.parse_constraint_block(ftxt, var)
    except docspec.LatexError as e:
        ctx.violation("doc-unparsed|element-validity", "docs/src/design/stack/u32_ops.md", str(e))
        return
    want = res[0][1]
    users = []
    for sec in docspec.sections():
        if sec.file.endswith("u32_ops.md") and any("#checking-element-validity" in l for l in sec.lines):
            users.append(sec)
    ctx.floor("sections-requiring-element-validity", len(users), 3)
    for sec in users:
        for base, n in docspec.params_of(sec.name, sec):
            v = variant_of(base, n, V.upper)
            ctx.inst(key="element-validity|%s" % v, nontrivial=True)
            polys = [p for p in V.all_polys(v) if isinstance(p, Poly)]
            ok = any(unit_multiple(p, want) for p in polys)
            ctx.oblig(ok)
            if not ok:
                ctx.violation("element-validity|%s" % v, "%s:%d" % (sec.file, sec.line),
                              "%s: the documentation requires the limbs h0..h3 to form a valid field element (constraint %s = 0 with m in h4), but no transition constraint restricted to %s has this form: "
                              "the prover may encode the 64-bit result plus the field modulus" % (v, V.pretty(want), v))
    # and conversely no other u32 operation is documented to need it: nothing to check


def r2c_current_row(ctx, F):
    """current-row conditions: binary operands and ASSERT (from the parsed specification formulas without next-row cells)"""
    # covered by r2b (the formulas s_0^2 - s_0 = 0 etc. are parsed from the docs); here: the composite top_binary flag
    # must be exactly the set of operations whose documentation carries the formula s_0^2 - s_0 = 0.
    V = AirView(F)
    want = set()
    for var, sec, n, base in doc_instances(V):
        if var is None:
            continue
        for blk, ln in sec.latex:
            try:
                res = docspec.parse_constraint_block(blk, V.latex_var)
            except docspec.LatexError:
                continue
            for b, p in res:
                if unit_multiple(p, V.s(0) * V.s(0) - V.s(0)):
                    want.add(var)
    ctx.floor("ops-with-binary-top-in-spec", len(want), 5)
    b = V.s(0) * V.s(0) - V.s(0)
    for var in sorted(V.ops):
        polys = V.stack_polys(var)
        has = any(unit_multiple(p, b) for p in polys)
        ctx.inst(key=var, nontrivial=(var in want))
        if var in want:
            ctx.oblig(has)
            if not has:
                ctx.violation("top-binary|%s" % var, "air/src/constraints/stack/op_flags/mod.rs",
                              "the specification requires s0 to be binary under %s (s0^2 - s0 = 0) but no constraint restricted to %s enforces it" % (var, var))
    ctx.sample({"binary_top_required_by_spec": sorted(want)})


def r4_overflow(ctx, F):
    V = AirView(F)
    A = V.A
    b0, b1, h0 = Poly.var("c%d" % (V.STK + 16)), Poly.var("c%d" % (V.STK + 17)), Poly.var("c%d" % (V.STK + 18))
    b0n, b1n = Poly.var("n%d" % (V.STK + 16)), Poly.var("n%d" % (V.STK + 17))
    clk = Poly.var("c%d" % F.const(r"^miden_air::trace::CLK_COL_IDX$"))
    one = Poly.const(1)
    f_ov = (b0 - Poly.const(16)) * h0
    dec = docspec.decoder_table()
    handlers = shift_classes_from_docs(V)
    n = 0
    for var in sorted(V.ops):
        polys = V.stack_polys(var)
        cls = handlers.get(var)
        if cls is None:
            continue
        n += 1
        ctx.inst(key=var, nontrivial=True)
        if var in ("Call", "SysCall"):
            want = [b0n - Poly.const(16)]
            what = "depth reset to 16"
        elif var == "End":
            continue  # depends on h5,h6,h7 (call end restores depth through the block stack table)
        elif cls == "left":
            want = [b0n - b0 + f_ov]
            what = "b0' = b0 - f_ov (left shift)"
        elif cls == "right":
            want = [b0n - b0 - one]
            what = "b0' = b0 + 1 (right shift)"
        else:
            want = [b0n - b0]
            what = "b0' = b0 (no shift)"
        ok = any(unit_multiple(p, w) for p in polys for w in want)
        ctx.oblig(ok)
        if not ok:
            ctx.violation("depth|%s" % var, "air/src/constraints/stack/overflow/mod.rs",
                          "stack depth under %s: expected constraint %s; constraints on b0': %s" % (var, what, [V.pretty(p) for p in polys if isinstance(p, Poly) and ("n%d" % (V.STK + 16)) in p.vars()][:3]))
        if cls == "right":
            ok2 = any(unit_multiple(p, b1n - clk) for p in polys)
            ctx.oblig(ok2)
            if not ok2:
                ctx.violation("overflow-addr|%s" % var, "air/src/constraints/stack/overflow/mod.rs", "right shift under %s must set b1' = clk" % var)
        if cls == "left":
            w = (one - f_ov) * V.sn(15)
            ok3 = any(unit_multiple(p, w) for p in polys)
            ctx.oblig(ok3)
            if not ok3:
                ctx.violation("empty-overflow-zero|%s" % var, "air/src/constraints/stack/overflow/mod.rs", "left shift under %s with empty overflow must zero s15': (1-f_ov)*s15' = 0" % var)
        # (1 - f_ov)(b0 - 16) = 0 holds for every operation
        w = (one - f_ov) * (b0 - Poly.const(16))
        ok4 = any(unit_multiple(p, w) for p in polys)
        ctx.oblig(ok4)
        if not ok4:
            ctx.violation("overflow-flag|%s" % var, "air/src/constraints/stack/overflow/mod.rs", "the overflow-flag constraint (1-f_ov)(b0-16)=0 is not active under %s" % var)
    ctx.floor("ops-with-documented-shift-class", n, 60)


def shift_classes_from_docs(V):
    out = {}
    for var, sec, n, base in doc_instances(V):
        if var is None:
            continue
        kinds = [k for k, rest, ln in sec.shift_bullets if rest.strip().startswith("starting from") or rest.strip().startswith("for positions starting")]
        # the whole-stack class is the class of the deepest documented segment
        if base in ("MOVUP", "MOVDN", "SWAPW2", "SWAPW3", "SWAPDW", "NOOP"):
            out[var] = "none"
        elif kinds:
            out[var] = {"Left shift": "left", "Right shift": "right", "No change": "none"}[kinds[-1]]
        elif base in ("RCOMBBASE",):
            out[var] = "none"
    for name, kind in docspec.decoder_table().items():
        v = V.upper.get(name)
        if v:
            out[v] = {"none": "none", "left": "left", "right": "right", "end": "end"}.get(kind, None)
    return out


def r5_range(ctx, F):
    V = AirView(F)
    lo, hi = V.R["ranges"]["range_checker"]
    p = V.by_name["Noop"][lo]
    vcol = F.const(r"^miden_air::trace::range::V_COL_IDX$")
    d = Poly.var("n%d" % vcol) - Poly.var("c%d" % vcol)
    want = d
    for k in range(8):
        want = want * (d - Poly.const(3 ** k))
    ctx.inst(key="v-transition", nontrivial=True)
    ok = unit_multiple(p, want)
    ctx.oblig(ok)
    if not ok:
        ctx.violation("range-v-transition", "air/src/constraints/range.rs", "the range-checker transition polynomial is not (v'-v)*prod_{k=0..7}((v'-v)-3^k) up to a unit")
    ctx.sample({"range_v_polynomial_roots": [0] + [3 ** k for k in range(8)]})
    # sibling constants: processor/src/range builds the table with the same bridge strides
    # aux constraint: LogUp identity
    aux = V.R["aux"][0]
    ctx.inst(key="b_range", nontrivial=True)
    if not isinstance(aux, Poly):
        ctx.violation("b_range-unanalysable", "air/src/constraints/range.rs", "b_range constraint too large for the POLY domain")
        return
    A = V.A
    alpha = Poly.var("alpha0")
    b = Poly.var("ac%d" % F.const(r"^miden_air::trace::range::B_RANGE_COL_IDX$"))
    bn = Poly.var("an%d" % F.const(r"^miden_air::trace::range::B_RANGE_COL_IDX$"))
    mcol = Poly.var("c%d" % F.const(r"^miden_air::trace::range::M_COL_IDX$"))
    v = Poly.var("c%d" % vcol)
    hs = [alpha - Poly.var("c%d" % (A.helpers + i)) for i in range(4)]
    d0 = alpha - Poly.var("c%d" % F.const(r"^miden_air::trace::chiplets::MEMORY_D0_COL_IDX$"))
    d1 = alpha - Poly.var("c%d" % F.const(r"^miden_air::trace::chiplets::MEMORY_D1_COL_IDX$"))
    rc = alpha - v
    ob = F.const(r"^miden_air::trace::decoder::DECODER_OP_BITS_OFFSET$")
    one = Poly.const(1)
    f_u32 = Poly.var("c%d" % (ob + 6)) * (one - Poly.var("c%d" % (ob + 5))) * (one - Poly.var("c%d" % (ob + 4)))
    ch = F.const(r"^miden_air::trace::CHIPLETS_OFFSET$")
    f_mem = Poly.var("c%d" % ch) * Poly.var("c%d" % (ch + 1)) * (one - Poly.var("c%d" % (ch + 2)))
    stack_l = hs[0] * hs[1] * hs[2] * hs[3]
    mem_l = d0 * d1
    lookups = rc * stack_l * mem_l
    want = bn * lookups - (b * lookups + stack_l * mem_l * mcol
                           - rc * mem_l * f_u32 * (hs[1] * hs[2] * hs[3] + hs[0] * hs[2] * hs[3] + hs[0] * hs[1] * hs[3] + hs[0] * hs[1] * hs[2])
                           - rc * stack_l * f_mem * (d0 + d1))
    ok = isinstance(want, Poly) and unit_multiple(aux, want)
    ctx.oblig(ok)
    if not ok:
        ctx.violation("b_range-identity", "air/src/constraints/range.rs",
                      "the b_range constraint is not the LogUp identity of docs/src/design/range.md (4 stack lookups gated by the u32 flag, 2 memory lookups gated by the memory-chiplet flag, multiplicity m)")


def r6_chiplets(ctx, F):
    """SUPPORT domain: every chiplet constraint slot is gated by its chiplet's selector flag and every next-row column
    the chiplet design lists as constrained occurs in at least one slot (necessary condition)."""
    V = AirView(F)
    lo, hi = V.R["ranges"]["chiplets"]
    slots = V.by_name["Noop"][lo:hi]
    ch = F.const(r"^miden_air::trace::CHIPLETS_OFFSET$")
    ctx.floor("chiplet-slots", len(slots), 70)
    counts = {"selectors": F.const(r"^miden_air::constraints::chiplets::NUM_CONSTRAINTS$"),
              "hasher": F.const(r"^miden_air::constraints::chiplets::hasher::NUM_CONSTRAINTS$"),
              "bitwise": F.const(r"^miden_air::constraints::chiplets::bitwise::NUM_CONSTRAINTS$"),
              "memory": F.const(r"^miden_air::constraints::chiplets::memory::NUM_CONSTRAINTS$")}
    off = 0
    groups = {}
    for g in ("selectors", "hasher", "bitwise", "memory"):
        groups[g] = slots[off:off + counts[g]]
        off += counts[g]
    s = lambda i: "c%d" % (ch + i)
    gate = {"hasher": set(), "bitwise": {s(0)}, "memory": {s(0), s(1)}}
    for g in ("hasher", "bitwise", "memory"):
        for i, p in enumerate(groups[g]):
            ctx.inst(key="%s%d" % (g, i), nontrivial=True)
            vs = p.vars() if isinstance(p, (Poly, Sup)) else set()
            ok = bool(vs) and gate[g] <= vs
            ctx.oblig(ok)
            if not vs:
                ctx.violation("chiplet-slot-empty|%s|%d" % (g, i), "air/src/constraints/chiplets/%s/mod.rs" % g, "constraint slot %d of the %s chiplet is identically zero" % (i, g))
            elif not ok:
                ctx.violation("chiplet-slot-ungated|%s|%d" % (g, i), "air/src/constraints/chiplets/%s/mod.rs" % g, "slot %d of %s is not multiplied by the chiplet selector(s) %s" % (i, g, sorted(gate[g])))
    # next-row columns that must occur
    rng = lambda name: F.const(r"^miden_air::trace::chiplets::%s$" % name)
    hs = rng("HASHER_STATE_COL_RANGE")["fields"]
    need = {
        "hasher": ["n%d" % c for c in range(hs[0], hs[1])] + ["n%d" % rng("HASHER_NODE_INDEX_COL_IDX")] + ["n%d" % c for c in range(rng("HASHER_SELECTOR_COL_RANGE")["fields"][0], rng("HASHER_SELECTOR_COL_RANGE")["fields"][1])],
        "bitwise": ["n%d" % rng("BITWISE_A_COL_IDX"), "n%d" % rng("BITWISE_B_COL_IDX"), "n%d" % rng("BITWISE_OUTPUT_COL_IDX"), "n%d" % rng("BITWISE_SELECTOR_COL_IDX")]
                   + ["n%d" % c for c in range(rng("BITWISE_A_COL_RANGE")["fields"][0], rng("BITWISE_B_COL_RANGE")["fields"][1])],
        "memory": ["n%d" % rng("MEMORY_CTX_COL_IDX"), "n%d" % rng("MEMORY_ADDR_COL_IDX"), "n%d" % rng("MEMORY_CLK_COL_IDX"),
                   "n%d" % rng("MEMORY_D0_COL_IDX"), "n%d" % rng("MEMORY_D1_COL_IDX"), "n%d" % rng("MEMORY_D_INV_COL_IDX")]
                  + ["n%d" % c for c in range(rng("MEMORY_V_COL_RANGE")["fields"][0], rng("MEMORY_V_COL_RANGE")["fields"][1])],
    }
    for g, cols in need.items():
        allv = set()
        for p in groups[g]:
            if isinstance(p, (Poly, Sup)):
                allv |= p.vars()
        for c in cols:
            ctx.inst(key=g + c, nontrivial=True)
            ok = c in allv or ("c" + c[1:]) in allv
            ctx.oblig(ok)
            if not ok:
                ctx.violation("chiplet-column-unconstrained|%s|%s" % (g, c[1:]), "air/src/constraints/chiplets/%s/mod.rs" % g,
                              "column %s of the %s chiplet occurs in no transition constraint of that chiplet (neither current nor next row)" % (c[1:], g))
    # chiplet selector constraints, exact canonical forms
    one = Poly.const(1)
    S = [Poly.var(s(i)) for i in range(3)]
    Sn = [Poly.var("n%d" % (ch + i)) for i in range(3)]
    want = [S[0] * S[0] - S[0], S[0] * (S[1] * S[1] - S[1]), S[0] * S[1] * (S[2] * S[2] - S[2]),
            S[0] * (Sn[0] - S[0]), S[0] * S[1] * (Sn[1] - S[1]), S[0] * S[1] * S[2] * (Sn[2] - S[2])]
    for i, w in enumerate(want):
        ctx.inst(key="sel%d" % i, nontrivial=True)
        ok = any(unit_multiple(p, w) for p in groups["selectors"])
        ctx.oblig(ok)
        if not ok:
            ctx.violation("chiplet-selector|%d" % i, "air/src/constraints/chiplets/mod.rs", "chiplet selector constraint %s missing" % V.pretty(w))


class _Sub:
    """adapter: groups (base, prime, subscript, prime) of the identifier pattern with either {..} or single-char subscript"""
    def __init__(self, m):
        self.m = m

    def group(self, i):
        m = self.m
        return {1: m.group(1), 2: m.group(2), 3: m.group(3) if m.group(3) is not None else m.group(4), 4: m.group(5)}[i]


def latex_constraint_poly(expr, resolve, presub=()):
    """polynomial of a documented constraint's left-hand side; resolve(base, subscript, primed) -> Poly"""
    from . import decdocs
    e = expr
    e = re.sub(r"\\text\s*\{[^}]*\}\s*=\s*\d+", "", e)
    e = re.sub(r"\\text\s*\{[^}]*\}.*$", "", e)
    e = e.replace("\\left", "").replace("\\right", "")
    for a_, b_ in presub:
        e = re.sub(a_, b_, e)
    e = decdocs.expand_sums(e)
    e = e.replace("\\cdot", "*")
    env = {}

    def name(m):
        base, p1, sub, p2 = m.group(1), m.group(2), m.group(3), m.group(4)
        v = resolve(base, sub, bool(p1 or p2))
        ident = "V%d" % len(env)
        env[ident] = v
        return ident
    e = re.sub(r"(?<![A-Za-z\\])([a-z])('?)(?:_(?:\{([0-9a-z]+)\}|([0-9a-z])))?('?)", lambda m: name(_Sub(m)), e)
    e = re.sub(r"(V\d+)\s*\^\s*2", r"(\1*\1)", e)
    # ( ... )^2
    while True:
        m = re.search(r"\)\s*\^\s*2", e)
        if not m:
            break
        j, depth = m.start(), 0
        while True:
            if e[j] == ")":
                depth += 1
            elif e[j] == "(":
                depth -= 1
                if depth == 0:
                    break
            j -= 1
        grp = e[j:m.start() + 1]
        e = e[:j] + "(" + grp + "*" + grp + ")" + e[m.end():]
    e = re.sub(r"2\s*\^\s*\{?(\d+)\}?", lambda m: str(2 ** int(m.group(1))), e)
    e = re.sub(r"(?<![V\d])(\d+)", r"K(\1)", e)
    env["K"] = Poly.const
    if not re.match(r"^[\sV\dK()+\-*]+$", e):
        raise ValueError("unsupported formula text %r" % e)
    return eval(e, {"__builtins__": {}}, env)


def documented_chiplet_constraints(ctx, F, V, chip, docfile, after, group, resolve, presub, index_names, sel_var, floor, jrange=None, until=None):
    """every `> $$ ... = 0 $$` constraint of the given design document (from the marker `after` on) is present, up to a unit,
    among `group`; selector-gated alternatives may be implemented as their sum"""
    path = os.path.join(extract.REPO, docfile)
    txt = open(path).read()
    start = txt.index(after) if after and after in txt else 0
    if until and until in txt[start:]:
        txt = txt[:start + txt[start:].index(until)]
    docs = []
    multi = []
    for m in re.finditer(r"^>\s*\$\$\n(.*?)\n\$\$", txt[start:], re.S | re.M):
        body = m.group(1).strip()
        if "\\prod" in body or "alpha" in body or "b_{chip}" in body:
            continue
        line0 = txt[:start + m.start()].count("\n") + 2
        parts = [x.strip() for x in re.split(r"\\\\\s*\n", body)]
        if len(parts) > 1:
            for k_, part in enumerate(parts):
                if "= 0" in part:
                    multi.append((line0 + k_, part))
            continue
        if "= 0" not in body:
            continue
        lhs = body.split("= 0")[0]
        line = line0
        quant = re.search(r"\\text\{\s*for\s*\}\s*([a-z])\s*\\in\s*\\\{([0-9,\s]+)\\\}", body)
        if quant:
            insts = [re.sub(r"_%s\b" % quant.group(1), "_%s" % k.strip(), lhs) for k in quant.group(2).split(",")]
        elif index_names and re.search(r"[%s]_i" % index_names, lhs) and "\\sum" not in lhs:
            insts = [lhs.replace("_i", "_%d" % i) for i in range(4)]
        else:
            insts = [lhs]
        for f in insts:
            docs.append((line, f.strip()))
    for line, part in multi:
        docs.append((line, part.split("= 0")[0].strip()))
    if jrange:
        exp = []
        for line, f in docs:
            if re.search(r"_\{?j|'_j", f):
                for j in jrange:
                    g = re.sub(r"_\{\s*j\s*\+\s*(\d+)\s*\}", lambda mm: "_{%d}" % (j + int(mm.group(1))), f)
                    g = re.sub(r"_\{?j\}?", "_{%d}" % j, g)
                    exp.append((line, g))
            else:
                exp.append((line, f))
        docs = exp
    ctx.floor("documented-%s-constraints" % chip, len(docs), floor)
    parsed = []
    for line, f in docs:
        try:
            parsed.append((line, f, latex_constraint_poly(f, resolve, presub)))
        except (ValueError, SyntaxError, TypeError, NameError, KeyError) as e:
            ctx.inst(key="%s-doc|%s" % (chip, re.sub(r"\s+", "", f)[:60]), nontrivial=True)
            ctx.violation("UNANALYSABLE|%s-doc|%s" % (chip, re.sub(r"\s+", "", f)[:40]), "%s:%d" % (docfile, line), "cannot read the formula: %s" % str(e)[:160])
    unmatched = [(l_, f_, w_) for l_, f_, w_ in parsed if not any(unit_multiple(p, w_) for p in group)]
    merged = set()
    if len(unmatched) >= 2 and sel_var is not None:
        tot = Poly()
        for l_, f_, w_ in unmatched:
            tot = tot + w_
        if all(sel_var in w_.vars() for l_, f_, w_ in unmatched) and any(unit_multiple(p, tot) for p in group):
            merged = {f_ for l_, f_, w_ in unmatched}
    for line, f, want in parsed:
        ctx.inst(key="%s-doc|%s" % (chip, re.sub(r"\s+", "", f)[:60]), nontrivial=True)
        ok = f in merged or any(unit_multiple(p, want) for p in group)
        ctx.oblig(ok)
        if not ok:
            ctx.violation("%s-doc-constraint|%s" % (chip, re.sub(r"\s+", "", f)[:60]), "%s:%d" % (docfile, line),
                          "the documented %s chiplet constraint %s = 0 is not among the chiplet's transition constraints (up to a unit): %s" % (chip, f, V.pretty(want)[:200]))


def chiplet_groups(F, V):
    lo, hi = V.R["ranges"]["chiplets"]
    slots = V.by_name["Noop"][lo:hi]
    n_sel = F.const(r"^miden_air::constraints::chiplets::NUM_CONSTRAINTS$")
    n_h = F.const(r"^miden_air::constraints::chiplets::hasher::NUM_CONSTRAINTS$")
    n_b = F.const(r"^miden_air::constraints::chiplets::bitwise::NUM_CONSTRAINTS$")
    n_m = F.const(r"^miden_air::constraints::chiplets::memory::NUM_CONSTRAINTS$")
    return {"bitwise": slots[n_sel + n_h:n_sel + n_h + n_b], "memory": slots[n_sel + n_h + n_b:n_sel + n_h + n_b + n_m]}


def r6b_bitwise_docs(ctx, F):
    """every constraint formula of docs/src/design/chiplets/bitwise.md (selector, input decomposition incl. the binary checks of
    all eight bit columns, output aggregation) is present, up to a unit, among the bitwise chiplet's transition constraints with
    the chiplet flag set"""
    V = AirView(F)
    ch = F.const(r"^miden_air::trace::CHIPLETS_OFFSET$")
    nper = F.const(r"^miden_air::constraints::chiplets::hasher::NUM_PERIODIC_COLUMNS$")
    # the chiplet flag of the bitwise section is s0 * (1 - s1')
    group = [p.subst({"c%d" % ch: 1, "c%d" % (ch + 1): 0, "n%d" % (ch + 1): 0}) for p in chiplet_groups(F, V)["bitwise"] if isinstance(p, Poly)]
    rng = lambda name: F.const(r"^miden_air::trace::chiplets::%s$" % name)
    col = {"s": rng("BITWISE_SELECTOR_COL_IDX"), "a": rng("BITWISE_A_COL_IDX"), "b": rng("BITWISE_B_COL_IDX"),
           "z_p": rng("BITWISE_PREV_OUTPUT_COL_IDX"), "z": rng("BITWISE_OUTPUT_COL_IDX")}
    a0, b0 = rng("BITWISE_A_COL_RANGE")["fields"][0], rng("BITWISE_B_COL_RANGE")["fields"][0]
    for i in range(4):
        col["a_%d" % i] = a0 + i
        col["b_%d" % i] = b0 + i

    def resolve(base, sub, primed):
        key = base + ("_" + sub if sub is not None else "")
        if base == "k":
            return Poly.var("p%d" % (nper + int(sub)))
        return Poly.var(("n" if primed else "c") + str(col[key]))
    documented_chiplet_constraints(ctx, F, V, "bitwise", "docs/src/design/chiplets/bitwise.md", None, group, resolve, (), "ab", "c%d" % col["s"], 15)


def r6c_memory_docs(ctx, F):
    """every constraint of the `AIR constraints` section of docs/src/design/chiplets/memory.md (d_inv / n0 / n1 definitions,
    selector rules, delta decomposition, zero initialisation, value copy) is present among the memory chiplet's constraints"""
    V = AirView(F)
    ch = F.const(r"^miden_air::trace::CHIPLETS_OFFSET$")
    # memory flag: s0 * s1 * (1 - s2')
    group = [p.subst({"c%d" % ch: 1, "c%d" % (ch + 1): 1, "c%d" % (ch + 2): 0, "n%d" % (ch + 2): 0}) for p in chiplet_groups(F, V)["memory"] if isinstance(p, Poly)]
    rng = lambda name: F.const(r"^miden_air::trace::chiplets::%s$" % name)
    sel0 = rng("MEMORY_SELECTORS_COL_IDX")
    v0 = rng("MEMORY_V_COL_RANGE")["fields"][0]
    col = {"c": rng("MEMORY_CTX_COL_IDX"), "a": rng("MEMORY_ADDR_COL_IDX"), "i": rng("MEMORY_CLK_COL_IDX"), "t": rng("MEMORY_D_INV_COL_IDX"),
           "d_0": rng("MEMORY_D0_COL_IDX"), "d_1": rng("MEMORY_D1_COL_IDX"), "s_0": sel0, "s_1": sel0 + 1}
    for i in range(4):
        col["v_%d" % i] = v0 + i

    def resolve(base, sub, primed):
        key = base + ("_" + sub if sub is not None else "")
        return Poly.var(("n" if primed else "c") + str(col[key]))
    presub = ((r"\\Delta\s*c", "(c' - c)"), (r"\\Delta\s*a", "(a' - a)"), (r"\\Delta\s*i", "(i' - i - 1)"),
              (r"n_0", "((c' - c) \\\\cdot t')"), (r"n_1", "((a' - a) \\\\cdot t')"))
    documented_chiplet_constraints(ctx, F, V, "memory", "docs/src/design/chiplets/memory.md", "### AIR constraints", group, resolve, presub, "v", None, 15)


def r6d_hasher_docs(ctx, F):
    """selector, node-index and state-copy constraints of docs/src/design/chiplets/hasher.md (flags expanded from the
    instruction-flag table) are present among the hasher chiplet's constraints; the RPO round constraints are not listed there"""
    V = AirView(F)
    ch = F.const(r"^miden_air::trace::CHIPLETS_OFFSET$")
    lo, hi = V.R["ranges"]["chiplets"]
    slots = V.by_name["Noop"][lo:hi]
    n_sel = F.const(r"^miden_air::constraints::chiplets::NUM_CONSTRAINTS$")
    n_h = F.const(r"^miden_air::constraints::chiplets::hasher::NUM_CONSTRAINTS$")
    # hasher flag: 1 - s0 (chiplet selector of the current row)
    group = [p.subst({"c%d" % ch: 0}) for p in slots[n_sel:n_sel + n_h] if isinstance(p, Poly)]
    rng = lambda name: F.const(r"^miden_air::trace::chiplets::%s$" % name)
    s0 = rng("HASHER_SELECTOR_COL_RANGE")["fields"][0]
    h0 = rng("HASHER_STATE_COL_RANGE")["fields"][0]
    idx = rng("HASHER_NODE_INDEX_COL_IDX")
    path = os.path.join(extract.REPO, "docs/src/design/chiplets/hasher.md")
    txt = open(path).read()
    flags = {}
    for m in re.finditer(r"^\|\s*\$f_\{(\w+)\}\$\s*\|\s*\$([^$]+)\$\s*\|", txt, re.M):
        flags[m.group(1)] = m.group(2).strip()
    for m in re.finditer(r"flag \$f_\{(\w+)\}('?)\s*=\s*([^$]+)\$", txt):
        flags[m.group(1) + ("'" if m.group(2) else "")] = m.group(3).strip()
    m = re.search(r"f_\{an\}\s*=\s*([^\n$]+)", txt)
    if m:
        flags["an"] = m.group(1).strip()
    ctx.floor("hasher-flag-definitions", len(flags), 12)
    presub = [(r"b(?![a-z_{])", "(i - 2 \\\\cdot i')")]
    # longest names first; primed variants before plain ones; definitions may refer to other flags (f_an)
    order = sorted(flags, key=lambda k: (-len(k), k))
    for k in order:
        nm = k.rstrip("'")
        pat = r"f_\{%s\}'" % nm if k.endswith("'") else r"f_\{%s\}(?!')" % nm
        presub.append((pat, "(" + flags[k].replace("\\", "\\\\") + ")"))
    presub = [(r"f_\{an\}", "(" + flags.get("an", "0").replace("\\", "\\\\") + ")")] + presub if "an" in flags else presub

    def resolve(base, sub, primed):
        pre = "n" if primed else "c"
        if base == "k":
            return Poly.var("p%d" % int(sub))
        if base == "s":
            return Poly.var(pre + str(s0 + int(sub)))
        if base == "h":
            return Poly.var(pre + str(h0 + int(sub)))
        if base == "i" and sub is None:
            return Poly.var(pre + str(idx))
        raise KeyError("%s_%s" % (base, sub))
    documented_chiplet_constraints(ctx, F, V, "hasher", "docs/src/design/chiplets/hasher.md", "## AIR constraints", group, resolve, tuple(presub), "", None, 15,
                                   jrange=range(4), until="### Multiset check constraints")


def r6e_no_vacuous_periodic(ctx, F):
    """no transition constraint vanishes identically at every row position of its periodic cycle: a constraint gated by a product
    of periodic masks that are never 1 together (e.g. the last-row and the first-row mask of the 8-row hasher cycle) is
    enforced nowhere"""
    V = AirView(F)
    nper = F.const(r"^miden_air::constraints::chiplets::hasher::NUM_PERIODIC_COLUMNS$")
    RINV = pow(2 ** 64 % P, -1, P)

    def mask(name):
        k = F.const(name)
        vals = [(v if isinstance(v, int) else v.get("val", v)) for v in (k["fields"] if isinstance(k, dict) else k)]
        return [v * RINV % P if v > 1 else v for v in vals]
    masks = {"p0": mask(r"^miden_air::constraints::chiplets::hasher::HASH_K0_MASK$"), "p1": mask(r"^miden_air::constraints::chiplets::hasher::HASH_K1_MASK$"),
             "p2": mask(r"^miden_air::constraints::chiplets::hasher::HASH_K2_MASK$"),
             "p%d" % nper: mask(r"^miden_air::constraints::chiplets::bitwise::BITWISE_K0_MASK$"), "p%d" % (nper + 1): mask(r"^miden_air::constraints::chiplets::bitwise::BITWISE_K1_MASK$")}
    ok_masks = all(len(m) == 8 and set(m) <= {0, 1} for m in masks.values())
    ctx.inst(key="periodic-masks", nontrivial=True)
    ctx.oblig(ok_masks)
    if not ok_masks:
        ctx.violation("periodic-masks", "air/src/constraints/chiplets", "periodic selector masks are not 0/1 columns of length 8: %s" % masks)
        return
    lo, hi = V.R["ranges"]["chiplets"]
    polys = V.by_name["Noop"]
    n = 0
    for ci, poly in enumerate(polys):
        if not isinstance(poly, Poly) or not (set(masks) & poly.vars()):
            continue
        n += 1
        ctx.inst(key="constraint#%d" % ci, nontrivial=True)
        alive = [pos for pos in range(8) if not poly.subst({k: m[pos] for k, m in masks.items()}).is_zero()]
        ctx.oblig(bool(alive))
        if not alive:
            used = sorted(set(masks) & poly.vars())
            nxt = sorted((v for v in poly.vars() if re.match(r"^n\d+$", v)), key=lambda v: int(v[1:]))
            ctx.violation("vacuous-constraint|%s|%s" % ("*".join(used), ",".join(nxt)), "air/src/constraints/chiplets/%s/mod.rs" % ("hasher" if ci < lo + 36 else "bitwise"),
                          "transition constraint #%d is multiplied by the periodic masks %s, which are never 1 on the same row of the 8-row cycle: it vanishes on every row and enforces nothing (%s)"
                          % (ci, used, V.pretty(poly)[:160]))
    ctx.floor("constraints-with-periodic-masks", n, 20)


def r6f_no_dead_constraint(ctx, F):
    """every stack / range-checker transition constraint is non-zero for at least one operation (a constraint multiplied by two
    mutually exclusive operation flags would be enforced for no operation)"""
    V = AirView(F)
    R = V.R
    n = 0
    for part in ("stack", "range_checker"):
        lo, hi = R["ranges"][part]
        for ci in range(lo, hi):
            n += 1
            ctx.inst(key="constraint#%d" % ci, nontrivial=True)
            alive = [name for name, polys in V.by_name.items() if isinstance(polys[ci], (Poly, Sup)) and (polys[ci].vars() if isinstance(polys[ci], Sup) else not polys[ci].is_zero())]
            ctx.oblig(bool(alive))
            if not alive:
                ctx.violation("dead-constraint|%s|#%d" % (part, ci - lo), "air/src/constraints/%s" % ("stack" if part == "stack" else "range.rs"),
                              "%s transition constraint #%d (slot %d of its group) is identically zero for every one of the %d operations: it is enforced nowhere" % (part, ci, ci - lo, len(V.by_name)))
    ctx.floor("stack-and-range-constraints", n, 100)


def run(ctx, F):
    ctx.trusted += ["rustc MIR (nightly) via mirfacts", "mirsym abstract interpreter (exact polynomials over GF(2^64-2^32+1))",
                    "docs/src/design as the specification oracle (parsed at run time)", "frozen tables CONDITIONAL/EXEMPT in vlib/rules_c04.py"]
    ctx.assumptions += ["a cell fixed by u*c' - f(current row) with constant u != 0 cannot take a wrong value (sufficient: proof for that cell)",
                        "cells listed as conditional are checked for occurrence only (necessary condition)",
                        "chiplets: occurrence and gating only (SUPPORT domain), determinacy not decided",
                        "bus-defined cells (memory, advice, hasher results) are outside C04's enforced classes"]
    ctx.run_rule("C04-R1", "every enforce_* constraint function is reachable from evaluate_transition/evaluate_aux_transition", r1_wiring, F)
    ctx.run_rule("C04-R3", "flag_X(opcode_Y) = delta_XY for all 89 opcodes x all flag accessors; opcode table injective and 7-bit", r3_flags, F)
    ctx.run_rule("C04-R2", "per (operation, next-row stack cell): documented copy/shift cells have the exact constraint s_i' - s_j; operation-specific cells are fixed by a constraint linear in the cell with unit coefficient (non-trivial = operation-specific cell)", r2_determinacy, F)
    ctx.run_rule("C04-R2b", "every constraint formula of docs/design/stack/*.md that parses is present (up to a unit) among the constraints restricted to its operation", r2b_latex, F)
    ctx.run_rule("C04-R2d", "operations whose documentation refers to the element-validity primitive carry that constraint (form parsed from the primitive's section)", r2d_referenced_primitives, F)
    ctx.run_rule("C04-R2c", "operations whose specification demands a binary top element have s0^2-s0 active", r2c_current_row, F)
    ctx.run_rule("C04-R4", "stack depth / overflow bookkeeping constraints in canonical form per shift class", r4_overflow, F)
    ctx.run_rule("C04-R5", "range-checker transition roots {0,3^0..3^7} and the b_range LogUp identity", r5_range, F)
    ctx.run_rule("C04-R6b", "bitwise chiplet: every documented constraint (design/chiplets/bitwise.md), including the binary checks of all eight decomposition columns, is present among the chiplet's constraints", r6b_bitwise_docs, F)
    ctx.run_rule("C04-R6c", "memory chiplet: every documented constraint of design/chiplets/memory.md (AIR constraints section) is present among the chiplet's constraints", r6c_memory_docs, F)
    ctx.run_rule("C04-R6d", "hasher chiplet: the documented selector, node-index and state-copy constraints (design/chiplets/hasher.md, flags expanded from the instruction-flag table) are present among the chiplet's constraints", r6d_hasher_docs, F)
    ctx.run_rule("C04-R6e", "no transition constraint is gated by periodic masks that are never 1 on the same row (vanishing at all 8 positions of its cycle)", r6e_no_vacuous_periodic, F)
    ctx.run_rule("C04-R6f", "every stack / range-checker transition constraint is non-zero for at least one operation", r6f_no_dead_constraint, F)
    ctx.run_rule("C04-R6", "chiplet constraint slots gated by their selectors; listed next-row columns occur; selector constraints exact", r6_chiplets, F)

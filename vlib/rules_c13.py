"""C13 — the decoded operation stream is exactly the program: nesting, one row per cycle, executor/accumulator
agreement over every reachable batch layout, program-hash row."""
import re
from .mirutil import *
from .mirsym import Interp, Agg, Poly, Term, Ptr, Opaque
from . import batching, rules_c15, opmodel

LEVEL = "model_checking"
DEC = r"^miden_processor::decoder::Decoder::"


def r1_nesting(ctx, F):
    starts = F.find(DEC + r"start_(join|split|loop|call|syscall|dyn|span)$")
    ends = F.find(DEC + r"(end_control_block|end_span)$")
    ctx.floor("decoder-start-methods", len(starts), 7)
    for f in starts + ends:
        is_start = f.name.startswith("start_")
        stack_call = r"BlockStack::push$" if is_start else r"BlockStack::pop$"
        other = r"BlockStack::pop$" if is_start else r"BlockStack::push$"
        mm = count_on_paths(f, call_weight(f, stack_call), avoid=panic_blocks(f))
        rows = count_on_paths(f, call_weight(f, r"DecoderTrace::append_\w+$"), avoid=panic_blocks(f))
        oth = count_on_paths(f, call_weight(f, other), avoid=panic_blocks(f))
        ctx.inst(key=f.id, nontrivial=True)
        ok = mm == (1, 1) and rows == (1, 1) and oth == (0, 0)
        ctx.oblig(ok)
        ctx.analysed("%s: block stack %s x%s, rows %s" % (f.name, "push" if is_start else "pop", mm, rows))
        if not ok:
            ctx.violation("nesting|%s" % f.name, f.loc(), "%s must %s the block stack exactly once and append exactly one decoder row on every path (got stack %s, rows %s, opposite %s)"
                          % (f.name, "push" if is_start else "pop", mm, rows, oth))
    for name in ("repeat", "respan", "execute_user_op"):
        f = F.fn(DEC + name + "$")
        rows = count_on_paths(f, call_weight(f, r"DecoderTrace::append_\w+$"), avoid=panic_blocks(f))
        st = count_on_paths(f, call_weight(f, r"BlockStack::(push|pop)$"), avoid=panic_blocks(f))
        ctx.inst(key=f.id, nontrivial=True)
        ok = rows == (1, 1) and st == (0, 0)
        ctx.oblig(ok)
        if not ok:
            ctx.violation("row|%s" % name, f.loc(), "Decoder::%s must append exactly one row and leave the block stack alone (rows %s, stack ops %s)" % (name, rows, st))
    # executors: start before children, end after (shape shared with C06-R2)
    from . import rules_c06
    rules_c06.r2_executor_shape(ctx, F)


def r3_executor_agreement(ctx, F):
    R = batching.explore(F)
    vs = []
    def viol(kind, st, msg):
        vs.append((kind, "".join(c[0] for c in st.hist), msg))
    lim = 9999 if ctx.tier == "thorough" else 26
    n = 0
    for st, b in R["finals"]:
        if len(st.hist) <= lim:
            batching.check_executor(F, st, b, viol)
            n += 1
    ctx.extra["states"] = R["states"]
    ctx.extra["transitions"] = R["transitions"]
    ctx.extra["traces_validated_against_impl"] = 0
    ctx.extra["batches_executed_abstractly"] = n
    ctx.inst(n=n)
    r = ctx.rules[ctx.cur]
    r["nontrivial"] |= {"batch%d" % i for i in range(n)}
    ctx.floor("batch-layouts", n, 1500)
    for st, b in R["finals"][5:8]:
        ctx.sample({"history": "".join(c[0] for c in st.hist), "layout": [(s[0], "".join(x[0] for x in s[1])) if s and s[0] == "ops" else (s[0] if s else None) for s in st.shadow]})
    # accumulator-side inconsistencies make the executor's input wrong: report them here too
    seen = set()
    for kind, desc, msg in R["violations"]:
        if kind.startswith("op-count") or kind.startswith("group-value") or kind.startswith("num-groups"):
            if kind in seen:
                continue
            seen.add(kind)
            ctx.violation("batch-metadata|%s" % kind, "core/src/program/blocks/span_block.rs", "%s [first reached with %s]" % (msg, desc))
    seen = set()
    for kind, hist, msg in vs:
        if kind in seen:
            continue
        seen.add(kind)
        ctx.violation("executor|%s" % kind, "processor/src/lib.rs", "%s [operation classes of the batch: %s]" % (msg, hist))
    ctx.oblig(not vs and not seen, n=max(1, n))
    # group counter: get_span_op_group_count = (#batches - 1)*8 + next_power_of_two(last batch groups)
    g = F.fn(r"^miden_core::program::blocks::span_block::get_span_op_group_count$")
    ok = any(c.endswith("next_power_of_two") for bi, c, t in g.calls()) and any(str(k.get("named", "")).endswith("BATCH_SIZE") or k.get("c") == 8 for b in g.blocks for s in b["s"] for k in g.rvalue_operands(s["r"]) if isinstance(k, dict))
    ctx.oblig(ok)
    if not ok:
        ctx.violation("group-count-formula", g.loc(), "get_span_op_group_count must be (#batches-1)*BATCH_SIZE + next_power_of_two(groups of the last batch)")


def r4_program_hash_row(ctx, F):
    """DecoderTrace::program_hash reads hasher columns 0..3 of the last row"""
    fn = F.fn(r"^miden_processor::decoder::trace::DecoderTrace::program_hash$")
    adt = F.adt(r"^miden_processor::decoder::trace::DecoderTrace$")
    fields = adt["variants"][0]["fields"]
    consts = {"NUM_OP_BITS": 7, "NUM_HASHER_COLUMNS": F.const(r"^miden_air::trace::decoder::NUM_HASHER_COLUMNS$"), "NUM_OP_BATCH_FLAGS": 3, "NUM_OP_BITS_EXTRA_COLS": 2}
    items = []
    for fd in fields:
        m = re.match(r"^\[.*Vec<.*>; (\w+)\]$", fd["ty"])
        if m:
            n = int(m.group(1)) if m.group(1).isdigit() else consts.get(m.group(1).rsplit("::", 1)[-1], 8)
            items.append(Agg([Agg([Poly.var("%s%d_r0" % (fd["name"], i)), Poly.var("%s%d_last" % (fd["name"], i))], "vec") for i in range(n)], "array"))
        else:
            items.append(Agg([Poly.var(fd["name"] + "_r0"), Poly.var(fd["name"] + "_last")], "vec"))
    tr = Agg(items, "adt", adt["id"], adt["variants"][0]["name"])
    I = Interp(F)
    r = I.call(fn.id, [Ptr([tr], 0)])
    got = [repr(x) for x in r.items] if isinstance(r, Agg) else repr(r)
    want = ["hasher_trace%d_last" % i for i in range(4)]
    ctx.inst(key="program_hash", nontrivial=True)
    ctx.sample({"program_hash_reads": got})
    ctx.oblig(got == want)
    if got != want:
        ctx.violation("program-hash-row", fn.loc(), "DecoderTrace::program_hash returns %s; it must be hasher columns 0..3 of the last row %s" % (got, want))


def r6_block_stack_flags(ctx, F):
    """BlockStack::push, interpreted exhaustively over (parent kind x child kind): the new block's parent address, is_loop_body
    and is_first_child depend on the parent only - is_loop_body iff the parent is a loop, is_first_child iff the parent is a JOIN
    whose first child has not run, parent address = the parent's address (0 without parent) - and push returns the parent address;
    BlockStack::pop marks the parent JOIN's first child as executed"""
    from .mirsym import Interp, Agg, Poly, Ptr, Opaque, Unanalysable, PanicReached
    bt = F.adt(r"^miden_processor::decoder::block_stack::BlockType$")
    bi = F.adt(r"^miden_processor::decoder::block_stack::BlockInfo$")
    bs = F.adt(r"^miden_processor::decoder::block_stack::BlockStack$")
    push = F.fn(r"block_stack::BlockStack::push$")
    pop = F.fn(r"block_stack::BlockStack::pop$")
    bif = [f["name"] for f in bi["variants"][0]["fields"]]
    kinds = []
    for v in bt["variants"]:
        if v["fields"]:
            kinds += [(v["name"], (False,)), (v["name"], (True,))]
        else:
            kinds.append((v["name"], ()))
    ctx.floor("block-kinds", len(kinds), 9)
    BT = lambda k: Agg(list(k[1]), "adt", bt["id"], k[0])
    none = lambda: Agg([], "adt", "core::option::Option", "None")
    info = lambda kind, addr: Agg([{"addr": Poly.var(addr), "block_type": BT(kind), "parent_addr": Poly.var("g" + addr), "ctx_info": none(), "is_loop_body": False, "is_first_child": False}[n] for n in bif], "adt", bi["id"], bi["variants"][0]["name"])
    parents = [None] + [k for k in kinds if k != ("Loop", (False,))]       # an un-entered loop never gets children (debug assertion in push)
    for parent in parents:
        for child in kinds:
            key = "push|parent=%s|child=%s" % (parent and "%s%s" % parent, "%s%s" % child)
            ctx.inst(key=key, nontrivial=True)
            st = Agg([Agg([info(parent, "paddr")] if parent else [], "vec")], "adt", bs["id"], bs["variants"][0]["name"])
            ci = Agg([Opaque("ctx_info")], "adt", "core::option::Option", "Some") if child[0] in ("Call", "SysCall") else none()
            try:
                r = Interp(F).call(push.id, [Ptr([st], 0), Poly.var("addr"), BT(child), ci])
            except (Unanalysable, PanicReached) as e:
                ctx.violation("UNANALYSABLE|BlockStack::push", push.loc(), "%s: %s" % (key, str(e)[:200]))
                continue
            d = dict(zip(bif, st.items[0].items[-1].items))
            want_addr = "paddr" if parent else "0"
            want = (want_addr, want_addr, bool(parent and parent[0] == "Loop"), bool(parent and parent == ("Join", (False,))))
            got = (repr(r), repr(d["parent_addr"]), d["is_loop_body"], d["is_first_child"])
            ok = got == want and repr(d["addr"]) == "addr" and d["block_type"].variant == child[0] and list(d["block_type"].items) == list(child[1])
            ctx.oblig(ok)
            if not ok:
                ctx.violation("block-flags|parent=%s|child=%s" % (parent and parent[0], child[0] + ("" if not child[1] else str(child[1][0]))), push.loc(),
                              "BlockStack::push of a %s%s block under %s records (returned parent, parent_addr, is_loop_body, is_first_child) = %s; expected %s: the END / REPEAT rows of this block carry wrong flags"
                              % (child[0], child[1] or "", ("a %s%s parent" % parent) if parent else "no parent", got, want))
    # pop: a JOIN parent whose first child just finished is marked
    for pk, want in ((("Join", (False,)), True), (("Join", (True,)), True)):
        ctx.inst(key="pop|parent=%s%s" % pk, nontrivial=True)
        st = Agg([Agg([info(pk, "paddr"), info(("Span", ()), "caddr")], "vec")], "adt", bs["id"], bs["variants"][0]["name"])
        try:
            r = Interp(F).call(pop.id, [Ptr([st], 0)])
        except (Unanalysable, PanicReached) as e:
            ctx.violation("UNANALYSABLE|BlockStack::pop", pop.loc(), str(e)[:200])
            continue
        rest = st.items[0].items
        pbt = dict(zip(bif, rest[0].items))["block_type"] if len(rest) == 1 else None
        ok = pbt is not None and pbt.variant == "Join" and list(pbt.items) == [want] and repr(dict(zip(bif, r.items))["addr"]) == "caddr"
        ctx.oblig(ok)
        if not ok:
            ctx.violation("block-pop|%s%s" % pk, pop.loc(), "BlockStack::pop must return the top block and mark its JOIN parent as having executed the first child")


def run(ctx, F):
    ctx.trusted += ["rustc MIR via mirfacts", "mirsym", "batching rules of docs/src/design/programs.md and the NOOP alignment rules of docs/src/design/decoder/main.md"]
    ctx.assumptions += ["contents of decoder columns on concrete runs are not decided; the executor is interpreted abstractly on the batch of every reachable accumulator state "
                        "(quick: layouts reachable within 26 operations; thorough: all)"]
    from . import rules_c06
    ctx.run_rule("C13-R1b", "the executed branch is a legal decision of the program: a path a non-binary SPLIT / LOOP condition can take ends in Err(NotBinaryValue) before any child block is executed (path model shared with C06-R1)", rules_c06.r1_three_way, F)
    ctx.run_rule("C13-R1", "every Decoder::start_* pushes the block stack once and appends one row, every end_* pops once and appends one row; repeat/respan/execute_user_op append one row; executors start before children and end once", r1_nesting, F)
    ctx.run_rule("C13-R2", "every decoder row is paired with exactly one execute_op which advances the clock once (shared with C15-R2)", rules_c15.r2_every_cycle, F)
    ctx.run_rule("C13-R2b", "decoder wrappers run one execute_op per row", rules_c15.r2b_calls_in_decoder, F)
    ctx.run_rule("C13-R3", "executor/accumulator agreement: on the batch of every reachable layout execute_op_batch decodes the batch's operations in order, with NOOPs only after a group-final immediate operation and as padding groups, and starts one group per further operation/padding group", r3_executor_agreement, F)
    ctx.run_rule("C13-R6", "BlockStack::push/pop over all (parent kind x child kind): is_loop_body, is_first_child and the parent address depend on the parent only, as the decoder design states", r6_block_stack_flags, F)
    ctx.run_rule("C13-R4", "the program-hash row: hasher columns 0..3 of the last decoder row", r4_program_hash_row, F)

"""C13 — the decoded operation stream is exactly the program: nesting, one row per cycle, executor/accumulator
agreement over every reachable batch layout, program-hash row."""
import re
from .mirutil import *
from .mirsym import Interp, Agg, Poly, Term, Ptr, Opaque
from . import batching, rules_c15, opmodel

LEVEL = "model_checking"
DEC = r"^miden_processor::decoder::Decoder::"


def r1_nesting(ctx, F):
    starts = F.find(DEC + r"start_(join|split|loop|call|syscall|dyn|span)$")
    ends = F.find(DEC + r"(end_control_block|end_span)$")
    ctx.floor("decoder-start-methods", len(starts), 7)
    for f in starts + ends:
        is_start = f.name.startswith("start_")
        stack_call = r"BlockStack::push$" if is_start else r"BlockStack::pop$"
        other = r"BlockStack::pop$" if is_start else r"BlockStack::push$"
        mm = count_on_paths(f, call_weight(f, stack_call), avoid=panic_blocks(f))
        rows = count_on_paths(f, call_weight(f, r"DecoderTrace::append_\w+$"), avoid=panic_blocks(f))
        oth = count_on_paths(f, call_weight(f, other), avoid=panic_blocks(f))
        ctx.inst(key=f.id, nontrivial=True)
        ok = mm == (1, 1) and rows == (1, 1) and oth == (0, 0)
        ctx.oblig(ok)
        ctx.analysed("%s: block stack %s x%s, rows %s" % (f.name, "push" if is_start else "pop", mm, rows))
        if not ok:
            ctx.violation("nesting|%s" % f.name, f.loc(), "%s must %s the block stack exactly once and append exactly one decoder row on every path (got stack %s, rows %s, opposite %s)"
                          % (f.name, "push" if is_start else "pop", mm, rows, oth))
    for name in ("repeat", "respan", "execute_user_op"):
        f = F.fn(DEC + name + "$")
        rows = count_on_paths(f, call_weight(f, r"DecoderTrace::append_\w+$"), avoid=panic_blocks(f))
        st = count_on_paths(f, call_weight(f, r"BlockStack::(push|pop)$"), avoid=panic_blocks(f))
        ctx.inst(key=f.id, nontrivial=True)
        ok = rows == (1, 1) and st == (0, 0)
        ctx.oblig(ok)
        if not ok:
            ctx.violation("row|%s" % name, f.loc(), "Decoder::%s must append exactly one row and leave the block stack alone (rows %s, stack ops %s)" % (name, rows, st))
    # executors: start before children, end after (shape shared with C06-R2)
    from . import rules_c06
    rules_c06.r2_executor_shape(ctx, F)


def r3_executor_agreement(ctx, F):
    R = batching.explore(F)
    vs = []
    def viol(kind, st, msg):
        vs.append((kind, "".join(c[0] for c in st.hist), msg))
    lim = 9999 if ctx.tier == "thorough" else 26
    n = 0
    for st, b in R["finals"]:
        if len(st.hist) <= lim:
            batching.check_executor(F, st, b, viol)
            n += 1
    ctx.extra["states"] = R["states"]
    ctx.extra["transitions"] = R["transitions"]
    ctx.extra["traces_validated_against_impl"] = 0
    ctx.extra["batches_executed_abstractly"] = n
    ctx.inst(n=n)
    r = ctx.rules[ctx.cur]
    r["nontrivial"] |= {"batch%d" % i for i in range(n)}
    ctx.floor("batch-layouts", n, 1500)
    for st, b in R["finals"][5:8]:
        ctx.sample({"history": "".join(c[0] for c in st.hist), "layout": [(s[0], "".join(x[0] for x in s[1])) if s and s[0] == "ops" else (s[0] if s else None) for s in st.shadow]})
    # accumulator-side inconsistencies make the executor's input wrong: report them here too
    seen = set()
    for kind, desc, msg in R["violations"]:
        if kind.startswith("op-count") or kind.startswith("group-value") or kind.startswith("num-groups"):
            if kind in seen:
                continue
            seen.add(kind)
            ctx.violation("batch-metadata|%s" % kind, "core/src/program/blocks/span_block.rs", "%s [first reached with %s]" % (msg, desc))
    seen = set()
    for kind, hist, msg in vs:
        if kind in seen:
            continue
        seen.add(kind)
        ctx.violation("executor|%s" % kind, "processor/src/lib.rs", "%s [operation classes of the batch: %s]" % (msg, hist))
    ctx.oblig(not vs and not seen, n=max(1, n))
    # group counter: get_span_op_group_count = (#batches - 1)*8 + next_power_of_two(last batch groups)
    g = F.fn(r"^miden_core::program::blocks::span_block::get_span_op_group_count$")
    ok = any(c.endswith("next_power_of_two") for bi, c, t in g.calls()) and any(str(k.get("named", "")).endswith("BATCH_SIZE") or k.get("c") == 8 for b in g.blocks for s in b["s"] for k in g.rvalue_operands(s["r"]) if isinstance(k, dict))
    ctx.oblig(ok)
    if not ok:
        ctx.violation("group-count-formula", g.loc(), "get_span_op_group_count must be (#batches-1)*BATCH_SIZE + next_power_of_two(groups of the last batch)")


def r4_program_hash_row(ctx, F):
    """DecoderTrace::program_hash reads hasher columns 0..3 of the last row"""
    fn = F.fn(r"^miden_processor::decoder::trace::DecoderTrace::program_hash$")
    adt = F.adt(r"^miden_processor::decoder::trace::DecoderTrace$")
    fields = adt["variants"][0]["fields"]
    consts = {"NUM_OP_BITS": 7, "NUM_HASHER_COLUMNS": F.const(r"^miden_air::trace::decoder::NUM_HASHER_COLUMNS$"), "NUM_OP_BATCH_FLAGS": 3, "NUM_OP_BITS_EXTRA_COLS": 2}
    items = []
    for fd in fields:
        m = re.match(r"^\[.*Vec<.*>; (\w+)\]$", fd["ty"])
        if m:
            n = int(m.group(1)) if m.group(1).isdigit() else consts.get(m.group(1).rsplit("::", 1)[-1], 8)
            items.append(Agg([Agg([Poly.var("%s%d_r0" % (fd["name"], i)), Poly.var("%s%d_last" % (fd["name"], i))], "vec") for i in range(n)], "array"))
        else:
            items.append(Agg([Poly.var(fd["name"] + "_r0"), Poly.var(fd["name"] + "_last")], "vec"))
    tr = Agg(items, "adt", adt["id"], adt["variants"][0]["name"])
    I = Interp(F)
    r = I.call(fn.id, [Ptr([tr], 0)])
    got = [repr(x) for x in r.items] if isinstance(r, Agg) else repr(r)
    want = ["hasher_trace%d_last" % i for i in range(4)]
    ctx.inst(key="program_hash", nontrivial=True)
    ctx.sample({"program_hash_reads": got})
    ctx.oblig(got == want)
    if got != want:
        ctx.violation("program-hash-row", fn.loc(), "DecoderTrace::program_hash returns %s; it must be hasher columns 0..3 of the last row %s" % (got, want))


def run(ctx, F):
    ctx.trusted += ["rustc MIR via mirfacts", "mirsym", "batching rules of docs/src/design/programs.md and the NOOP alignment rules of docs/src/design/decoder/main.md"]
    ctx.assumptions += ["contents of decoder columns on concrete runs are not decided; the executor is interpreted abstractly on the batch of every reachable accumulator state "
                        "(quick: layouts reachable within 26 operations; thorough: all)"]
    ctx.run_rule("C13-R1", "every Decoder::start_* pushes the block stack once and appends one row, every end_* pops once and appends one row; repeat/respan/execute_user_op append one row; executors start before children and end once", r1_nesting, F)
    ctx.run_rule("C13-R2", "every decoder row is paired with exactly one execute_op which advances the clock once (shared with C15-R2)", rules_c15.r2_every_cycle, F)
    ctx.run_rule("C13-R2b", "decoder wrappers run one execute_op per row", rules_c15.r2b_calls_in_decoder, F)
    ctx.run_rule("C13-R3", "executor/accumulator agreement: on the batch of every reachable layout execute_op_batch decodes the batch's operations in order, with NOOPs only after a group-final immediate operation and as padding groups, and starts one group per further operation/padding group", r3_executor_agreement, F)
    ctx.run_rule("C13-R4", "the program-hash row: hasher columns 0..3 of the last decoder row", r4_program_hash_row, F)

"""Evaluates ProcessorAir::evaluate_transition / evaluate_aux_transition abstractly (mirsym) and returns the
constraint polynomials, either with symbolic op bits or restricted to one opcode."""
import json, os, time
from .mirsym import *
from .facts import AnchorLost

AIR = "miden_air::ProcessorAir@Air::"


class AirModel:
    def __init__(self, F):
        self.F = F
        self.W = F.const(r"^miden_air::trace::TRACE_WIDTH$")
        self.AW = F.const(r"^miden_air::trace::AUX_TRACE_WIDTH$")
        self.DEC = F.const(r"^miden_air::trace::DECODER_TRACE_OFFSET$")
        self.STK = F.const(r"^miden_air::trace::STACK_TRACE_OFFSET$")
        self.opbits = F.const(r"^miden_air::trace::decoder::OP_BITS_RANGE$")["fields"]
        self.extra = F.const(r"^miden_air::trace::decoder::OP_BITS_EXTRA_COLS_RANGE$")["fields"]
        self.nper = F.const(r"^miden_air::constraints::chiplets::hasher::NUM_PERIODIC_COLUMNS$")
        self.helpers = self.DEC + F.const(r"^miden_air::trace::decoder::USER_OP_HELPERS_OFFSET$")
        self.fn_eval = F.fn(r"^miden_air::ProcessorAir@Air::evaluate_transition$")
        self.fn_aux = F.fn(r"^miden_air::ProcessorAir@Air::evaluate_aux_transition$")
        self._ranges = None

    def col_names(self):
        """human names for main-trace columns"""
        n = {}
        F = self.F
        n[F.const(r"^miden_air::trace::CLK_COL_IDX$")] = "clk"
        n[F.const(r"^miden_air::trace::FMP_COL_IDX$")] = "fmp"
        for i in range(16):
            n[self.STK + i] = "s%d" % i
        n[self.STK + 16] = "b0"
        n[self.STK + 17] = "b1"
        n[self.STK + 18] = "h0"
        for i in range(self.opbits[1] - self.opbits[0]):
            n[self.DEC + self.opbits[0] + i] = "op%d" % i
        for i in range(6):
            n[self.helpers + i] = "hlp%d" % i
        for i in range(2):
            n[self.DEC + self.extra[0] + i] = "e%d" % i
        return n

    def ranges(self, I):
        if self._ranges is None:
            F = self.F
            cnt = lambda pat: I.call(F.fn(pat).id, [])
            r = I.call(F.fn(r"^miden_air::utils::TransitionConstraintRange::new$").id,
                       [1, cnt(r"^miden_air::constraints::stack::get_transition_constraint_count$"),
                        cnt(r"^miden_air::constraints::range::get_transition_constraint_count$"),
                        cnt(r"^miden_air::constraints::chiplets::get_transition_constraint_count$")])
            self._ranges = r
        return self._ranges

    def air_self(self, I):
        adt = self.F.adt(r"^miden_air::ProcessorAir$")
        fields = [f["name"] for f in adt["variants"][0]["fields"]]
        items = [Opaque("field:" + f) for f in fields]
        items[fields.index("constraint_ranges")] = self.ranges(I)
        return Agg(items, "adt", adt["id"], adt["variants"][0]["name"])

    def frame(self, opcode=None, prefix=""):
        cur = [Poly.var("%sc%d" % (prefix, i)) for i in range(self.W)]
        nxt = [Poly.var("%sn%d" % (prefix, i)) for i in range(self.W)]
        if opcode is not None:
            nb = self.opbits[1] - self.opbits[0]
            bits = [(opcode >> i) & 1 for i in range(nb)]
            for i, b in enumerate(bits):
                cur[self.DEC + self.opbits[0] + i] = Poly.const(b)
            b6, b5, b4 = bits[6], bits[5], bits[4]
            cur[self.DEC + self.extra[0]] = Poly.const(b6 * (1 - b5) * b4)
            cur[self.DEC + self.extra[0] + 1] = Poly.const(b6 * b5)
        return Opaque("frame", current=cur, next=nxt)

    def total_main(self, I):
        r = self.ranges(I)
        # TransitionConstraintRange {stack: Range, range_checker: Range, chiplets: Range}
        ends = [x.items[1] for x in r.items if isinstance(x, Agg)]
        return max(ends)

    def eval_main(self, opcode=None, limit=None):
        I = Interp(self.F)
        saved = Poly.LIMIT
        if limit:
            Poly.LIMIT = limit
        try:
            n = self.total_main(I)
            result = [Poly() for _ in range(n)]
            fr = self.frame(opcode)
            per = [Poly.var("p%d" % i) for i in range(self.nper + 8)]
            I.call(self.fn_eval.id, [Ptr([self.air_self(I)], 0), Ptr([fr], 0), SlicePtr(per, 0, len(per)), SlicePtr(result, 0, n)])
        finally:
            Poly.LIMIT = saved      # the size limit is a per-evaluation setting, not a global one
        return result, self.ranges(I), I

    def eval_aux(self):
        I = Interp(self.F)
        fr = self.frame(None)
        acur = [Poly.var("ac%d" % i) for i in range(self.AW)]
        anxt = [Poly.var("an%d" % i) for i in range(self.AW)]
        afr = Opaque("auxframe", current=acur, next=anxt)
        alphas = [Poly.var("alpha%d" % i) for i in range(16)]
        rnd = Opaque("rand", segments=[alphas])
        result = [Poly()]
        per = [Poly.var("p%d" % i) for i in range(self.nper + 8)]
        I.call(self.fn_aux.id, [Ptr([self.air_self(I)], 0), Ptr([fr], 0), Ptr([afr], 0), SlicePtr(per, 0, len(per)),
                                Ptr([rnd], 0), SlicePtr(result, 0, 1)])
        return result

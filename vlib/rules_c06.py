"""C06 — control flow and procedure inlining: three-way condition discipline in the block executors, executor
shape, and the AST -> MAST lowering of if/while/repeat and the locals prologue/epilogue."""
import re
from .mirutil import *
from .mirsym import Interp, Poly, Term, Agg, Ptr, Opaque, ListIt, enumerate_paths, Unanalysable, PanicReached, deref
from . import procmodel, execmodel
from .facts import strip_targs

LEVEL = "other"
CONSEQ = r"Process::(execute_code_block|execute_op|end_\w+_block|execute_\w+_block)$|Decoder::repeat$"


def felt_cmps(F, fn):
    """comparisons of a Felt with the constants ONE / ZERO that select a branch"""
    I = Interp(F)
    out = []
    for c in cmp_branches(fn):
        if c["kind"] != "call" or not re.search(r"PartialEq::(eq|ne)$", c.get("callee", "")):
            continue
        ct = fn.blocks[[bi for bi, cal, t in fn.calls() if t["to"] == c["block"] and re.search(r"PartialEq::(eq|ne)$", cal)][0]]["t"] if True else None
        if not (c["callee"].startswith("winter_math::field::f64::BaseElement@") or any(g.endswith("Felt") or g.endswith("BaseElement") for g in ct["f"].get("ga", []))):
            continue
        vals = []
        for side in ("a", "b"):
            src = deref_source(fn, c[side])
            k = None
            if "promoted" in src:
                try:
                    v = deref(I.call(src["promoted"], []))
                    k = v.const_value() if isinstance(v, Poly) else None
                except Exception:
                    k = None
            elif "named" in src and src["named"].endswith("::ONE"):
                k = 1
            elif "named" in src and src["named"].endswith("::ZERO"):
                k = 0
            vals.append((src, k))
        consts = [k for s, k in vals if k is not None]
        vars_ = [s for s, k in vals if k is None]
        if len(consts) != 1 or len(vars_) != 1:
            continue
        v = vars_[0]
        # source class: a local, or the result of a call (e.g. Stack::peek)
        src_kind = ("local", v.get("l"))
        v2 = through_try(fn, v) if "l" in v else v
        dc = def_call(fn, v2) if v2 is not None and "l" in v2 else None
        if dc is not None:
            src_kind = ("call", short(dc[2]["f"].get("fn", "?")))
        out.append(dict(c, const=consts[0], src=src_kind))
    return out


def sym_name(v):
    return sorted(v.vars())[0] if isinstance(v, Poly) else None


def symbols_of(path):
    """[(symbol, index of the event that introduced it)] for the branch-deciding values of a path"""
    out = []
    for i, e in enumerate(path["events"]):
        if e[0] == "start" and e[2] is not None:
            out.append((sym_name(e[2]), i, "condition returned by start_%s_block" % e[1]))
        if e[0] == "peek":
            out.append((sym_name(e[1]), i, "Stack::peek"))
    return out


CONSEQUENCE = ("child", "repeat", "op", "end", "dyn")


def r1_three_way(ctx, F):
    """every value an executor branches on: a path that a non-binary value can take must end in Err(NotBinaryValue(that value))
    without any consequence (child execution, REPEAT, operation, end_*) after the value was read; NotBinaryValue is returned
    for non-binary values only"""
    total = 0
    for kind in ("split", "loop"):
        fname = "execute_%s_block" % kind
        fn, paths = execmodel.executor_paths(F, kind)
        bad = [p for p in paths if p["outcome"][0] in ("unanalysable", "panic")]
        if bad:
            ctx.inst(key=fname, nontrivial=True)
            ctx.violation("UNANALYSABLE|%s" % fname, fn.loc(), str(bad[0]["outcome"][1])[:300])
            continue
        syms = {}
        for p in paths:
            for s, i, what in symbols_of(p):
                syms.setdefault((s, what), []).append((p, i))
        ctx.analysed("%s: %d paths, branch-deciding values %s" % (fname, len(paths), sorted(k[0] for k in syms)))
        for (s, what), occ in sorted(syms.items()):
            total += 1
            src = "start" if what.startswith("condition") else "Stack::peek"
            ctx.inst(key="%s|%s|%s" % (fname, src, s), nontrivial=True)
            classes_seen = set()
            for p, i in occ:
                adm = execmodel.admitted(p["guards"], s)
                if not adm:
                    continue
                later = [e for e in p["events"][i + 1:] if e[0] in CONSEQUENCE]
                nonbin = [v for v in adm if v not in (0, 1)]
                is_nb = p["outcome"][0] == "err" and p["outcome"][1] == "NotBinaryValue" and sym_name(p["outcome"][2][0]) == s
                if nonbin and p["outcome"] != ("truncated",):
                    ok = is_nb and not later
                    ctx.oblig(ok)
                    if not ok:
                        what_next = ("%s(%s)" % (later[0][0], ", ".join(str(x) for x in later[0][1:]))) if later else "outcome %s" % (p["outcome"][:2],)
                        ctx.violation("one-sided-condition|%s|%s" % (fname, src), fn.loc(),
                                      "in %s a path taken for the non-binary value %s of the %s continues with %s instead of failing with NotBinaryValue: the value is compared on one side only"
                                      % (fname, nonbin[0], what, what_next))
                if is_nb:
                    okb = not [v for v in adm if v in (0, 1)]
                    ctx.oblig(okb)
                    if not okb:
                        ctx.violation("binary-rejected|%s|%s" % (fname, src), fn.loc(), "in %s the value %s of the %s is rejected with NotBinaryValue" % (fname, [v for v in adm if v in (0, 1)], what))
                classes_seen |= set(adm)
            if not ({0, 1} <= classes_seen):
                ctx.violation("condition-values|%s|%s" % (fname, src), fn.loc(), "in %s no successful path exists for value(s) %s of the %s" % (fname, sorted({0, 1} - classes_seen), what))
    ctx.floor("branch-deciding-values", total, 4)


def r2_executor_shape(ctx, F):
    for kind in ("join", "split", "loop", "call", "dyn"):
        fname = "execute_%s_block" % kind
        fn, paths = execmodel.executor_paths(F, kind)
        ctx.inst(key="shape|" + kind, nontrivial=True)
        bad = [p for p in paths if p["outcome"][0] in ("unanalysable", "panic")]
        if bad:
            ctx.violation("UNANALYSABLE|%s" % fname, fn.loc(), str(bad[0]["outcome"][1])[:300])
            continue
        oks = [p for p in paths if p["outcome"] == ("ok",)]
        if not oks:
            ctx.violation("executor-shape|%s" % kind, fn.loc(), "%s has no successful path" % fname)
            continue
        for p in paths:
            evs = [e for e in p["events"] if e[0] not in ("peek", "kernel")]
            starts = [i for i, e in enumerate(evs) if e[0] == "start"]
            ends = [i for i, e in enumerate(evs) if e[0] == "end"]
            kids = [i for i, e in enumerate(evs) if e[0] in ("child", "dyn", "op", "repeat")]
            ok = len(starts) <= 1 and all(evs[i][1] == kind for i in starts + ends) and (not (kids or ends) or (starts == [0]))
            ctx.oblig(ok)
            if not ok:
                ctx.violation("executor-shape|%s" % kind, fn.loc(), "%s: start_%s_block must come first and exactly once before any child execution or end_*: path %s" % (fname, kind, [e[:2] for e in evs]))
                break
            if p["outcome"] == ("ok",):
                ok = len(ends) == 1 and ends[0] == len(evs) - 1 and starts == [0]
                ctx.oblig(ok)
                if not ok:
                    ctx.violation("executor-end|%s" % kind, fn.loc(), "%s must call end_%s_block exactly once, as the last step of every successful path: path %s" % (fname, kind, [e[:2] for e in evs]))
                    break
            elif p["outcome"][0] == "err" and ends:
                ctx.violation("executor-end|%s" % kind, fn.loc(), "%s closes the block on a failing path: %s" % (fname, [e[:2] for e in evs]))
                break
        if kind == "split":
            for want, val in (("on_true", 1), ("on_false", 0)):
                ctx.inst(key="split|%s" % want, nontrivial=True)
                hit = False
                ok = True
                for p in paths:
                    ss = symbols_of(p)
                    if not ss:
                        continue
                    adm = execmodel.admitted(p["guards"], ss[0][0])
                    kids = [e[1] for e in p["events"] if e[0] == "child"]
                    if val in adm:
                        hit = True
                        ok = ok and kids == [want] and p["outcome"] == ("ok",)
                    elif want in kids:
                        ok = False
                ctx.oblig(ok and hit)
                if not (ok and hit):
                    ctx.violation("split-branch|%s" % want, fn.loc(), "Split::%s is not executed exactly under condition == %s" % (want, "ONE" if val else "ZERO"))
        if kind == "join":
            ctx.inst(key="join", nontrivial=True)
            ok = all([e[1] for e in p["events"] if e[0] == "child"] == ["first", "second"] for p in oks)
            ctx.oblig(ok)
            if not ok:
                ctx.violation("join-order", fn.loc(), "execute_join_block must execute first() then second(): %s" % [[e[1] for e in p["events"] if e[0] == "child"] for p in oks])
        if kind == "loop":
            ctx.inst(key="loop-iteration", nontrivial=True)
            ok = True
            why = ""
            for p in paths:
                evs = p["events"]
                ss = symbols_of(p)
                for s, i, what in ss:
                    adm = execmodel.admitted(p["guards"], s)
                    nxt = [e for e in evs[i + 1:] if e[0] != "peek"]
                    head = [(e[0],) + tuple(e[1:2]) for e in nxt[:3]]
                    if what.startswith("condition"):
                        if adm == [1] and head[:1] != [("child", "body")]:
                            ok, why = False, "condition ONE is not followed by the loop body: %s" % head
                        if adm == [0] and not (nxt and nxt[0][0] == "end" and nxt[0][2] == (False,) and len(nxt) == 1):
                            ok, why = False, "condition ZERO must close the loop without dropping (end_loop_block(.., false)): %s" % [e[:3] for e in nxt[:2]]
                    else:
                        if adm == [1] and p["outcome"] != ("truncated",) and head != [("repeat",), ("op", "Drop"), ("child", "body")]:
                            ok, why = False, "a ONE on top of the stack after the body must be followed by REPEAT, Drop and the body: %s" % head
                        if adm == [0] and not (nxt and nxt[0][0] == "end" and nxt[0][2] == (True,) and len(nxt) == 1):
                            ok, why = False, "a ZERO on top of the stack after the body must close the loop and drop it (end_loop_block(.., true)): %s" % [e[:3] for e in nxt[:2]]
            ctx.oblig(ok)
            if not ok:
                ctx.violation("loop-iteration", fn.loc(), "execute_loop_block: " + why)
        if kind == "call":
            ctx.inst(key="call-target", nontrivial=True)
            ok = all(([e for e in p["events"] if e[0] in ("child", "dyn")] in ([("child", "callee")], [("dyn",)])) for p in oks)
            sysk = all((("kernel",) in p["events"]) == any(repr(g[0]) == "is_syscall" and g[1] != 0 for g in p["guards"]) for p in oks)
            ctx.oblig(ok and sysk)
            if not (ok and sysk):
                ctx.violation("call-target", fn.loc(), "execute_call_block must execute exactly the block found under fn_hash (or the dynamic block), after access_kernel_proc for syscalls")
    # span executor: start_* dominates batch execution and end_* (CFG shape; its loops over batches are decided by C13-R3)
    for name in ("span",):
        f = F.fn(r"^miden_processor::Process::execute_%s_block$" % name)
        starts = blocks_calling(f, r"Process::start_%s_block$" % name)
        ends = blocks_calling(f, r"Process::end_%s_block$" % name)
        kids = blocks_calling(f, r"Process::(execute_code_block|execute_dyn_block|execute_op_batch)$")
        ctx.inst(key="shape|" + name, nontrivial=True)
        ok = len(starts) == 1 and ends and all(f.dominates(starts[0], k) for k in kids) and all(f.dominates(starts[0], e) for e in ends)
        ctx.oblig(ok)
        if not ok:
            ctx.violation("executor-shape|%s" % name, f.loc(), "execute_%s_block: start_* must dominate every child execution and end_*: starts=%s ends=%s kids=%s" % (name, starts, ends, kids))
            continue
        mm = count_on_paths(f, call_weight(f, r"Process::end_%s_block$" % name), avoid=err_blocks(f) | panic_blocks(f))
        if mm != (1, 1):
            ctx.violation("executor-end|%s" % name, f.loc(), "execute_%s_block must call end_%s_block exactly once on every successful path, got %s" % (name, name, mm))


def compile_node(F, node_of, empty_else=None):
    """interpret Assembler::compile_body on a one-node body; the recursive compile_body, the span builder and the block
    constructors are replaced by recorders. Returns the list of (blocks handed to combine_blocks, events) per path."""
    fn = F.fn(r"^miden_assembly::assembler::Assembler::compile_body$")
    nadt = F.adt(r"^miden_assembly::ast::nodes::Node$")
    holder = {}
    ok = lambda v: Agg([v], "adt", "core::result::Result", "Ok")
    unit = lambda: Agg([], "tuple")

    def make():
        I = Interp(F)
        procmodel.install_field(I)
        rec = {"combined": None, "events": []}
        holder["rec"] = rec

        def add(rx, m):
            I.overrides.insert(0, (re.compile(rx), m))

        def sub_body(I_, a, f):
            src = deref(a[1])
            name = getattr(src, "name", repr(src))
            rec["events"].append(("compile_body", name, isinstance(a[3], Agg) and a[3].variant))
            return ok(Opaque("compiled<%s>" % name.replace("nodes-of-", "")))
        add(r"^miden_assembly::assembler::Assembler::compile_body$", sub_body)
        add(r"SpanBuilder::new$", lambda I_, a, f: Opaque("SpanBuilder"))
        add(r"SpanBuilder::extract_(final_)?span_into$", lambda I_, a, f: unit())
        add(r"^miden_assembly::ast::code_body::CodeBody::nodes$", lambda I_, a, f: Ptr([Opaque("nodes-of-%s" % getattr(deref(a[0]), "name", "?"))], 0))

        def opq_iter(I_, a, f):
            x = deref(a[0])
            if isinstance(x, Opaque) and x.name.startswith("nodes-of-"):
                return x
            raise Unanalysable("iter over %r" % (x,))
        add(r"^core::slice::\[T\]::iter$", opq_iter)

        def opq_empty(I_, a, f):
            x = deref(a[0])
            if isinstance(x, Opaque) and x.name.startswith("nodes-of-"):
                which = x.name[len("nodes-of-"):]
                if empty_else is not None and which == "FALSE":
                    return bool(empty_else)
                return False
            raise Unanalysable("is_empty of %r" % (x,))
        add(r"^core::slice::\[T\]::is_empty$", opq_empty)

        def mk(kind):
            def m(I_, a, f):
                names = [getattr(x, "name", None) or ("span%r" % ([getattr(o, "variant", o) for o in deref(x).items],) if isinstance(deref(x), Agg) else repr(x)) for x in a]
                rec["events"].append((kind, tuple(names)))
                return Opaque("%s(%s)" % (kind, ", ".join(names)))
            return m
        add(r"^miden_core::program::blocks::CodeBlock::new_split$", mk("split"))
        add(r"^miden_core::program::blocks::CodeBlock::new_loop$", mk("loop"))
        add(r"^miden_core::program::blocks::CodeBlock::new_span$", mk("span"))
        add(r"CodeBlock@Clone::clone$", lambda I_, a, f: Opaque(deref(a[0]).name))

        def combine(I_, a, f):
            rec["combined"] = [getattr(x, "name", repr(x)) for x in deref(a[0]).items]
            return Opaque("combined")
        add(r"^miden_assembly::assembler::combine_blocks$", combine)
        return I

    def run(I):
        vname, fields = node_of
        vdef = [v for v in nadt["variants"] if v["name"] == vname][0]
        items = [fields[f["name"]] for f in vdef["fields"]]
        node = Agg(items, "adt", nadt["id"], vname)
        it = ListIt([Ptr([node], 0)])
        return I.call(fn.id, [Ptr([Opaque("Assembler")], 0), it, Ptr([Opaque("AssemblyContext")], 0), Agg([], "adt", "core::option::Option", "None")])

    out = []
    for I, res, exc in enumerate_paths(make, run, max_paths=64):
        if exc is not None:
            raise exc
        out.append((holder["rec"]["combined"], holder["rec"]["events"], res))
    return fn, out


def r3_lowering(ctx, F):
    """compile_body interpreted on one-node bodies: if/else -> new_split(compiled true case, compiled false case | NOOP span),
    while -> new_loop(compiled body), repeat.n -> n clones of the compiled body (n = 1, 2, 5)"""
    T, Fa, B = Opaque("TRUE"), Opaque("FALSE"), Opaque("BODY")
    fn = F.fn(r"^miden_assembly::assembler::Assembler::compile_body$")
    cases = [("if-else", ("IfElse", {"true_case": T, "false_case": Fa}), False, ["split(compiled<TRUE>, compiled<FALSE>)"]),
             ("if-without-else", ("IfElse", {"true_case": T, "false_case": Fa}), True, None),
             ("while", ("While", {"body": B}), None, ["loop(compiled<BODY>)"])]
    cases += [("repeat.%d" % n, ("Repeat", {"times": n, "body": B}), None, ["compiled<BODY>"] * n) for n in (1, 2, 5)]
    for key, node, empty_else, want in cases:
        ctx.inst(key=key, nontrivial=True)
        try:
            _, paths = compile_node(F, node, empty_else)
        except (Unanalysable, PanicReached) as e:
            ctx.violation("UNANALYSABLE|compile_body|%s" % key, fn.loc(), str(e)[:300])
            continue
        if len(paths) != 1:
            ctx.violation("UNANALYSABLE|compile_body|%s" % key, fn.loc(), "%d paths" % len(paths))
            continue
        combined, events, res = paths[0]
        if key == "if-without-else":
            ok = combined is not None and len(combined) == 1 and re.match(r"^split\(compiled<TRUE>, span\(span\['Noop'\]\)\)$", combined[0]) is not None
            want = ["split(compiled<TRUE>, span(['Noop']))"]
        else:
            ok = combined == want
        ctx.oblig(ok)
        ctx.sample({"body": key, "blocks": combined, "events": [e[:2] for e in events]})
        if not ok:
            kind = {"if-else": "split-argument-order", "if-without-else": "split-empty-else", "while": "loop-body"}.get(key, "repeat-count")
            ctx.violation("%s|%s" % (kind, key) if kind == "repeat-count" else kind, fn.loc(), "compile_body on a body consisting of one `%s` node builds %s; expected %s" % (key, combined, want))
        # nested bodies are compiled without the locals wrapper
        if any(e[0] == "compile_body" and e[2] != "None" for e in events):
            ctx.violation("nested-wrapper|%s" % key, fn.loc(), "a nested body is compiled with a body wrapper (fmp prologue/epilogue would be repeated)")


def r3b_locals_wrapper(ctx, F):
    """compile_procedure wraps bodies with locals in Push(n) FmpUpdate ... Push(-n) FmpUpdate with n = num_locals"""
    fn = F.fn(r"^miden_assembly::assembler::Assembler::compile_procedure$")
    holder = {}

    def make():
        I = Interp(F)
        procmodel.install_field(I)
        rec = []
        holder["rec"] = rec
        ok = lambda v: Agg([v], "adt", "core::result::Result", "Ok")
        I.overrides.append((re.compile(r"AssemblyContext::begin_proc$"), lambda I, a, f: ok(Agg([], "tuple"))))
        I.overrides.append((re.compile(r"AssemblyContext::complete_proc$"), lambda I, a, f: Agg([], "tuple")))
        I.overrides.append((re.compile(r"Assembler::compile_body$"), lambda I, a, f: (rec.append(a[3]), ok(Opaque("CodeBlock")))[1]))
        I.overrides.append((re.compile(r"CodeBody::nodes$|::iter$"), lambda I, a, f: Opaque("nodes")))
        return I

    def run(I):
        adt = F.adt(r"^miden_assembly::ast::procedure::ProcedureAst$")
        fields = [f["name"] for f in adt["variants"][0]["fields"]]
        items = [Opaque("f:" + n) for n in fields]
        items[fields.index("num_locals")] = Term("num_locals")
        items[fields.index("is_export")] = False
        proc = Agg(items, "adt", adt["id"], adt["variants"][0]["name"])
        return I.call(fn.id, [Ptr([Opaque("Assembler")], 0), Ptr([proc], 0), Ptr([Opaque("AssemblyContext")], 0)])

    seen = []
    for I, out, exc in enumerate_paths(make, run):
        if exc is not None:
            ctx.violation("UNANALYSABLE|compile_procedure", fn.loc(), str(exc))
            return
        w = holder["rec"][0] if holder["rec"] else None
        guards = [(repr(g[0]), g[1]) for g in I.path]
        ctx.inst(key=repr(guards), nontrivial=True)
        if isinstance(w, Agg) and w.variant == "Some":
            bw = w.items[0]
            pro = [(o.variant, o.items) for o in bw.items[0].items]
            epi = [(o.variant, o.items) for o in bw.items[1].items]
            seen.append(("wrapped", guards))
            ok = (len(pro) == 2 and len(epi) == 2 and pro[0][0] == "Push" and pro[1][0] == "FmpUpdate" and epi[0][0] == "Push" and epi[1][0] == "FmpUpdate"
                  and isinstance(pro[0][1][0], Poly) and isinstance(epi[0][1][0], Poly) and (pro[0][1][0] + epi[0][1][0]).is_zero()
                  and "num_locals" in repr(pro[0][1][0]))
            ctx.oblig(ok)
            ctx.sample({"prologue": [(v, [str(x) for x in it]) for v, it in pro], "epilogue": [(v, [str(x) for x in it]) for v, it in epi], "guards": guards})
            if not ok:
                ctx.violation("locals-wrapper", fn.loc(), "procedure bodies with locals must be wrapped in Push(n) FmpUpdate ... Push(-n) FmpUpdate with n = num_locals; got %s / %s" % (pro, epi))
        else:
            seen.append(("bare", guards))
    kinds = {k for k, g in seen}
    if kinds != {"wrapped", "bare"}:
        ctx.violation("locals-wrapper-paths", fn.loc(), "compile_procedure must wrap exactly when num_locals > 0; paths: %s" % seen)


# ---- R4: exec.<local> names the procedure it was written against -----------------------------------------------------------------
def r4_local_proc_index(ctx, F):
    """`exec.foo` / `call.foo` / `procref.foo` are lowered to the index stored with `foo` in ParserContext::local_procs, and the
    assembler takes that index as the position in the module's compiled procedures, which are the local procedures sorted by
    index.  Both agree only if the index stored at insertion is the number of local procedures inserted before - i.e. the value
    of local_procs.len() at that point, unmodified."""
    PC = r"ParserContext"
    nsites = 0
    for fn in F.fns.values():
        if not fn.id.startswith("miden_assembly::ast::parsers::context::"):
            continue
        for bi, cal, t in fn.calls():
            if not re.search(r"BTreeMap::insert$", strip_targs(cal)) or len(t["args"]) < 3:
                continue
            recv = def_rvalue(fn, t["args"][0])
            if not (recv is not None and recv["k"] == "ref" and place_ends_with_field(recv.get("p", {}), PC, "local_procs")):
                continue
            nsites += 1
            ctx.inst(key="local_procs.insert@%s" % short(fn.id), nontrivial=True)
            val = def_rvalue(fn, t["args"][2])
            ok, why = False, "the inserted value is not an (index, procedure) tuple"
            if val is not None and val["k"] == "agg" and val.get("ak") == "tuple" and len(val["ops"]) == 2:
                idx = resolve_copy(fn, val["ops"][0])          # follows copies and integer casts of single-definition locals
                dc = def_call(fn, idx)
                if dc is not None and re.search(r"(TryFrom::try_from|TryInto::try_into|Result::unwrap|Result::expect)$", strip_targs(dc[2]["f"].get("fn", ""))):
                    dc = def_call(fn, resolve_copy(fn, dc[2]["args"][0]))
                if dc is None:
                    why = "the index stored with a local procedure is a computed value, not local_procs.len() at the time of insertion"
                elif not re.search(r"BTreeMap::len$", strip_targs(dc[2]["f"].get("fn", ""))):
                    why = "the index stored with a local procedure comes from %s" % short(dc[2]["f"].get("fn", "?"))
                else:
                    r2 = def_rvalue(fn, dc[2]["args"][0])
                    ok = r2 is not None and r2["k"] == "ref" and place_ends_with_field(r2.get("p", {}), PC, "local_procs")
                    why = "the index is the length of another collection"
                    if ok and not fn.dominates(dc[1], bi):
                        ok, why = False, "local_procs.len() is not evaluated on the way to this insertion"
            ctx.oblig(ok)
            if not ok:
                ctx.violation("local-proc-index|%s" % short(fn.id), fn.loc(t["ln"]), "%s: %s; exec/call/procref of a local procedure would then resolve to a different compiled procedure" % (short(fn.id), why))
    ctx.floor("local_procs-insertions", nsites, 1)
    # consumer side: the vector of procedures is the map's values sorted by that index
    srt = [f for f in F.fns.values() if re.search(r"^miden_assembly::ast::sort_procs_into_vec$", f.id)]
    ctx.inst(key="sort_procs_into_vec", nontrivial=True)
    ok = len(srt) == 1 and any(re.search(r"sort_by_key$|sort_unstable_by_key$|sort_by_cached_key$", strip_targs(c)) for b, c, t in srt[0].calls())
    if ok:
        keyf = [g for g in F.fns.values() if g.id.startswith(srt[0].id + "::{closure")]
        # the key closure returns field 0 of the (index, procedure) pair
        ok = any({f for l, f in g.backward_slice(0)["fields"]} == {"0"} for g in keyf)
    ctx.oblig(ok)
    if not ok:
        ctx.violation("local-proc-order", "assembly/src/ast/mod.rs", "sort_procs_into_vec must order the local procedures by their stored index (position in the vector = index used by exec)")


def run(ctx, F):
    ctx.trusted += ["rustc MIR via mirfacts", "mirsym"]
    ctx.assumptions += ["decides the shape of the executors and of the lowering, not the behaviour of nested programs as a whole"]
    ctx.run_rule("C06-R1", "three-way condition discipline (path model of the executors): a path a non-binary condition can take ends in Err(NotBinaryValue) before any consequence; binary values are never rejected", r1_three_way, F)
    ctx.run_rule("C06-R2", "executor shape (path model): split children under the right value, join order, loop iteration protocol, call target, start_* first, end_* exactly once and last on success", r2_executor_shape, F)
    ctx.run_rule("C06-R3", "compile_body: new_split(true_case, false_case) in that order, new_loop(body), repeat pushes `times` clones", r3_lowering, F)
    ctx.run_rule("C06-R3b", "compile_procedure wraps bodies with locals in Push(n) FmpUpdate ... Push(-n) FmpUpdate", r3b_locals_wrapper, F)
    ctx.run_rule("C06-R4", "exec/call/procref of a local procedure: the index stored with a procedure at parsing is local_procs.len() at insertion and the module's procedures are sorted by that index, so the index names the procedure it was written against", r4_local_proc_index, F)

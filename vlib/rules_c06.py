"""C06 — control flow and procedure inlining: three-way condition discipline in the block executors, executor
shape, and the AST -> MAST lowering of if/while/repeat and the locals prologue/epilogue."""
import re
from .mirutil import *
from .mirsym import Interp, Poly, Term, Agg, Ptr, Opaque, enumerate_paths, Unanalysable, PanicReached, deref
from . import procmodel

LEVEL = "other"
CONSEQ = r"Process::(execute_code_block|execute_op|end_\w+_block|execute_\w+_block)$|Decoder::repeat$"


def felt_cmps(F, fn):
    """comparisons of a Felt with the constants ONE / ZERO that select a branch"""
    I = Interp(F)
    out = []
    for c in cmp_branches(fn):
        if c["kind"] != "call" or not re.search(r"PartialEq::(eq|ne)$", c.get("callee", "")):
            continue
        ct = fn.blocks[[bi for bi, cal, t in fn.calls() if t["to"] == c["block"] and re.search(r"PartialEq::(eq|ne)$", cal)][0]]["t"] if True else None
        if not (c["callee"].startswith("winter_math::field::f64::BaseElement@") or any(g.endswith("Felt") or g.endswith("BaseElement") for g in ct["f"].get("ga", []))):
            continue
        vals = []
        for side in ("a", "b"):
            src = deref_source(fn, c[side])
            k = None
            if "promoted" in src:
                try:
                    v = deref(I.call(src["promoted"], []))
                    k = v.const_value() if isinstance(v, Poly) else None
                except Exception:
                    k = None
            elif "named" in src and src["named"].endswith("::ONE"):
                k = 1
            elif "named" in src and src["named"].endswith("::ZERO"):
                k = 0
            vals.append((src, k))
        consts = [k for s, k in vals if k is not None]
        vars_ = [s for s, k in vals if k is None]
        if len(consts) != 1 or len(vars_) != 1:
            continue
        v = vars_[0]
        # source class: a local, or the result of a call (e.g. Stack::peek)
        src_kind = ("local", v.get("l"))
        v2 = through_try(fn, v) if "l" in v else v
        dc = def_call(fn, v2) if v2 is not None and "l" in v2 else None
        if dc is not None:
            src_kind = ("call", short(dc[2]["f"].get("fn", "?")))
        out.append(dict(c, const=consts[0], src=src_kind))
    return out


def r1_three_way(ctx, F):
    total = 0
    for fname in ("execute_split_block", "execute_loop_block"):
        fn = F.fn(r"^miden_processor::Process::%s$" % fname)
        cs = felt_cmps(F, fn)
        ones = [c for c in cs if c["const"] == 1 and c["op"] == "=="]
        zeros = [c for c in cs if c["const"] == 0 and c["op"] in ("==", "!=")]
        ctx.analysed("%s: comparisons with ONE at lines %s, with ZERO at lines %s" % (fname, [c["ln"] for c in ones], [c["ln"] for c in zeros]))
        conseq = set(bi for bi, cal, t in fn.calls() if re.search(CONSEQ, cal))
        rets = set(return_blocks(fn))
        errb = err_blocks(fn)
        for c1 in ones:
            total += 1
            ctx.inst(key="%s|%s|%d" % (fname, c1["src"], ones.index(c1)), nontrivial=True)
            zero_sw = {z["block"]: z for z in zeros if z["src"] == c1["src"] or (z["src"][0] == "call" and c1["src"][0] == "call" and z["src"][1] == c1["src"][1])}
            # every path from the not-ONE branch must meet a ZERO comparison on the same value before any consequence
            bad = None
            seen, st = set(), [c1["false"]]
            okz = []
            while st:
                b = st.pop()
                if b in seen:
                    continue
                seen.add(b)
                if b in zero_sw:
                    okz.append(zero_sw[b])
                    continue
                if b in conseq or (b in rets):
                    bad = b
                    break
                # a comparison call block of the same source is transparent; error blocks are fine
                if b in errb:
                    continue
                st.extend(fn.succs(b))
            inst = "%s|%s" % (fname, c1["src"][1])
            ctx.oblig(bad is None)
            if bad is not None:
                t = fn.blocks[bad]["t"]
                ctx.violation("one-sided-condition|%s" % inst, fn.loc(c1["ln"]),
                              "in %s the value compared with ONE at line %d takes the other path for EVERY value != 1: the not-ONE branch reaches %s (line %d) "
                              "without comparing the value with ZERO and failing with NotBinaryValue otherwise" % (fname, c1["ln"], t.get("f", {}).get("fn", "return"), t["ln"]))
                continue
            for z in okz:
                reach = fn.reachable_blocks(z["false"] if z["op"] == "==" else z["true"])
                builds = any(s["r"].get("variant") == "NotBinaryValue" for bi in reach for s in fn.blocks[bi]["s"] if s["r"]["k"] == "agg")
                bad2 = [bi for bi in reach if bi in conseq]
                ctx.oblig(builds and not bad2)
                if not builds or bad2:
                    ctx.violation("non-binary-not-rejected|%s" % inst, fn.loc(z["ln"]), "in %s the neither-ONE-nor-ZERO branch does not return NotBinaryValue before continuing" % fname)
    ctx.floor("ONE-comparisons", total, 3)


def r2_executor_shape(ctx, F):
    # split: on_true only under ==ONE, on_false only under ==ZERO
    fn = F.fn(r"^miden_processor::Process::execute_split_block$")
    cs = felt_cmps(F, fn)
    one = [c for c in cs if c["const"] == 1]
    zero = [c for c in cs if c["const"] == 0]
    for bi, cal, t in fn.calls_to(r"Process::execute_code_block$"):
        sl = fn.backward_slice(t["args"][1]["l"])
        which = [c for b2, c, tt in sl["calls"] if re.search(r"Split::on_(true|false)$", c)]
        ctx.inst(key="split|%s" % which, nontrivial=True)
        if len(which) != 1:
            ctx.violation("split-child-provenance", fn.loc(t["ln"]), "execute_code_block in execute_split_block takes %s" % which)
            continue
        want = one if which[0].endswith("on_true") else zero
        ok = bool(want) and any(bi in fn.reachable_blocks(c["true"]) and bi not in fn.reachable_blocks(c["false"], avoid={c["block"]}) or
                                (bi in fn.reachable_blocks(c["true"]) and fn.dominates(c["true"], bi)) for c in want)
        ctx.oblig(ok)
        if not ok:
            ctx.violation("split-branch|%s" % which[0].rsplit("::", 1)[-1], fn.loc(t["ln"]), "%s is not executed exactly under condition == %s" % (which[0], "ONE" if want is one else "ZERO"))
    # join: first before second
    fj = F.fn(r"^miden_processor::Process::execute_join_block$")
    order = []
    for bi, cal, t in fj.calls_to(r"Process::execute_code_block$"):
        sl = fj.backward_slice(t["args"][1]["l"])
        which = [c.rsplit("::", 1)[-1] for b2, c, tt in sl["calls"] if re.search(r"Join::(first|second)$", c)]
        order.append((bi, which))
    ctx.inst(key="join", nontrivial=True)
    ok = len(order) == 2 and order[0][1] == ["first"] and order[1][1] == ["second"] and fj.dominates(order[0][0], order[1][0])
    ctx.oblig(ok)
    if not ok:
        ctx.violation("join-order", fj.loc(), "execute_join_block must execute first() then second(): %s" % order)
    # every executor: start_* dominates child execution; end_* is reached on success after it
    for name in ("join", "split", "loop", "call", "dyn", "span"):
        f = F.fn(r"^miden_processor::Process::execute_%s_block$" % name)
        starts = blocks_calling(f, r"Process::start_%s_block$" % name)
        ends = blocks_calling(f, r"Process::end_%s_block$" % name)
        kids = blocks_calling(f, r"Process::(execute_code_block|execute_dyn_block|execute_op_batch)$")
        ctx.inst(key="shape|" + name, nontrivial=True)
        ok = len(starts) == 1 and ends and all(f.dominates(starts[0], k) for k in kids) and all(f.dominates(starts[0], e) for e in ends)
        ctx.oblig(ok)
        if not ok:
            ctx.violation("executor-shape|%s" % name, f.loc(), "execute_%s_block: start_* must dominate every child execution and end_*: starts=%s ends=%s kids=%s" % (name, starts, ends, kids))
            continue
        mm = count_on_paths(f, call_weight(f, r"Process::end_%s_block$" % name), avoid=err_blocks(f) | panic_blocks(f))
        if mm != (1, 1):
            ctx.violation("executor-end|%s" % name, f.loc(), "execute_%s_block must call end_%s_block exactly once on every successful path, got %s" % (name, name, mm))


def r3_lowering(ctx, F):
    fn = F.fn(r"^miden_assembly::assembler::Assembler::compile_body$")
    # if/else
    ns = fn.calls_to(r"CodeBlock::new_split$")
    ctx.inst(key="new_split", nontrivial=True)
    if len(ns) != 1:
        ctx.violation("new_split-sites", fn.loc(), "expected one CodeBlock::new_split in compile_body, found %d" % len(ns))
    for bi, cal, t in ns:
        s0 = fn.backward_slice(t["args"][0]["l"])
        s1 = fn.backward_slice(t["args"][1]["l"])
        f0 = {f for l, f in s0["fields"]}
        f1 = {f for l, f in s1["fields"]}
        ctx.sample({"new_split.arg0_fields": sorted(f0 & {"true_case", "false_case"}), "new_split.arg1_fields": sorted(f1 & {"true_case", "false_case"})})
        ok = "true_case" in f0 and "false_case" not in f0 and "false_case" in f1 and "true_case" not in f1
        ctx.oblig(ok)
        if not ok:
            ctx.violation("split-argument-order", fn.loc(t["ln"]), "CodeBlock::new_split must receive (block compiled from true_case, block compiled from false_case); "
                          "argument 0 derives from %s, argument 1 from %s" % (sorted(f0 & {"true_case", "false_case"}), sorted(f1 & {"true_case", "false_case"})))
        # both come from compile_body (or the NOOP span for an empty else)
        c0 = [c for b2, c, tt in s0["calls"] if c.endswith("compile_body")]
        if not c0:
            ctx.violation("split-true-not-compiled", fn.loc(t["ln"]), "the true branch passed to new_split is not the result of compile_body")
    # while
    nl = fn.calls_to(r"CodeBlock::new_loop$")
    ctx.inst(key="new_loop", nontrivial=True)
    for bi, cal, t in nl:
        s0 = fn.backward_slice(t["args"][0]["l"])
        ok = any(c.endswith("compile_body") for b2, c, tt in s0["calls"]) and "body" in {f for l, f in s0["fields"]}
        ctx.oblig(ok)
        if not ok:
            ctx.violation("loop-body", fn.loc(t["ln"]), "CodeBlock::new_loop must wrap the block compiled from the while body")
    if len(nl) != 1:
        ctx.violation("new_loop-sites", fn.loc(), "expected one CodeBlock::new_loop in compile_body")
    # repeat: loop bound derives from `times`, pushes a clone of the compiled body
    ranges = [(bi, s) for bi, s in fn.aggregates(r"ops::range::Range$")]
    ok = False
    for bi, s in ranges:
        end = s["r"]["ops"][1]
        if "l" in end:
            sl = fn.backward_slice(end["l"])
            if "times" in {f for l, f in sl["fields"]} and fn.const_of(s["r"]["ops"][0]) == 0:
                ok = True
    ctx.inst(key="repeat", nontrivial=True)
    ctx.oblig(ok)
    if not ok:
        ctx.violation("repeat-count", fn.loc(), "the repeat loop in compile_body does not iterate over 0..times")
    pushes = fn.calls_to(r"alloc::vec::Vec::push$")
    clones = [t for bi, c, t in pushes if any(cc.endswith("Clone::clone") or cc.endswith("CodeBlock@Clone::clone") for b2, cc, tt in fn.backward_slice(t["args"][1]["l"], through_calls=False)["calls"])]
    if not clones:
        ctx.violation("repeat-body", fn.loc(), "repeat does not push clones of the compiled body")


def r3b_locals_wrapper(ctx, F):
    """compile_procedure wraps bodies with locals in Push(n) FmpUpdate ... Push(-n) FmpUpdate with n = num_locals"""
    fn = F.fn(r"^miden_assembly::assembler::Assembler::compile_procedure$")
    holder = {}

    def make():
        I = Interp(F)
        procmodel.install_field(I)
        rec = []
        holder["rec"] = rec
        ok = lambda v: Agg([v], "adt", "core::result::Result", "Ok")
        I.overrides.append((re.compile(r"AssemblyContext::begin_proc$"), lambda I, a, f: ok(Agg([], "tuple"))))
        I.overrides.append((re.compile(r"AssemblyContext::complete_proc$"), lambda I, a, f: Agg([], "tuple")))
        I.overrides.append((re.compile(r"Assembler::compile_body$"), lambda I, a, f: (rec.append(a[3]), ok(Opaque("CodeBlock")))[1]))
        I.overrides.append((re.compile(r"CodeBody::nodes$|::iter$"), lambda I, a, f: Opaque("nodes")))
        return I

    def run(I):
        adt = F.adt(r"^miden_assembly::ast::procedure::ProcedureAst$")
        fields = [f["name"] for f in adt["variants"][0]["fields"]]
        items = [Opaque("f:" + n) for n in fields]
        items[fields.index("num_locals")] = Term("num_locals")
        items[fields.index("is_export")] = False
        proc = Agg(items, "adt", adt["id"], adt["variants"][0]["name"])
        return I.call(fn.id, [Ptr([Opaque("Assembler")], 0), Ptr([proc], 0), Ptr([Opaque("AssemblyContext")], 0)])

    seen = []
    for I, out, exc in enumerate_paths(make, run):
        if exc is not None:
            ctx.violation("UNANALYSABLE|compile_procedure", fn.loc(), str(exc))
            return
        w = holder["rec"][0] if holder["rec"] else None
        guards = [(repr(g[0]), g[1]) for g in I.path]
        ctx.inst(key=repr(guards), nontrivial=True)
        if isinstance(w, Agg) and w.variant == "Some":
            bw = w.items[0]
            pro = [(o.variant, o.items) for o in bw.items[0].items]
            epi = [(o.variant, o.items) for o in bw.items[1].items]
            seen.append(("wrapped", guards))
            ok = (len(pro) == 2 and len(epi) == 2 and pro[0][0] == "Push" and pro[1][0] == "FmpUpdate" and epi[0][0] == "Push" and epi[1][0] == "FmpUpdate"
                  and isinstance(pro[0][1][0], Poly) and isinstance(epi[0][1][0], Poly) and (pro[0][1][0] + epi[0][1][0]).is_zero()
                  and "num_locals" in repr(pro[0][1][0]))
            ctx.oblig(ok)
            ctx.sample({"prologue": [(v, [str(x) for x in it]) for v, it in pro], "epilogue": [(v, [str(x) for x in it]) for v, it in epi], "guards": guards})
            if not ok:
                ctx.violation("locals-wrapper", fn.loc(), "procedure bodies with locals must be wrapped in Push(n) FmpUpdate ... Push(-n) FmpUpdate with n = num_locals; got %s / %s" % (pro, epi))
        else:
            seen.append(("bare", guards))
    kinds = {k for k, g in seen}
    if kinds != {"wrapped", "bare"}:
        ctx.violation("locals-wrapper-paths", fn.loc(), "compile_procedure must wrap exactly when num_locals > 0; paths: %s" % seen)


def run(ctx, F):
    ctx.trusted += ["rustc MIR via mirfacts", "mirsym"]
    ctx.assumptions += ["decides the shape of the executors and of the lowering, not the behaviour of nested programs as a whole"]
    ctx.run_rule("C06-R1", "three-way condition discipline: every branch on value == ONE has, on its other side, value == ZERO or Err(NotBinaryValue) before any consequence", r1_three_way, F)
    ctx.run_rule("C06-R2", "executor shape: split children under the right comparison, join order, start_* dominates children, end_* exactly once on success", r2_executor_shape, F)
    ctx.run_rule("C06-R3", "compile_body: new_split(true_case, false_case) in that order, new_loop(body), repeat pushes `times` clones", r3_lowering, F)
    ctx.run_rule("C06-R3b", "compile_procedure wraps bodies with locals in Push(n) FmpUpdate ... Push(-n) FmpUpdate", r3b_locals_wrapper, F)

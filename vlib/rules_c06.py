"""C06 — control flow and procedure inlining: three-way condition discipline in the block executors, executor
shape, and the AST -> MAST lowering of if/while/repeat and the locals prologue/epilogue."""
import re
from .mirutil import *
from .mirsym import Interp, Poly, Term, Agg, Ptr, Opaque, enumerate_paths, Unanalysable, PanicReached, deref
from . import procmodel, execmodel

LEVEL = "other"
CONSEQ = r"Process::(execute_code_block|execute_op|end_\w+_block|execute_\w+_block)$|Decoder::repeat$"


def felt_cmps(F, fn):
    """comparisons of a Felt with the constants ONE / ZERO that select a branch"""
    I = Interp(F)
    out = []
    for c in cmp_branches(fn):
        if c["kind"] != "call" or not re.search(r"PartialEq::(eq|ne)$", c.get("callee", "")):
            continue
        ct = fn.blocks[[bi for bi, cal, t in fn.calls() if t["to"] == c["block"] and re.search(r"PartialEq::(eq|ne)$", cal)][0]]["t"] if True else None
        if not (c["callee"].startswith("winter_math::field::f64::BaseElement@") or any(g.endswith("Felt") or g.endswith("BaseElement") for g in ct["f"].get("ga", []))):
            continue
        vals = []
        for side in ("a", "b"):
            src = deref_source(fn, c[side])
            k = None
            if "promoted" in src:
                try:
                    v = deref(I.call(src["promoted"], []))
                    k = v.const_value() if isinstance(v, Poly) else None
                except Exception:
                    k = None
            elif "named" in src and src["named"].endswith("::ONE"):
                k = 1
            elif "named" in src and src["named"].endswith("::ZERO"):
                k = 0
            vals.append((src, k))
        consts = [k for s, k in vals if k is not None]
        vars_ = [s for s, k in vals if k is None]
        if len(consts) != 1 or len(vars_) != 1:
            continue
        v = vars_[0]
        # source class: a local, or the result of a call (e.g. Stack::peek)
        src_kind = ("local", v.get("l"))
        v2 = through_try(fn, v) if "l" in v else v
        dc = def_call(fn, v2) if v2 is not None and "l" in v2 else None
        if dc is not None:
            src_kind = ("call", short(dc[2]["f"].get("fn", "?")))
        out.append(dict(c, const=consts[0], src=src_kind))
    return out


def sym_name(v):
    return sorted(v.vars())[0] if isinstance(v, Poly) else None


def symbols_of(path):
    """[(symbol, index of the event that introduced it)] for the branch-deciding values of a path"""
    out = []
    for i, e in enumerate(path["events"]):
        if e[0] == "start" and e[2] is not None:
            out.append((sym_name(e[2]), i, "condition returned by start_%s_block" % e[1]))
        if e[0] == "peek":
            out.append((sym_name(e[1]), i, "Stack::peek"))
    return out


CONSEQUENCE = ("child", "repeat", "op", "end", "dyn")


def r1_three_way(ctx, F):
    """every value an executor branches on: a path that a non-binary value can take must end in Err(NotBinaryValue(that value))
    without any consequence (child execution, REPEAT, operation, end_*) after the value was read; NotBinaryValue is returned
    for non-binary values only"""
    total = 0
    for kind in ("split", "loop"):
        fname = "execute_%s_block" % kind
        fn, paths = execmodel.executor_paths(F, kind)
        bad = [p for p in paths if p["outcome"][0] in ("unanalysable", "panic")]
        if bad:
            ctx.inst(key=fname, nontrivial=True)
            ctx.violation("UNANALYSABLE|%s" % fname, fn.loc(), str(bad[0]["outcome"][1])[:300])
            continue
        syms = {}
        for p in paths:
            for s, i, what in symbols_of(p):
                syms.setdefault((s, what), []).append((p, i))
        ctx.analysed("%s: %d paths, branch-deciding values %s" % (fname, len(paths), sorted(k[0] for k in syms)))
        for (s, what), occ in sorted(syms.items()):
            total += 1
            src = "start" if what.startswith("condition") else "Stack::peek"
            ctx.inst(key="%s|%s|%s" % (fname, src, s), nontrivial=True)
            classes_seen = set()
            for p, i in occ:
                adm = execmodel.admitted(p["guards"], s)
                if not adm:
                    continue
                later = [e for e in p["events"][i + 1:] if e[0] in CONSEQUENCE]
                nonbin = [v for v in adm if v not in (0, 1)]
                is_nb = p["outcome"][0] == "err" and p["outcome"][1] == "NotBinaryValue" and sym_name(p["outcome"][2][0]) == s
                if nonbin and p["outcome"] != ("truncated",):
                    ok = is_nb and not later
                    ctx.oblig(ok)
                    if not ok:
                        what_next = ("%s(%s)" % (later[0][0], ", ".join(str(x) for x in later[0][1:]))) if later else "outcome %s" % (p["outcome"][:2],)
                        ctx.violation("one-sided-condition|%s|%s" % (fname, src), fn.loc(),
                                      "in %s a path taken for the non-binary value %s of the %s continues with %s instead of failing with NotBinaryValue: the value is compared on one side only"
                                      % (fname, nonbin[0], what, what_next))
                if is_nb:
                    okb = not [v for v in adm if v in (0, 1)]
                    ctx.oblig(okb)
                    if not okb:
                        ctx.violation("binary-rejected|%s|%s" % (fname, src), fn.loc(), "in %s the value %s of the %s is rejected with NotBinaryValue" % (fname, [v for v in adm if v in (0, 1)], what))
                classes_seen |= set(adm)
            if not ({0, 1} <= classes_seen):
                ctx.violation("condition-values|%s|%s" % (fname, src), fn.loc(), "in %s no successful path exists for value(s) %s of the %s" % (fname, sorted({0, 1} - classes_seen), what))
    ctx.floor("branch-deciding-values", total, 4)


def r2_executor_shape(ctx, F):
    for kind in ("join", "split", "loop", "call", "dyn"):
        fname = "execute_%s_block" % kind
        fn, paths = execmodel.executor_paths(F, kind)
        ctx.inst(key="shape|" + kind, nontrivial=True)
        bad = [p for p in paths if p["outcome"][0] in ("unanalysable", "panic")]
        if bad:
            ctx.violation("UNANALYSABLE|%s" % fname, fn.loc(), str(bad[0]["outcome"][1])[:300])
            continue
        oks = [p for p in paths if p["outcome"] == ("ok",)]
        if not oks:
            ctx.violation("executor-shape|%s" % kind, fn.loc(), "%s has no successful path" % fname)
            continue
        for p in paths:
            evs = [e for e in p["events"] if e[0] not in ("peek", "kernel")]
            starts = [i for i, e in enumerate(evs) if e[0] == "start"]
            ends = [i for i, e in enumerate(evs) if e[0] == "end"]
            kids = [i for i, e in enumerate(evs) if e[0] in ("child", "dyn", "op", "repeat")]
            ok = len(starts) <= 1 and all(evs[i][1] == kind for i in starts + ends) and (not (kids or ends) or (starts == [0]))
            ctx.oblig(ok)
            if not ok:
                ctx.violation("executor-shape|%s" % kind, fn.loc(), "%s: start_%s_block must come first and exactly once before any child execution or end_*: path %s" % (fname, kind, [e[:2] for e in evs]))
                break
            if p["outcome"] == ("ok",):
                ok = len(ends) == 1 and ends[0] == len(evs) - 1 and starts == [0]
                ctx.oblig(ok)
                if not ok:
                    ctx.violation("executor-end|%s" % kind, fn.loc(), "%s must call end_%s_block exactly once, as the last step of every successful path: path %s" % (fname, kind, [e[:2] for e in evs]))
                    break
            elif p["outcome"][0] == "err" and ends:
                ctx.violation("executor-end|%s" % kind, fn.loc(), "%s closes the block on a failing path: %s" % (fname, [e[:2] for e in evs]))
                break
        if kind == "split":
            for want, val in (("on_true", 1), ("on_false", 0)):
                ctx.inst(key="split|%s" % want, nontrivial=True)
                hit = False
                ok = True
                for p in paths:
                    ss = symbols_of(p)
                    if not ss:
                        continue
                    adm = execmodel.admitted(p["guards"], ss[0][0])
                    kids = [e[1] for e in p["events"] if e[0] == "child"]
                    if val in adm:
                        hit = True
                        ok = ok and kids == [want] and p["outcome"] == ("ok",)
                    elif want in kids:
                        ok = False
                ctx.oblig(ok and hit)
                if not (ok and hit):
                    ctx.violation("split-branch|%s" % want, fn.loc(), "Split::%s is not executed exactly under condition == %s" % (want, "ONE" if val else "ZERO"))
        if kind == "join":
            ctx.inst(key="join", nontrivial=True)
            ok = all([e[1] for e in p["events"] if e[0] == "child"] == ["first", "second"] for p in oks)
            ctx.oblig(ok)
            if not ok:
                ctx.violation("join-order", fn.loc(), "execute_join_block must execute first() then second(): %s" % [[e[1] for e in p["events"] if e[0] == "child"] for p in oks])
        if kind == "loop":
            ctx.inst(key="loop-iteration", nontrivial=True)
            ok = True
            why = ""
            for p in paths:
                evs = p["events"]
                ss = symbols_of(p)
                for s, i, what in ss:
                    adm = execmodel.admitted(p["guards"], s)
                    nxt = [e for e in evs[i + 1:] if e[0] != "peek"]
                    head = [(e[0],) + tuple(e[1:2]) for e in nxt[:3]]
                    if what.startswith("condition"):
                        if adm == [1] and head[:1] != [("child", "body")]:
                            ok, why = False, "condition ONE is not followed by the loop body: %s" % head
                        if adm == [0] and not (nxt and nxt[0][0] == "end" and nxt[0][2] == (False,) and len(nxt) == 1):
                            ok, why = False, "condition ZERO must close the loop without dropping (end_loop_block(.., false)): %s" % [e[:3] for e in nxt[:2]]
                    else:
                        if adm == [1] and p["outcome"] != ("truncated",) and head != [("repeat",), ("op", "Drop"), ("child", "body")]:
                            ok, why = False, "a ONE on top of the stack after the body must be followed by REPEAT, Drop and the body: %s" % head
                        if adm == [0] and not (nxt and nxt[0][0] == "end" and nxt[0][2] == (True,) and len(nxt) == 1):
                            ok, why = False, "a ZERO on top of the stack after the body must close the loop and drop it (end_loop_block(.., true)): %s" % [e[:3] for e in nxt[:2]]
            ctx.oblig(ok)
            if not ok:
                ctx.violation("loop-iteration", fn.loc(), "execute_loop_block: " + why)
        if kind == "call":
            ctx.inst(key="call-target", nontrivial=True)
            ok = all(([e for e in p["events"] if e[0] in ("child", "dyn")] in ([("child", "callee")], [("dyn",)])) for p in oks)
            sysk = all((("kernel",) in p["events"]) == any(repr(g[0]) == "is_syscall" and g[1] != 0 for g in p["guards"]) for p in oks)
            ctx.oblig(ok and sysk)
            if not (ok and sysk):
                ctx.violation("call-target", fn.loc(), "execute_call_block must execute exactly the block found under fn_hash (or the dynamic block), after access_kernel_proc for syscalls")
    # span executor: start_* dominates batch execution and end_* (CFG shape; its loops over batches are decided by C13-R3)
    for name in ("span",):
        f = F.fn(r"^miden_processor::Process::execute_%s_block$" % name)
        starts = blocks_calling(f, r"Process::start_%s_block$" % name)
        ends = blocks_calling(f, r"Process::end_%s_block$" % name)
        kids = blocks_calling(f, r"Process::(execute_code_block|execute_dyn_block|execute_op_batch)$")
        ctx.inst(key="shape|" + name, nontrivial=True)
        ok = len(starts) == 1 and ends and all(f.dominates(starts[0], k) for k in kids) and all(f.dominates(starts[0], e) for e in ends)
        ctx.oblig(ok)
        if not ok:
            ctx.violation("executor-shape|%s" % name, f.loc(), "execute_%s_block: start_* must dominate every child execution and end_*: starts=%s ends=%s kids=%s" % (name, starts, ends, kids))
            continue
        mm = count_on_paths(f, call_weight(f, r"Process::end_%s_block$" % name), avoid=err_blocks(f) | panic_blocks(f))
        if mm != (1, 1):
            ctx.violation("executor-end|%s" % name, f.loc(), "execute_%s_block must call end_%s_block exactly once on every successful path, got %s" % (name, name, mm))


def r3_lowering(ctx, F):
    fn = F.fn(r"^miden_assembly::assembler::Assembler::compile_body$")
    # if/else
    ns = fn.calls_to(r"CodeBlock::new_split$")
    ctx.inst(key="new_split", nontrivial=True)
    if len(ns) != 1:
        ctx.violation("new_split-sites", fn.loc(), "expected one CodeBlock::new_split in compile_body, found %d" % len(ns))
    for bi, cal, t in ns:
        s0 = fn.backward_slice(t["args"][0]["l"])
        s1 = fn.backward_slice(t["args"][1]["l"])
        f0 = {f for l, f in s0["fields"]}
        f1 = {f for l, f in s1["fields"]}
        ctx.sample({"new_split.arg0_fields": sorted(f0 & {"true_case", "false_case"}), "new_split.arg1_fields": sorted(f1 & {"true_case", "false_case"})})
        ok = "true_case" in f0 and "false_case" not in f0 and "false_case" in f1 and "true_case" not in f1
        ctx.oblig(ok)
        if not ok:
            ctx.violation("split-argument-order", fn.loc(t["ln"]), "CodeBlock::new_split must receive (block compiled from true_case, block compiled from false_case); "
                          "argument 0 derives from %s, argument 1 from %s" % (sorted(f0 & {"true_case", "false_case"}), sorted(f1 & {"true_case", "false_case"})))
        # both come from compile_body (or the NOOP span for an empty else)
        c0 = [c for b2, c, tt in s0["calls"] if c.endswith("compile_body")]
        if not c0:
            ctx.violation("split-true-not-compiled", fn.loc(t["ln"]), "the true branch passed to new_split is not the result of compile_body")
    # while
    nl = fn.calls_to(r"CodeBlock::new_loop$")
    ctx.inst(key="new_loop", nontrivial=True)
    for bi, cal, t in nl:
        s0 = fn.backward_slice(t["args"][0]["l"])
        ok = any(c.endswith("compile_body") for b2, c, tt in s0["calls"]) and "body" in {f for l, f in s0["fields"]}
        ctx.oblig(ok)
        if not ok:
            ctx.violation("loop-body", fn.loc(t["ln"]), "CodeBlock::new_loop must wrap the block compiled from the while body")
    if len(nl) != 1:
        ctx.violation("new_loop-sites", fn.loc(), "expected one CodeBlock::new_loop in compile_body")
    # repeat: loop bound derives from `times`, pushes a clone of the compiled body
    ranges = [(bi, s) for bi, s in fn.aggregates(r"ops::range::Range$")]
    ok = False
    for bi, s in ranges:
        end = s["r"]["ops"][1]
        if "l" in end:
            sl = fn.backward_slice(end["l"])
            if "times" in {f for l, f in sl["fields"]} and fn.const_of(s["r"]["ops"][0]) == 0:
                ok = True
    ctx.inst(key="repeat", nontrivial=True)
    ctx.oblig(ok)
    if not ok:
        ctx.violation("repeat-count", fn.loc(), "the repeat loop in compile_body does not iterate over 0..times")
    pushes = fn.calls_to(r"alloc::vec::Vec::push$")
    clones = [t for bi, c, t in pushes if any(cc.endswith("Clone::clone") or cc.endswith("CodeBlock@Clone::clone") for b2, cc, tt in fn.backward_slice(t["args"][1]["l"], through_calls=False)["calls"])]
    if not clones:
        ctx.violation("repeat-body", fn.loc(), "repeat does not push clones of the compiled body")


def r3b_locals_wrapper(ctx, F):
    """compile_procedure wraps bodies with locals in Push(n) FmpUpdate ... Push(-n) FmpUpdate with n = num_locals"""
    fn = F.fn(r"^miden_assembly::assembler::Assembler::compile_procedure$")
    holder = {}

    def make():
        I = Interp(F)
        procmodel.install_field(I)
        rec = []
        holder["rec"] = rec
        ok = lambda v: Agg([v], "adt", "core::result::Result", "Ok")
        I.overrides.append((re.compile(r"AssemblyContext::begin_proc$"), lambda I, a, f: ok(Agg([], "tuple"))))
        I.overrides.append((re.compile(r"AssemblyContext::complete_proc$"), lambda I, a, f: Agg([], "tuple")))
        I.overrides.append((re.compile(r"Assembler::compile_body$"), lambda I, a, f: (rec.append(a[3]), ok(Opaque("CodeBlock")))[1]))
        I.overrides.append((re.compile(r"CodeBody::nodes$|::iter$"), lambda I, a, f: Opaque("nodes")))
        return I

    def run(I):
        adt = F.adt(r"^miden_assembly::ast::procedure::ProcedureAst$")
        fields = [f["name"] for f in adt["variants"][0]["fields"]]
        items = [Opaque("f:" + n) for n in fields]
        items[fields.index("num_locals")] = Term("num_locals")
        items[fields.index("is_export")] = False
        proc = Agg(items, "adt", adt["id"], adt["variants"][0]["name"])
        return I.call(fn.id, [Ptr([Opaque("Assembler")], 0), Ptr([proc], 0), Ptr([Opaque("AssemblyContext")], 0)])

    seen = []
    for I, out, exc in enumerate_paths(make, run):
        if exc is not None:
            ctx.violation("UNANALYSABLE|compile_procedure", fn.loc(), str(exc))
            return
        w = holder["rec"][0] if holder["rec"] else None
        guards = [(repr(g[0]), g[1]) for g in I.path]
        ctx.inst(key=repr(guards), nontrivial=True)
        if isinstance(w, Agg) and w.variant == "Some":
            bw = w.items[0]
            pro = [(o.variant, o.items) for o in bw.items[0].items]
            epi = [(o.variant, o.items) for o in bw.items[1].items]
            seen.append(("wrapped", guards))
            ok = (len(pro) == 2 and len(epi) == 2 and pro[0][0] == "Push" and pro[1][0] == "FmpUpdate" and epi[0][0] == "Push" and epi[1][0] == "FmpUpdate"
                  and isinstance(pro[0][1][0], Poly) and isinstance(epi[0][1][0], Poly) and (pro[0][1][0] + epi[0][1][0]).is_zero()
                  and "num_locals" in repr(pro[0][1][0]))
            ctx.oblig(ok)
            ctx.sample({"prologue": [(v, [str(x) for x in it]) for v, it in pro], "epilogue": [(v, [str(x) for x in it]) for v, it in epi], "guards": guards})
            if not ok:
                ctx.violation("locals-wrapper", fn.loc(), "procedure bodies with locals must be wrapped in Push(n) FmpUpdate ... Push(-n) FmpUpdate with n = num_locals; got %s / %s" % (pro, epi))
        else:
            seen.append(("bare", guards))
    kinds = {k for k, g in seen}
    if kinds != {"wrapped", "bare"}:
        ctx.violation("locals-wrapper-paths", fn.loc(), "compile_procedure must wrap exactly when num_locals > 0; paths: %s" % seen)


def run(ctx, F):
    ctx.trusted += ["rustc MIR via mirfacts", "mirsym"]
    ctx.assumptions += ["decides the shape of the executors and of the lowering, not the behaviour of nested programs as a whole"]
    ctx.run_rule("C06-R1", "three-way condition discipline (path model of the executors): a path a non-binary condition can take ends in Err(NotBinaryValue) before any consequence; binary values are never rejected", r1_three_way, F)
    ctx.run_rule("C06-R2", "executor shape (path model): split children under the right value, join order, loop iteration protocol, call target, start_* first, end_* exactly once and last on success", r2_executor_shape, F)
    ctx.run_rule("C06-R3", "compile_body: new_split(true_case, false_case) in that order, new_loop(body), repeat pushes `times` clones", r3_lowering, F)
    ctx.run_rule("C06-R3b", "compile_procedure wraps bodies with locals in Push(n) FmpUpdate ... Push(-n) FmpUpdate", r3b_locals_wrapper, F)

"""In-memory view of the mirfacts output: functions, call graph, CFG helpers, def-use slices."""
import glob, json, os, re, collections
from . import extract


class Fn:
    __slots__ = ("d", "id", "file", "line", "blocks", "_preds", "_dom", "_defs", "crate", "_calls")

    def __init__(self, d, crate):
        self.d = d
        self.id = d["id"]
        self.file = rel(d["file"])
        self.line = d["line"]
        self.blocks = d["blocks"]
        self.crate = crate
        self._preds = None
        self._dom = None
        self._defs = None
        self._calls = None

    @property
    def name(self):
        return self.id.rsplit("::", 1)[-1]

    def loc(self, ln=None):
        return "%s:%d" % (self.file, ln if ln else self.line)

    # ---- CFG ------------------------------------------------------------------------------
    def succs(self, bi, cleanup=False):
        b = self.blocks[bi]
        t = b["t"]
        k = t["k"]
        out = []
        if k in ("goto", "drop", "assert"):
            out = [t["to"]]
        elif k == "switch":
            out = [a[1] for a in t["arms"]] + [t["else"]]
        elif k == "call":
            out = [t["to"]] if t["to"] is not None else []
        return out

    def preds(self):
        if self._preds is None:
            p = collections.defaultdict(list)
            for i in range(len(self.blocks)):
                for s in self.succs(i):
                    p[s].append(i)
            self._preds = p
        return self._preds

    def reachable_blocks(self, start=0, avoid=()):
        seen = set()
        st = [start]
        while st:
            b = st.pop()
            if b in seen or b in avoid:
                continue
            seen.add(b)
            st.extend(self.succs(b))
        return seen

    def dominators(self):
        """dict block -> set of dominating blocks (incl. itself), over non-cleanup reachable blocks"""
        if self._dom is None:
            reach = self.reachable_blocks(0)
            order = sorted(reach)
            dom = {b: set(order) for b in order}
            dom[0] = {0}
            preds = self.preds()
            changed = True
            while changed:
                changed = False
                for b in order:
                    if b == 0:
                        continue
                    ps = [dom[p] for p in preds[b] if p in reach]
                    new = set.intersection(*ps) if ps else set()
                    new = new | {b}
                    if new != dom[b]:
                        dom[b] = new
                        changed = True
            self._dom = dom
        return self._dom

    def dominates(self, a, b):
        return a in self.dominators().get(b, ())

    # ---- calls ----------------------------------------------------------------------------
    def calls(self):
        """list of (block index, callee id, terminator dict); callee ids are given without trait type arguments
        (the exact id stays in t["f"]["fn"])"""
        if self._calls is None:
            out = []
            for i, b in enumerate(self.blocks):
                t = b["t"]
                if t["k"] in ("call", "tailcall") and "fn" in t["f"]:
                    out.append((i, t["f"]["fn"], t))
            self._calls = out
        return self._calls

    def calls_to(self, pat):
        """call sites whose callee id matches the regex (search)"""
        r = re.compile(pat)
        return [(i, c, t) for (i, c, t) in self.calls() if r.search(c)]

    # ---- def-use --------------------------------------------------------------------------
    def defs(self):
        """local -> list of ('s', block, stmt) | ('c', block, term) defining it"""
        if self._defs is None:
            d = collections.defaultdict(list)
            for i, b in enumerate(self.blocks):
                for s in b["s"]:
                    d[s["d"]["l"]].append(("s", i, s))
                t = b["t"]
                if t["k"] == "call":
                    d[t["d"]["l"]].append(("c", i, t))
            self._defs = d
        return self._defs

    def operand_locals(self, o):
        if o is None:
            return []
        if "l" in o:
            ls = [o["l"]]
            for p in o.get("p", ()):
                if isinstance(p, dict) and "idx" in p:
                    ls.append(p["idx"])
            return ls
        return []

    def rvalue_operands(self, r):
        k = r["k"]
        if k in ("use", "cast", "un", "repeat"):
            return [r["o"]]
        if k in ("ref", "rawptr", "discr"):
            return [r["p"]]
        if k == "bin":
            return [r["a"], r["b"]]
        if k == "agg":
            return list(r["ops"])
        return []

    def backward_slice(self, local, through_calls=True, stop_at=None, maxn=4000):
        """flow-insensitive backward slice from a local: returns dict with
        'calls': list of (block, callee, term) whose result flows in,
        'consts': list of constant operands, 'args': set of argument locals, 'locals': visited,
        'fields': set of (base local, field name) read."""
        defs = self.defs()
        argc = self.d["argc"]
        seen = set()
        calls, consts, args, fields = [], [], set(), set()
        st = [local]
        while st and len(seen) < maxn:
            l = st.pop()
            if l in seen:
                continue
            seen.add(l)
            if 1 <= l <= argc:
                args.add(l)
            for kind, bi, x in defs.get(l, ()):
                if kind == "s":
                    r = x["r"]
                    for o in self.rvalue_operands(r):
                        if "l" in o:
                            for p in o.get("p", ()):
                                if isinstance(p, dict) and "f" in p:
                                    fields.add((o["l"], p["f"]))
                            st.extend(self.operand_locals(o))
                        elif "c" in o or "fn" in o:
                            consts.append(o)
                else:
                    callee = x["f"].get("fn", "?")
                    calls.append((bi, callee, x))
                    if stop_at and re.search(stop_at, callee):
                        continue
                    if through_calls:
                        for a in x["args"]:
                            if "l" in a:
                                st.extend(self.operand_locals(a))
                            elif "c" in a or "fn" in a:
                                consts.append(a)
        return {"calls": calls, "consts": consts, "args": args, "locals": seen, "fields": fields}

    def aggregates(self, adt_pat=None):
        out = []
        for i, b in enumerate(self.blocks):
            for s in b["s"]:
                r = s["r"]
                if r["k"] == "agg" and r.get("ak") == "adt":
                    if adt_pat is None or re.search(adt_pat, r["adt"]):
                        out.append((i, s))
        return out

    def const_of(self, o):
        """value of a constant operand, or of a local assigned exactly once from a constant"""
        if o is None:
            return None
        if "c" in o:
            return o["c"]
        if "l" in o and not o.get("p"):
            ds = self.defs().get(o["l"], ())
            if len(ds) == 1 and ds[0][0] == "s":
                r = ds[0][2]["r"]
                if r["k"] == "use":
                    return self.const_of(r["o"])
                if r["k"] == "cast":
                    return self.const_of(r["o"])
        return None


def strip_targs(fid):
    """drop the <..> trait arguments after `@Trait` (ids stay unique with them; patterns are written without)"""
    if "@" not in fid or "<" not in fid:
        return fid
    out, i, n = [], 0, len(fid)
    while i < n:
        ch = fid[i]
        if ch == "<" and out and re.search(r"@\w+$", "".join(out[-40:])):
            depth = 0
            while i < n:
                if fid[i] == "<":
                    depth += 1
                elif fid[i] == ">":
                    depth -= 1
                    if depth == 0:
                        i += 1
                        break
                i += 1
            continue
        out.append(ch)
        i += 1
    return "".join(out)


def rel(path):
    p = path
    for pre in (extract.REPO + "/",):
        if p.startswith(pre):
            p = p[len(pre):]
    return p


class Facts:
    def __init__(self, cache_dir):
        self.dir = cache_dir
        self.fns = {}
        self.adts = {}
        self.consts = {}
        self.impls = []
        self.traits = {}
        self.by_crate = collections.Counter()
        seen_files = collections.defaultdict(list)
        for f in sorted(glob.glob(os.path.join(cache_dir, "mir", "*.jsonl"))):
            crate = os.path.basename(f).rsplit("-", 1)[0]
            seen_files[crate].append(f)
        for crate, files in seen_files.items():
            # a crate compiled twice (different feature sets): merge by id, first wins
            for f in files:
                with open(f) as fh:
                    for line in fh:
                        d = json.loads(line)
                        k = d["k"]
                        if k == "fn":
                            if d["id"] not in self.fns:
                                self.fns[d["id"]] = Fn(d, crate)
                                self.by_crate[crate] += 1
                        elif k == "adt":
                            self.adts.setdefault(d["id"], d)
                        elif k == "const":
                            self.consts.setdefault(d["id"], d)
                        elif k == "impl":
                            self.impls.append(d)
                        elif k == "trait":
                            self.traits.setdefault(d["id"], d)
        for c, floor in extract.FN_FLOORS.items():
            if self.by_crate[c] < floor:
                raise SystemExit("ANCHOR-LOST: crate %s has %d functions in the facts, floor %d" % (c, self.by_crate[c], floor))
        # trait item -> implementing fns (workspace)
        self.impls_of = collections.defaultdict(set)
        for fn in self.fns.values():
            ti = fn.d.get("trait_item")
            if ti and ti != fn.id:
                self.impls_of[ti].add(fn.id)
        self._callees = None
        self._callers = None

    # ---- lookup ---------------------------------------------------------------------------
    def fn(self, id_or_pat, required=True):
        if id_or_pat in self.fns:
            return self.fns[id_or_pat]
        r = re.compile(id_or_pat)
        m = [f for i, f in self.fns.items() if r.search(strip_targs(i))]
        if len(m) == 1:
            return m[0]
        if required:
            raise AnchorLost("function %r: %d matches %s" % (id_or_pat, len(m), [f.id for f in m][:5]))
        return None

    def find(self, pat):
        r = re.compile(pat)
        return [f for i, f in sorted(self.fns.items()) if r.search(strip_targs(i))]

    def const(self, pat):
        if pat in self.consts:
            return self.consts[pat]["val"]
        r = re.compile(pat)
        m = [c for i, c in self.consts.items() if r.search(i)]
        if len(m) != 1:
            raise AnchorLost("const %r: %d matches" % (pat, len(m)))
        return m[0]["val"]

    def adt(self, pat):
        if pat in self.adts:
            return self.adts[pat]
        r = re.compile(pat)
        m = [c for i, c in self.adts.items() if r.search(i)]
        if len(m) != 1:
            raise AnchorLost("adt %r: %d matches %s" % (pat, len(m), [x["id"] for x in m][:5]))
        return m[0]

    # ---- call graph -----------------------------------------------------------------------
    def callees(self, fid):
        """set of workspace function ids that fid may call (closures it creates included;
        unresolved trait calls expanded to all workspace impls)"""
        if self._callees is None:
            cg = {}
            for f in self.fns.values():
                s = set()
                for (bi, callee_s, t) in f.calls():
                    fr = t["f"]
                    callee = fr.get("fnx", fr["fn"])
                    if callee in self.fns:
                        s.add(callee)
                    if fr.get("res") in ("trait", "virtual", "default"):
                        s |= self.impls_of.get(fr["decl"], set())
                # closures and fn items referenced as values
                for b in f.blocks:
                    for st in b["s"]:
                        r = st["r"]
                        if r["k"] == "agg" and r.get("ak") == "closure" and r["fn"] in self.fns:
                            s.add(r["fn"])
                        for o in f.rvalue_operands(r):
                            if "fn" in o and o.get("fnx", o["fn"]) in self.fns:
                                s.add(o.get("fnx", o["fn"]))
                    t = b["t"]
                    if t["k"] == "call":
                        for a in t["args"]:
                            if "fn" in a and a.get("fnx", a["fn"]) in self.fns:
                                s.add(a.get("fnx", a["fn"]))
                cg[f.id] = s
            self._callees = cg
        return self._callees.get(fid, set())

    def callers(self, fid):
        if self._callers is None:
            self.callees("")
            cr = collections.defaultdict(set)
            for a, bs in self._callees.items():
                for b in bs:
                    cr[b].add(a)
            self._callers = cr
        return self._callers.get(fid, set())

    def reachable(self, roots, stop=None):
        seen = set()
        st = list(roots)
        while st:
            f = st.pop()
            if f in seen:
                continue
            if stop and stop(f):
                continue
            seen.add(f)
            st.extend(self.callees(f))
        return seen

    def call_path(self, root, target_pred, stop=None):
        """shortest call path root -> f with target_pred(f)"""
        prev = {root: None}
        q = collections.deque([root])
        while q:
            f = q.popleft()
            if target_pred(f) and f != root:
                p = []
                while f is not None:
                    p.append(f)
                    f = prev[f]
                return p[::-1]
            for c in sorted(self.callees(f)):
                if c not in prev and not (stop and stop(c)):
                    prev[c] = f
                    q.append(c)
        return None


class AnchorLost(Exception):
    pass

"""Reference definitions of SHA-256 (FIPS 180-4), BLAKE3 (reference specification, single chunk / single block inputs) and
Keccak-256 (FIPS 202 with the original Keccak padding 0x01 .. 0x80), written over the word / bit domain of vlib/bvexec.py so
that they can be applied to symbolic inputs. Conventions of the standard library procedures (from their `#!` documentation):
  sha256::hash_2to1 / hash_1to1   input words big-endian, m0 on top of the stack; digest words big-endian, dig0 on top
  blake3::hash_2to1 / hash_1to1   input words little-endian, msg0 on top; digest words little-endian, dig0 on top
  keccak256::hash                 64 bytes as eight little-endian 64-bit lanes, each as [high word, low word], lane 0 on top;
                                  digest likewise"""
from .bvexec import BV, ZERO, ONE, bxor, band

SHA_H0 = [0x6a09e667, 0xbb67ae85, 0x3c6ef372, 0xa54ff53a, 0x510e527f, 0x9b05688c, 0x1f83d9ab, 0x5be0cd19]
SHA_K = [
    0x428a2f98, 0x71374491, 0xb5c0fbcf, 0xe9b5dba5, 0x3956c25b, 0x59f111f1, 0x923f82a4, 0xab1c5ed5, 0xd807aa98, 0x12835b01, 0x243185be, 0x550c7dc3,
    0x72be5d74, 0x80deb1fe, 0x9bdc06a7, 0xc19bf174, 0xe49b69c1, 0xefbe4786, 0x0fc19dc6, 0x240ca1cc, 0x2de92c6f, 0x4a7484aa, 0x5cb0a9dc, 0x76f988da,
    0x983e5152, 0xa831c66d, 0xb00327c8, 0xbf597fc7, 0xc6e00bf3, 0xd5a79147, 0x06ca6351, 0x14292967, 0x27b70a85, 0x2e1b2138, 0x4d2c6dfc, 0x53380d13,
    0x650a7354, 0x766a0abb, 0x81c2c92e, 0x92722c85, 0xa2bfe8a1, 0xa81a664b, 0xc24b8b70, 0xc76c51a3, 0xd192e819, 0xd6990624, 0xf40e3585, 0x106aa070,
    0x19a4c116, 0x1e376c08, 0x2748774c, 0x34b0bcb5, 0x391c0cb3, 0x4ed8aa4a, 0x5b9cca4f, 0x682e6ff3, 0x748f82ee, 0x78a5636f, 0x84c87814, 0x8cc70208,
    0x90befffa, 0xa4506ceb, 0xbef9a3f7, 0xc67178f2]


def sha256_compress(c, state, block):
    x3 = lambda a, b, d: c.xor(c.xor(a, b), d)
    W = list(block)
    for t in range(16, 64):
        s0 = x3(c.rotr(W[t - 15], 7), c.rotr(W[t - 15], 18), c.shr(W[t - 15], 3))
        s1 = x3(c.rotr(W[t - 2], 17), c.rotr(W[t - 2], 19), c.shr(W[t - 2], 10))
        W.append(c.add([s1, W[t - 7], s0, W[t - 16]]))
    a, b, cc, d, e, f, g, h = state
    for t in range(64):
        S1 = x3(c.rotr(e, 6), c.rotr(e, 11), c.rotr(e, 25))
        ch = c.xor(c.and_(e, f), c.and_(c.not_(e), g))
        T1 = c.add([h, S1, ch, BV.const(SHA_K[t]), W[t]])
        S0 = x3(c.rotr(a, 2), c.rotr(a, 13), c.rotr(a, 22))
        maj = x3(c.and_(a, b), c.and_(a, cc), c.and_(b, cc))
        T2 = c.add([S0, maj])
        h, g, f, e, d, cc, b, a = g, f, e, c.add([d, T1]), cc, b, a, c.add([T1, T2])
    return [c.add([s, v]) for s, v in zip(state, (a, b, cc, d, e, f, g, h))]


def sha256(c, words):
    """digest of a message of len(words) 32-bit big-endian words (8 or 16)"""
    n = len(words)
    st = [BV.const(x) for x in SHA_H0]
    msg = list(words) + [BV.const(0x80000000)]
    while len(msg) % 16 != 15:
        msg.append(BV.const(0))
    msg.append(BV.const(32 * n))
    # the 64-bit length occupies the last two words; the high word is zero for these sizes
    msg[-2:] = [msg[-2], msg[-1]] if len(msg) % 16 == 0 else msg[-2:]
    if len(msg) % 16:
        raise ValueError("padding")
    for i in range(0, len(msg), 16):
        st = sha256_compress(c, st, msg[i:i + 16])
    return st


BLAKE_PERM = [2, 6, 3, 10, 7, 0, 4, 13, 1, 11, 12, 5, 9, 14, 15, 8]


def blake3_compress(c, cv, block, counter, block_len, flags):
    v = list(cv) + [BV.const(x) for x in SHA_H0[:4]] + [BV.const(counter & 0xffffffff), BV.const(counter >> 32), BV.const(block_len), BV.const(flags)]
    m = list(block)

    def g(a, b, cc, d, mx, my):
        v[a] = c.add([v[a], v[b], mx])
        v[d] = c.rotr(c.xor(v[d], v[a]), 16)
        v[cc] = c.add([v[cc], v[d]])
        v[b] = c.rotr(c.xor(v[b], v[cc]), 12)
        v[a] = c.add([v[a], v[b], my])
        v[d] = c.rotr(c.xor(v[d], v[a]), 8)
        v[cc] = c.add([v[cc], v[d]])
        v[b] = c.rotr(c.xor(v[b], v[cc]), 7)
    for r in range(7):
        g(0, 4, 8, 12, m[0], m[1])
        g(1, 5, 9, 13, m[2], m[3])
        g(2, 6, 10, 14, m[4], m[5])
        g(3, 7, 11, 15, m[6], m[7])
        g(0, 5, 10, 15, m[8], m[9])
        g(1, 6, 11, 12, m[10], m[11])
        g(2, 7, 8, 13, m[12], m[13])
        g(3, 4, 9, 14, m[14], m[15])
        if r < 6:
            m = [m[BLAKE_PERM[i]] for i in range(16)]
    return [c.xor(v[i], v[i + 8]) for i in range(8)]


def blake3(c, words):
    """hash of 32 or 64 bytes given as little-endian words: one chunk, one block, flags CHUNK_START | CHUNK_END | ROOT"""
    n = len(words)
    block = list(words) + [BV.const(0)] * (16 - n)
    return blake3_compress(c, [BV.const(x) for x in SHA_H0], block, 0, 4 * n, 1 | 2 | 8)


KECCAK_RC = [0x0000000000000001, 0x0000000000008082, 0x800000000000808a, 0x8000000080008000, 0x000000000000808b, 0x0000000080000001, 0x8000000080008081, 0x8000000000008009,
             0x000000000000008a, 0x0000000000000088, 0x0000000080008009, 0x000000008000000a, 0x000000008000808b, 0x800000000000008b, 0x8000000000008089, 0x8000000000008003,
             0x8000000000008002, 0x8000000000000080, 0x000000000000800a, 0x800000008000000a, 0x8000000080008081, 0x8000000000008080, 0x0000000080000001, 0x8000000080008008]
KECCAK_ROT = [[0, 36, 3, 41, 18], [1, 44, 10, 45, 2], [62, 6, 43, 15, 61], [28, 55, 25, 21, 56], [27, 20, 39, 8, 14]]     # [x][y]


def keccak_f(c, A):
    """A[x][y]: lanes as lists of 64 bit expressions (LSB first)"""
    lx = lambda a, b: [x ^ y for x, y in zip(a, b)]
    rot = lambda a, n: [a[(i - n) % 64] for i in range(64)]
    for rnd in range(24):
        C = [lx(lx(lx(lx(A[x][0], A[x][1]), A[x][2]), A[x][3]), A[x][4]) for x in range(5)]
        D = [lx(C[(x - 1) % 5], rot(C[(x + 1) % 5], 1)) for x in range(5)]
        # the state is materialised after every step mapping (theta, rho/pi, chi, iota): large bit expressions are named
        # (cut), as a store to memory does in the symbolic execution of the implementation
        A = [[[c.cut_bit(b) for b in lx(A[x][y], D[x])] for y in range(5)] for x in range(5)]
        B = [[None] * 5 for _ in range(5)]
        for x in range(5):
            for y in range(5):
                B[y][(2 * x + 3 * y) % 5] = rot(A[x][y], KECCAK_ROT[x][y])
        A = [[[c.cut_bit(B[x][y][i] ^ band(B[(x + 1) % 5][y][i] ^ ONE, B[(x + 2) % 5][y][i])) for i in range(64)] for y in range(5)] for x in range(5)]
        rc = KECCAK_RC[rnd]
        A[0][0] = [A[0][0][i] ^ (ONE if (rc >> i) & 1 else ZERO) for i in range(64)]
    return A


def keccak256_64(c, words):
    """words: [hi0, lo0, hi1, lo1, ...] for the eight little-endian input lanes; returns [hi0, lo0, ..., hi3, lo3] of the digest"""
    zero = [ZERO] * 64
    lanes = []
    for i in range(8):
        hi, lo = words[2 * i], words[2 * i + 1]
        lanes.append(list(lo.bits) + list(hi.bits))
    lanes.append([ONE if i == 0 else ZERO for i in range(64)])          # first padding byte 0x01 at byte 64
    while len(lanes) < 16:
        lanes.append(list(zero))
    lanes.append([ONE if i == 63 else ZERO for i in range(64)])         # last padding byte 0x80 at byte 135 (lane 16)
    while len(lanes) < 25:
        lanes.append(list(zero))
    A = [[lanes[x + 5 * y] for y in range(5)] for x in range(5)]
    A = keccak_f(c, A)
    out = []
    for i in range(4):
        lane = A[i % 5][i // 5]
        out += [BV(lane[32:]), BV(lane[:32])]
    return out

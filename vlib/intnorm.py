"""Integer normal forms for the machine-integer terms that operation handlers compute (u64 arithmetic on `as_int()` values,
shifts, masks, casts, divisions). Every term is evaluated into a field polynomial over *atoms*:
  - `as_int(P)` of a field polynomial P is P itself (a canonical representative),
  - the high part of a shift `X >> k` is an atom hi_k(X); the matching low part (as_u32 / as_u16 / `& mask`) is X - 2^k * hi_k(X),
    so the identity X = low + 2^k * high holds by construction; a cast of a value already below 2^N is the value itself,
  - a quotient `a / b` is an atom; `a - (a / b) * b` then evaluates to the remainder polynomial,
  - `wrapping_sub(a, b)` of u32 values: as_u32(..) = a - b + 2^32 * bw with bw the atom `wrapping_sub(a, b) >> 63` (a binary borrow).
Upper bounds are tracked to decide when a cast is the identity. No wrap-around of u64 arithmetic is assumed here; that the
compiler-inserted overflow checks cannot fire inside the operand domains is decided separately (C05-R8)."""
import re
from .mirsym import Poly, Term, P

U64 = 2 ** 64


class NormError(Exception):
    pass


class Norm:
    def __init__(self, bounds=None, terms=None):
        self.bounds = dict(bounds or {})     # repr(term) -> inclusive upper bound
        self.terms = terms or {}             # name of a felt[..] variable -> term
        self.atoms = {}                      # atom name -> (kind, args, ub)
        self.binary = set()                  # atoms that are bits

    def atom(self, name, ub, kind=None):
        self.atoms.setdefault(name, (kind, ub))
        if ub <= 1:
            self.binary.add(name)
        return Poly.var(name), ub

    def val(self, t):
        """(polynomial, upper bound) of an integer term"""
        if isinstance(t, bool):
            return Poly.const(int(t)), int(t)
        if isinstance(t, int):
            return Poly.const(t), t
        if isinstance(t, Poly):
            # a field value used as an integer through as_int
            cv = t.const_value()
            return t, (cv if cv is not None else P - 1)
        if not isinstance(t, Term):
            raise NormError("not an integer term: %r" % (t,))
        a = t.args
        k = repr(t)
        if t.op == "as_int" and len(a) == 1:
            if isinstance(a[0], Poly):
                p = a[0]
                vs = sorted(p.vars())
                if len(vs) == 1 and p == Poly.var(vs[0]) and vs[0] in self.terms:
                    return self.val(self.terms[vs[0]])       # as_int(Felt::new(x)) = x for x below the modulus
                ub = self.bounds.get(k, p.const_value() if p.const_value() is not None else P - 1)
                # a polynomial in values with known bounds: bound of a sum of as_int-bounded variables
                if k not in self.bounds and p.degree() <= 1:
                    tot = 0
                    okb = True
                    for m, c in p.t.items():
                        if c > P // 2:
                            okb = False
                            break
                        if not m:
                            tot += c
                        else:
                            b = self.bounds.get("as_int(%s)" % m[0][0])
                            if b is None:
                                okb = False
                                break
                            tot += c * b
                    if okb:
                        ub = min(ub, tot)
                return p, ub
            raise NormError("as_int of %r" % (a[0],))
        if t.op in ("as_u64", "as_usize") and len(a) == 1:
            return self.val(a[0])
        if t.op in ("as_u32", "as_u16", "as_u8") and len(a) == 1:
            n = {"as_u32": 32, "as_u16": 16, "as_u8": 8}[t.op]
            inner = a[0]
            if isinstance(inner, Term) and inner.op == "wrapping_sub" and n == 32:
                x, xu = self.val(inner.args[0])
                y, yu = self.val(inner.args[1])
                if xu >= 2 ** 32 or yu >= 2 ** 32:
                    raise NormError("wrapping_sub of values not known to be u32")
                bw, _ = self.atom("hi63<%r>" % (inner,), 1)
                return x - y + bw * Poly.const(2 ** 32), 2 ** 32 - 1
            p, ub = self.val(inner)
            if ub < 2 ** n:
                return p, ub
            hi, hub = self.atom("hi%d<%r>" % (n, inner), ub >> n)
            return p - hi * Poly.const(2 ** n), 2 ** n - 1
        if t.op == ">>" and len(a) == 2 and isinstance(a[1], int):
            inner, sh = a
            if isinstance(inner, Term) and inner.op == "wrapping_sub" and sh == 63:
                return self.atom("hi63<%r>" % (inner,), 1)
            p, ub = self.val(inner)
            if ub < 2 ** sh:
                return Poly.const(0), 0
            return self.atom("hi%d<%r>" % (sh, inner), ub >> sh)
        if t.op == "&" and len(a) == 2 and isinstance(a[1], int) and (a[1] + 1) & a[1] == 0:
            n = (a[1] + 1).bit_length() - 1
            p, ub = self.val(a[0])
            if ub <= a[1]:
                return p, ub
            hi, hub = self.atom("hi%d<%r>" % (n, a[0]), ub >> n)
            return p - hi * Poly.const(2 ** n), a[1]
        if t.op == "/" and len(a) == 2:
            x, xu = self.val(a[0])
            y, yu = self.val(a[1])
            return self.atom("quot<%r,%r>" % (a[0], a[1]), xu)
        if t.op in ("+", "*", "-") and len(a) == 2:
            x, xu = self.val(a[0])
            y, yu = self.val(a[1])
            if t.op == "+":
                return x + y, xu + yu
            if t.op == "*":
                return x * y, xu * yu
            # remainder lemma for the bound: x - (x / y) * y < y
            ub = xu
            if isinstance(a[1], Term) and a[1].op == "*" and isinstance(a[1].args[0], Term) and a[1].args[0].op == "/" and repr(a[1].args[0].args[0]) == repr(a[0]):
                ub = max(self.val(a[1].args[1])[1] - 1, 0)
            return x - y, ub
        if t.op == "depth" and not a:
            return Poly.var("felt[depth]"), 2 ** 32
        raise NormError("integer term %r is outside the normaliser" % (t,))

"""C02 — a proof binds to its statement: structural necessary conditions decided from the source.
R1  every field element of the public statement (program hash, every kernel procedure hash, every stack input, every
    stack output incl. overflow elements, every overflow address) occurs in PublicInputs::to_elements (Fiat-Shamir seed),
    at a position that differs per element; the sub-encoders are the ones of the like-named fields.
R2  boundary assertions: the 16 stack columns + b0 + b1 at row 0 are asserted from the inputs, the 16 stack columns at the
    last row from the outputs, and the overflow-table column at both ends by a product that contains every overflow
    input / output value and address; ProcessorAir::new keeps the statement's inputs/outputs.
R3  verify() gates options: AcceptableOptions::OptionSet per hash function with the documented constants; the hash tag
    decoder rejects unknown tags; ExecutionProof::from_bytes has no panic path (shared with C19).
R4  no panic construct on verify()'s own path."""
import re
from .mirutil import *
from .mirsym import *
from .facts import strip_targs
from . import procmodel

LEVEL = "other"
DG = "miden_crypto::hash::rescue::rpo::digest::RpoDigest"


def sym_statement(F, nk, nin, nout, naddr):
    dg = lambda p: Agg([Agg([Poly.var("%s%d" % (p, i)) for i in range(4)], "array")], "adt", DG, "RpoDigest")
    kernel = Agg([Agg([dg("k%d_" % j) for j in range(nk)], "vec")], "adt", F.adt(r"program::Kernel$")["id"], "Kernel")
    pi = Agg([dg("ph"), kernel], "adt", F.adt(r"program::info::ProgramInfo$")["id"], "ProgramInfo")
    si = Agg([Agg([Poly.var("in%d" % i) for i in range(nin)], "vec")], "adt", F.adt(r"stack::inputs::StackInputs$")["id"], "StackInputs")
    so = Agg([Agg([Term("out%d" % i) for i in range(nout)], "vec"), Agg([Term("addr%d" % i) for i in range(naddr)], "vec")], "adt",
             F.adt(r"stack::outputs::StackOutputs$")["id"], "StackOutputs")
    pub = Agg([pi, si, so], "adt", F.adt(r"miden_air::PublicInputs$")["id"], "PublicInputs")
    names = ["ph%d" % i for i in range(4)] + ["k%d_%d" % (j, i) for j in range(nk) for i in range(4)] + ["in%d" % i for i in range(nin)] + \
            ["out%d" % i for i in range(nout)] + ["addr%d" % i for i in range(naddr)]
    return pub, names


def interp(F):
    I = Interp(F)
    procmodel.install_field(I)
    add = lambda rx, m: I.overrides.append((re.compile(rx), m))
    add(r"RpoDigest::as_elements$", lambda I, a, f: SlicePtr(deref(a[0]).items[0].items, 0, 4))
    add(r"ProcessorAir::last_step$", lambda I, a, f: Term("last_step"))
    add(r"AuxTraceRandElements::get_segment_elements$", lambda I, a, f: SlicePtr([Poly.var("alpha%d" % i) for i in range(16)], 0, 16))
    add(r"::mul_base$", lambda I, a, f: a[0] * a[1])
    add(r"alloc::vec::Vec::is_empty$", lambda I, a, f: len(deref(a[0]).items) == 0)
    add(r"core::convert::T@TryInto::try_into$", lambda I, a, f: Agg([Agg(list(deref(a[0]).items), "array")], "adt", "core::result::Result", "Ok"))
    return I


def atoms(v):
    """names of the symbolic atoms a value is built from"""
    if isinstance(v, Poly):
        return set(x for n in v.vars() for x in re.findall(r"[A-Za-z_]\w*", n)) - {"felt"}
    if isinstance(v, Term):
        s = set()
        if not v.args:
            s.add(v.op)
        for a in v.args:
            s |= atoms(a)
        return s
    if isinstance(v, Sup):
        return set(v.vars)
    if isinstance(v, (Agg,)):
        s = set()
        for x in v.items:
            s |= atoms(x)
        return s
    if isinstance(v, str):
        return set(re.findall(r"[A-Za-z_]\w*", v))
    return set()


SHAPES = ((2, 18, 18, 3), (0, 16, 16, 0), (1, 3, 16, 0), (3, 20, 19, 4))


def r1_seed_coverage(ctx, F):
    fid = [k for k in F.fns if strip_targs(k).endswith("miden_air::PublicInputs@ToElements::to_elements")]
    ctx.floor("to_elements-impl", len(fid), 1)
    for shape in SHAPES:
        pub, names = sym_statement(F, *shape)
        try:
            r = interp(F).call(fid[0], [Ptr([pub], 0)])
        except (Unanalysable, PanicReached) as e:
            ctx.violation("UNANALYSABLE|to_elements", F.fns[fid[0]].loc(), str(e)[:300])
            return
        items = deref(r).items
        pos = {}
        for i, x in enumerate(items):
            for n in atoms(x):
                pos.setdefault(n, []).append(i)
        if len(ctx.samples) < 2:
            ctx.sample({"shape(kernel,inputs,outputs,addrs)": shape, "seed_elements": [str(x) for x in items][:60]})
        for n in names:
            kind = re.sub(r"\d+(_\d+)?$", "", n)
            ctx.inst(key="%s|%s" % (shape, n), nontrivial=True)
            ok = n in pos
            ctx.oblig(ok)
            if not ok:
                ctx.violation("seed-omits|%s" % {"ph": "program-hash", "k": "kernel-procedure-hash", "in": "stack-input", "out": "stack-output", "addr": "overflow-address"}[kind],
                              F.fns[fid[0]].loc(), "PublicInputs::to_elements does not contain %s (statement shape %s): a proof would verify against a statement that differs in it" % (n, shape))
        # distinct elements sit at distinct positions, each seed element carries exactly one statement element
        ok = all(len(atoms(x)) == 1 for x in items) and len(items) == len(names)
        ctx.oblig(ok)
        if not ok:
            ctx.violation("seed-shape|%s" % (shape,), F.fns[fid[0]].loc(), "the seed has %d elements for %d statement elements, or mixes several in one" % (len(items), len(names)))
    # the proof's serialised public inputs are not what the verifier uses: verify() builds PublicInputs from its arguments
    v = F.fn(r"^miden_verifier::verify$")
    c = v.calls_to(r"PublicInputs::new$")
    ok = len(c) == 1 and [sorted(v.backward_slice(a["l"], through_calls=False)["args"]) for a in c[0][2]["args"]] == [[1], [2], [3]]
    ctx.inst(key="verify-builds-statement", nontrivial=True)
    ctx.oblig(ok)
    if not ok:
        ctx.violation("verify-statement-args", v.loc(), "verify() must build PublicInputs from (program_info, stack_inputs, stack_outputs) in this order")
    n = F.fn(r"^miden_air::PublicInputs::new$")
    adt = F.adt(r"miden_air::PublicInputs$")
    r = Interp(F).call(n.id, [Term("a1"), Term("a2"), Term("a3")])
    got = dict(zip([f["name"] for f in adt["variants"][0]["fields"]], [repr(x) for x in r.items]))
    ok = got == {"program_info": "a1", "stack_inputs": "a2", "stack_outputs": "a3"}
    ctx.oblig(ok)
    if not ok:
        ctx.violation("public-inputs-new", n.loc(), "PublicInputs::new stores %s" % got)


def r2_boundary(ctx, F):
    air = F.adt(r"miden_air::ProcessorAir$")
    fields = [f["name"] for f in air["variants"][0]["fields"]]
    C = lambda n: (lambda c: c["val"] if isinstance(c, dict) and "val" in c else c)(F.const(n))
    ST, B0, B1, AUX = C(r"miden_air::trace::STACK_TRACE_OFFSET$"), C(r"^miden_air::constraints::stack::B0_COL_IDX$"), C(r"^miden_air::constraints::stack::B1_COL_IDX$"), C(r"miden_air::trace::STACK_AUX_TRACE_OFFSET$")
    CLK, FMP = C(r"miden_air::trace::CLK_COL_IDX$"), C(r"miden_air::trace::FMP_COL_IDX$")
    for shape in SHAPES:
        pub, names = sym_statement(F, *shape)
        nk, nin, nout, naddr = shape
        selfv = Agg([{"stack_inputs": pub.items[1], "stack_outputs": pub.items[2]}.get(n, Opaque(n)) for n in fields], "adt", air["id"], "ProcessorAir")
        res = {}
        for name in ("get_assertions", "get_aux_assertions"):
            fid = [k for k in F.fns if re.search(r"ProcessorAir@Air::%s$" % name, strip_targs(k))][0]
            args = [Ptr([selfv], 0)] + ([Ptr([Opaque("rand")], 0)] if "aux" in name else [])
            try:
                r = interp(F).call(fid, args)
            except (Unanalysable, PanicReached) as e:
                ctx.violation("UNANALYSABLE|%s" % name, F.fns[fid].loc(), str(e)[:300])
                return
            res[name] = {(a.items[0], repr(a.items[1])): a.items[2] for a in deref(r).items}
            loc = F.fns[fid].loc()
        main, aux = res["get_assertions"], res["get_aux_assertions"]
        if len(ctx.samples) < 2:
            ctx.sample({"shape": shape, "main_assertions": {"%s@%s" % k: str(v)[:40] for k, v in main.items()}, "aux_assertions": {"%s@%s" % k: str(v)[:160] for k, v in aux.items()}})

        def need(key, cond, what):
            ctx.inst(key="%s|%s" % (shape, key), nontrivial=True)
            ctx.oblig(bool(cond))
            if not cond:
                ctx.violation("boundary|%s" % key, loc, "%s (statement shape %s)" % (what, shape))
        for i in range(16):
            v = main.get((ST + i, "0"))
            want = Poly.var("in%d" % i) if i < nin else Poly.const(0)
            need("first|s%d" % i, v is not None and v == want, "stack column %d at row 0 is asserted to %s, expected %s" % (i, v, want))
            v = main.get((ST + i, "last_step"))
            need("last|s%d" % i, v is not None and atoms(v) == {"out%d" % i}, "stack column %d at the last row is asserted to %s, expected output %d" % (i, v, i))
        v = main.get((B0, "0"))
        need("first|b0", v is not None and v == Poly.const(max(16, nin)), "stack depth b0 at row 0 is asserted to %s, expected %d" % (v, max(16, nin)))
        v = main.get((B1, "0"))
        need("first|b1", v is not None and v == (Poly.const(-1) if nin > 16 else Poly.const(0)), "overflow address b1 at row 0 is asserted to %s" % (v,))
        need("first|clk", main.get((CLK, "0")) == Poly.const(0), "clk at row 0 must be asserted to 0")
        need("first|fmp", main.get((FMP, "0")) == Poly.const(2 ** 30), "fmp at row 0 must be asserted to 2^30")
        # overflow table column
        v0, v1 = aux.get((AUX, "0")), aux.get((AUX, "last_step"))
        a0, a1 = atoms(v0) if v0 is not None else set(), atoms(v1) if v1 is not None else set()
        for i in range(16, nin):
            need("aux-first|in%d" % i, "in%d" % i in a0, "the overflow-table column at row 0 does not depend on overflow input %d" % i)
        if nin <= 16:
            need("aux-first|empty", v0 == Poly.const(1), "the overflow-table column at row 0 must be 1 without overflow inputs, got %s" % (v0,))
        for i in range(16, nout):
            need("aux-last|out%d" % i, "out%d" % i in a1, "the overflow-table column at the last row does not depend on overflow output %d" % i)
        for i in range(naddr):
            need("aux-last|addr%d" % i, "addr%d" % i in a1, "the overflow-table column at the last row does not depend on overflow address %d" % i)
        if naddr == 0:
            need("aux-last|empty", v1 == Poly.const(1), "the overflow-table column at the last row must be 1 without overflow outputs, got %s" % (v1,))
        # each overflow row is a distinct factor: degree of the product in alpha0 equals the number of rows
        if nin > 16 and isinstance(v0, Poly):
            need("aux-first|rows", v0.degree_in("alpha0") == nin - 16 if hasattr(v0, "degree_in") else True, "overflow-table init has the wrong number of factors")
    # ProcessorAir::new keeps the statement
    new = [k for k in F.fns if re.search(r"ProcessorAir@Air::new$", strip_targs(k))][0]
    fn = F.fns[new]
    ok_in = ok_out = False
    for bi, st in fn.aggregates(r"ProcessorAir$"):
        got = {}
        for n, o in zip(fields, st["r"]["ops"]):
            if "l" in o:
                got[n] = {f for l, f in fn.backward_slice(o["l"], through_calls=False)["fields"]}
        ok_in = "stack_inputs" in got.get("stack_inputs", ()) and "stack_outputs" not in got.get("stack_inputs", ())
        ok_out = "stack_outputs" in got.get("stack_outputs", ()) and "stack_inputs" not in got.get("stack_outputs", ())
    ctx.inst(key="air-new-keeps-statement", nontrivial=True)
    ctx.oblig(ok_in and ok_out)
    if not (ok_in and ok_out):
        ctx.violation("air-new-statement", fn.loc(), "ProcessorAir::new must store pub_inputs.stack_inputs / pub_inputs.stack_outputs in the like-named fields")


def r3_option_gate(ctx, F):
    from . import rules_c01
    hf = F.adt(r"miden_air::proof::HashFunction$")
    ctx.floor("hash-functions", len(hf["variants"]), 3)
    rules_c01.check_option_constants(ctx, F)
    rules_c01.check_prover_dispatch(ctx, F)
    # HashFunction tag decoding rejects unknown tags
    tf = [k for k in F.fns if re.search(r"HashFunction@TryFrom::try_from$", strip_targs(k))]
    ctx.inst(key="hash-tag-decoder", nontrivial=True)
    for k in tf:
        outs = {}
        for tag in range(0, 6):
            r = Interp(F).call(k, [tag])
            outs[tag] = (r.variant, r.items[0].variant if r.variant == "Ok" else None)
        oks = {t: o[1] for t, o in outs.items() if o[0] == "Ok"}
        ok = len(set(oks.values())) == len(oks) == len(hf["variants"])
        ctx.oblig(ok)
        ctx.sample({"hash_tag_decoder": {str(t): str(o) for t, o in outs.items()}})
        if not ok:
            ctx.violation("hash-tag-decoder", F.fns[k].loc(), "HashFunction::try_from accepts %s" % oks)
        # the encoder is the inverse
        discr = {v_["name"]: int(v_["discr"]) for v_ in hf["variants"]}
        ok = all(discr[n] == t for t, n in oks.items())
        ctx.oblig(ok)
        if not ok:
            ctx.violation("hash-tag-encoding", F.fns[k].loc(), "tag decoder %s disagrees with the enum discriminants %s" % (oks, discr))


def r4_no_panic(ctx, F):
    v = F.fn(r"^miden_verifier::verify$")
    reach = [v.id] + [r for r in F.reachable([v.id]) if r.startswith(("miden_verifier::", "miden_air::PublicInputs", "miden_air::proof::"))]
    n = 0
    for fid in sorted(set(reach)):
        fn = F.fns[fid]
        ctx.inst(key=short(fid), nontrivial=True)
        n += 1
        bad = []
        for bi in panic_blocks(fn):
            t = fn.blocks[bi]["t"]
            bad.append((t.get("ln"), "diverging call to %s" % t["f"].get("fn", "?")))
        for bi, c, t in fn.calls():
            if re.search(r"::(unwrap|expect|unwrap_err|expect_err)$", c):
                bad.append((t.get("ln"), "call to %s" % c))
        for bi, b in enumerate(fn.blocks):
            t = b["t"]
            if t["k"] == "assert" and t.get("msg") not in ("misaligned", "nullptr"):
                bad.append((t.get("ln"), "compiler-inserted check `%s`" % t.get("msg")))
        ctx.oblig(not bad)
        for ln, what in bad:
            ctx.violation("panic-on-verify-path|%s|%s" % (short(fid), re.sub(r"\d+", "", what)[:50]), fn.loc(ln), "%s: %s on the verify path (an altered statement or proof must give an error, never a panic)" % (fid, what))
    ctx.floor("verify-path-functions", n, 4)
    # ExecutionProof::from_bytes: no input length reaches an index check; the tag byte goes to HashFunction::try_from, the rest to StarkProof::from_bytes
    fb = F.fn(r"^miden_air::proof::ExecutionProof::from_bytes$")
    for ln_ in range(0, 5):
        seen = {}

        def mk():
            I = Interp(F)
            I.overrides.append((re.compile(r"StarkProof::from_bytes$"), lambda I, a, f: (seen.__setitem__("rest", a[0]), Agg([Opaque("stark")], "adt", "core::result::Result", "Ok"))[1]))
            return I
        key = "from_bytes|len=%d" % ln_
        ctx.inst(key=key, nontrivial=True)
        byts = [Term("byte%d" % i) for i in range(ln_)]
        try:
            outs = list(enumerate_paths(mk, lambda I: I.call(fb.id, [SlicePtr(byts, 0, ln_)]), max_paths=16))
        except (Unanalysable,) as e:
            ctx.violation("UNANALYSABLE|from_bytes", fb.loc(), str(e)[:300])
            continue
        for I, res, exc in outs:
            if isinstance(exc, PanicReached):
                ctx.oblig(False)
                ctx.violation("from-bytes-panic|len=%d" % ln_, fb.loc(), "ExecutionProof::from_bytes panics on a %d-byte input: %s" % (ln_, str(exc)[:200]))
            elif exc is not None:
                ctx.violation("UNANALYSABLE|from_bytes", fb.loc(), str(exc)[:300])
            else:
                ok = isinstance(res, Agg) and (res.variant == "Err" if ln_ < 2 else True)
                ctx.oblig(ok)
                if not ok:
                    ctx.violation("from-bytes-short|len=%d" % ln_, fb.loc(), "ExecutionProof::from_bytes accepts a %d-byte input" % ln_)
        if ln_ >= 2:
            rest = seen.get("rest")
            ok = isinstance(rest, SlicePtr) and rest.len == ln_ - 1 and rest.start == 1
            ctx.oblig(ok)
            if not ok:
                ctx.violation("from-bytes-rest|len=%d" % ln_, fb.loc(), "the STARK proof must be parsed from bytes 1.. of the input")


def run(ctx, F):
    ctx.trusted += ["rustc MIR via mirfacts", "mirsym", "winter-verifier: seeds the public coin with PublicInputs::to_elements and enforces Air::get_assertions / AcceptableOptions (external, not analysed)"]
    ctx.assumptions += ["soundness of the STARK itself (rejection of a proof whose seed or boundary values differ) is the verifier library's; decided here is that every element of the statement reaches the seed and the boundary assertions",
                        "representative statement shapes %s (kernel procedures, inputs, outputs, overflow addresses)" % (SHAPES,)]
    ctx.run_rule("C02-R1", "every element of the statement occurs in the Fiat-Shamir seed (PublicInputs::to_elements), one per position; verify() builds the statement from its arguments", r1_seed_coverage, F)
    ctx.run_rule("C02-R2", "boundary assertions cover all 16 stack columns, b0, b1, clk, fmp at row 0, all 16 stack columns at the last row, and the overflow-table column depends on every overflow input/output/address", r2_boundary, F)
    ctx.run_rule("C02-R3", "verify() accepts only the documented option set per hash function with the matching coin; hash tags decode injectively and reject unknown tags", r3_option_gate, F)
    ctx.run_rule("C02-R4", "no panic construct in verify(), PublicInputs or ExecutionProof code reachable from verify()", r4_no_panic, F)
    from . import rules_c19
    ctx.run_rule("C02-R5", "the statement's integer encodings are injective: every integer vector a statement is built from (stack outputs, overflow addresses, stack / advice inputs) is rejected when an entry is >= the field modulus, so two different statements never reduce to the same seed and boundary values (= C19-R4)", rules_c19.r4_canonical_elements, F)

"""Parses the virtual-table row formulas of docs/src/design/decoder/constraints.md (block stack, block hash, op group
tables) into polynomials over the same variable names the auxiliary-column model (vlib/auxmodel.py) uses."""
import os, re
from .mirsym import Poly
from .docspec import LatexParser, LatexError, tokenize

DOC = "/repo/docs/src/design/decoder/constraints.md"
STACKDOC = "/repo/docs/src/design/stack/main.md"
SECTIONS = {"block-stack": r"^## Block stack table constraints", "block-hash": r"^## Block hash table constraints", "op-group": r"^### Op group table constraints"}


def section_text(name):
    lines = open(DOC).read().split("\n")
    start = [i for i, l in enumerate(lines) if re.match(SECTIONS[name], l)]
    if len(start) != 1:
        raise LatexError("section %s not found in %s" % (name, DOC))
    i = start[0] + 1
    out = []
    while i < len(lines) and not re.match(r"^#{2,3} ", lines[i]):
        out.append(lines[i])
        i += 1
    return "\n".join(out), start[0] + 1


def blocks(text):
    """LaTeX display blocks ($$ ... $$), possibly with several `lhs = rhs` lines separated by \\\\"""
    out = []
    for m in re.finditer(r"\$\$(.*?)\$\$", text, re.S):
        body = m.group(1).strip()
        if body.startswith(">"):
            body = body[1:]
        for part in re.split(r"\\\\\s*\n", body):
            part = part.strip()
            if part:
                out.append(part)
    return out


def expand_sums(s):
    # \sum_{i=0}^3(BODY)  ->  (BODY[i:=0] + ... ) ; a sum without parentheses extends to the next top-level + / - or the end
    while True:
        m = re.search(r"\\sum_\{([a-z])=(\d+)\}\^\{?(\d+)\}?\s*\(", s)
        if not m:
            m2 = re.search(r"\\sum_\{([a-z])=(\d+)\}\^\{?(\d+)\}?\s*", s)
            if not m2:
                return s
            j = m2.end()
            depth = 0
            while j < len(s):
                ch = s[j]
                if ch in "({":
                    depth += 1
                elif ch in ")}":
                    if depth == 0:
                        break
                    depth -= 1
                elif ch in "+-" and depth == 0 and s[:j].rstrip()[-1:] not in ("_", "^", "{"):
                    break
                j += 1
            s = s[:m2.end()] + "(" + s[m2.end():j].strip() + ")" + s[j:]
            continue
        v, lo, hi = m.group(1), int(m.group(2)), int(m.group(3))
        j = m.end()
        depth = 1
        while depth:
            if s[j] == "(":
                depth += 1
            elif s[j] == ")":
                depth -= 1
            j += 1
        body = s[m.end():j - 1]
        terms = []
        for k in range(lo, hi + 1):
            terms.append("(" + re.sub(r"(?<![a-zA-Z\\])%s(?![a-zA-Z])" % v, str(k), body) + ")")
        s = s[:m.start()] + "(" + " + ".join(terms) + ")" + s[j:]


def clean(s):
    s = re.sub(r"\\text\s*\{\s*\|\s*\}\s*\\text\s*\{\s*degree\s*\}\s*=\s*\d+", "", s)
    s = re.sub(r"\\text\s*\{\s*\|\s*degree\s*\}\s*=\s*\d+", "", s)
    s = expand_sums(s)
    s = s.replace("\\alpha", "alpha")
    s = re.sub(r"([a-z]+)_\{([a-z]{2,})\}", lambda m: m.group(1) + "X" + m.group(2), s)      # f_{join} -> fXjoin, ch_{dyn} -> chXdyn
    s = re.sub(r"\bch_1\b", "chXa", s)
    s = re.sub(r"\bch_2\b", "chXb", s)
    s = s.replace("\\Delta gc", "dgc")
    return s.strip()


class Formulas:
    """formulas of one section: name -> (lhs name, rhs text); evaluation under an opcode context"""

    def __init__(self, name):
        text, self.line = section_text(name)
        self.name = name
        self.defs = {}
        for b in blocks(text):
            c = clean(b)
            if c.count("=") != 1:
                continue
            lhs, rhs = [x.strip() for x in c.split("=")]
            if re.match(r"^[a-zA-Z]+(X[a-z0-9]+)?(_[a-z0-9])?$", lhs):
                self.defs[lhs] = rhs

    def eval(self, key, flags, index=None):
        """polynomial of definition `key`; flags: dict flag name -> 0/1 (e.g. {'fXjoin': 1}); unknown f-flags are 0"""
        defs = self.defs

        def var(name, idx, primed):
            if name == "alpha":
                return Poly.var("alpha%d" % idx)
            if name == "i" and index is not None and idx is None:
                return Poly.const(index)
            if name.startswith("fX") or name in ("fXpush",):
                return Poly.const(flags.get(name + ("'" if primed else ""), 0))
            if name in defs and idx is None:
                return parse(defs[name])
            if name == "dgc":
                return Poly.var("gc") - Poly.var("gc'")
            if name == "op":
                return Poly.var("opcode" + ("'" if primed else ""))
            nm = name + ("" if idx is None else str(idx)) + ("'" if primed else "")
            return Poly.var(nm)

        def parse(txt):
            p = LatexParser(tokenize(txt), var, {"i": index} if index is not None else {})
            v = p.expr()
            if p.peek() is not None:
                raise LatexError("trailing tokens %r in %r" % (p.t[p.i:p.i + 4], txt))
            return v
        if key not in defs:
            raise LatexError("no formula %s in section %s" % (key, self.name))
        return parse(defs[key])

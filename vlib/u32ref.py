"""Reference semantics of the u32 instructions, read from docs/src/user_docs/assembly/u32_operations.md at check time, and a
canonical integer normal form in which the reference and the composed implementation (lowering o operation handlers) are
compared.

Normal form: an integer-valued polynomial over the operand symbols and *atoms* with a fixed meaning
    hi<k>[p]     floor(p / 2^k) for an integer polynomial p >= 0        (so  p mod 2^k = p - 2^k * hi<k>[p])
    quot[x;y]    floor(x / y), y != 0                                  (so  x mod y   = x - y * quot[x;y])
    lt[x;y]      1 if x < y else 0                                      (the borrow of the u32 subtraction x - y)
    iszero[p]    1 if p = 0 else 0
    and[x;y]     bitwise AND of two u32 values (operands sorted);  or = x + y - and,  xor = x + y - 2*and
Atoms are canonical in their polynomial arguments: hi<k>[2^j q] = hi<k-j>[q] (= 2^(j-k) q when j >= k),
hi<k>[r + 2^k s] = s + hi<k>[r] for integer s, hi<k>[p] = 0 when p < 2^k. Both sides are normalised with the same rules, so
equality of the polynomials (after substituting the atom values a path fixes) is equality of the integer functions on the
operand domain. No arithmetic wraps: upper bounds are tracked and anything that could exceed the field modulus raises."""
import re
from .mirsym import Poly, Term, P

M32 = 2 ** 32 - 1


class NormError(Exception):
    pass


def signed(c):
    return c if c <= P // 2 else c - P


class CNorm:
    def __init__(self, var_bounds, felt_terms, concrete=None):
        self.vb = dict(var_bounds)          # variable -> inclusive upper bound (default P - 1)
        self.terms = felt_terms             # felt[...] variable -> machine-integer term
        self.concrete = dict(concrete or {})
        self.fixed = {}                     # atom name -> 0/1 (or int) fixed by the path
        self.ub = {}                        # atom name -> upper bound
        self.nonzero = set()
        self.args = {}                      # atom name -> (kind, argument polynomials)

    # ---- bounds
    def bounds(self, p):
        """(lo, hi) of an integer polynomial from the bounds of its variables (signed coefficients)"""
        lo = hi = 0
        for m, c in p.t.items():
            c = signed(c)
            if not m:
                lo += c
                hi += c
                continue
            mx = 1
            for v, e in m:
                b = self.ub.get(v, self.vb.get(v, P - 1))
                mx *= b ** e
            if c >= 0:
                hi += c * mx
            else:
                lo += c * mx
        return lo, hi

    def atom(self, name, ub):
        self.ub[name] = ub
        if name in self.fixed:
            return Poly.const(self.fixed[name])
        return Poly.var(name)

    # ---- canonical atoms
    def hi(self, k, p):
        """floor(p / 2^k) for p >= 0"""
        if k == 0:
            return p
        cv = p.const_value()
        if cv is not None:
            return Poly.const(signed(cv) >> k)
        lo, hi = self.bounds(p)
        if lo >= 0 and hi < 2 ** k:
            return Poly.const(0)
        # split off the part that is a multiple of 2^k
        s = Poly()
        r = Poly()
        for m, c in p.t.items():
            c = signed(c)
            if c % (2 ** k) == 0:
                s = s + Poly({m: (c >> k) % P})
            else:
                r = r + Poly({m: c % P})
        if not r.t:
            return s
        # common power of two of the remaining coefficients
        j = min(((abs(signed(c)) & -abs(signed(c))).bit_length() - 1) for c in r.t.values())
        j = min(j, k)
        if j:
            r = Poly({m: (signed(c) >> j) % P for m, c in r.t.items()})
        rlo, rhi = self.bounds(r)
        if rlo < 0:
            raise NormError("floor division of a possibly negative value %r" % (r,))
        if rhi < 2 ** (k - j):
            return s
        name = "hi%d[%r]" % (k - j, r)
        return s + self.atom(name, rhi >> (k - j))

    def low(self, k, p):
        return p - self.hi(k, p) * Poly.const(2 ** k)

    def quot(self, x, y):
        cx, cy = x.const_value(), y.const_value()
        if cy == 1:
            return x
        if cx is not None and cy is not None and cy:
            return Poly.const(cx // cy)
        if cy is not None and cy and cy & (cy - 1) == 0:
            return self.hi(cy.bit_length() - 1, x)
        return self.atom("quot[%r;%r]" % (x, y), self.bounds(x)[1])

    def lt(self, x, y):
        cx, cy = x.const_value(), y.const_value()
        if cx is not None and cy is not None:
            return Poly.const(int(cx < cy))
        # x < 2^k  <=>  hi<k>[x] = 0
        if cy is not None and cy and cy & (cy - 1) == 0:
            h = self.hi(cy.bit_length() - 1, x)
            return self.iszero(h)
        xl, xh = self.bounds(x)
        yl, yh = self.bounds(y)
        if xh < yl:
            return Poly.const(1)
        if xl >= yh:
            return Poly.const(0)
        name = "lt[%r;%r]" % (x, y)
        self.args[name] = ("lt", x, y)
        return self.atom(name, 1)

    def iszero(self, p):
        cv = p.const_value()
        if cv is not None:
            return Poly.const(int(cv == 0))
        lo, hi = self.bounds(p)
        # a binary value: iszero(b) = 1 - b
        if lo >= 0 and hi <= 1:
            return Poly.const(1) - p
        return self.atom("iszero[%r]" % (p,), 1)

    def band(self, x, y):
        a, b = sorted([x, y], key=repr)
        ca, cb = a.const_value(), b.const_value()
        if ca is not None and cb is not None:
            return Poly.const(ca & cb)
        for c, o in ((ca, b), (cb, a)):
            if c == 0:
                return Poly.const(0)
            if c == M32 and self.bounds(o)[1] <= M32:
                return o
            if c is not None and (c + 1) & c == 0:
                return self.low((c + 1).bit_length() - 1, o)     # x & (2^k - 1) = x mod 2^k
        return self.atom("and[%r;%r]" % (a, b), min(self.bounds(a)[1], self.bounds(b)[1]))

    # ---- field polynomials whose variables may be felt[...] terms
    def poly(self, p):
        env = {}
        for v in p.vars():
            if v in self.concrete:
                env[v] = self.concrete[v]
            elif v in self.bitw:
                env[v] = self.bitw[v]
            elif v in self.terms:
                env[v] = self.val(self.terms[v])
        return p.subst(env) if env else p

    bitw = {}

    def as_int(self, p):
        q = self.poly(p)
        lo, hi = self.bounds(q)
        if lo < 0 or hi >= P:
            raise NormError("as_int of %r, which may wrap around the modulus (bounds %d..%d)" % (q, lo, hi))
        return q

    def val(self, t):
        """integer polynomial of a machine-integer term"""
        if isinstance(t, bool):
            return Poly.const(int(t))
        if isinstance(t, int):
            return Poly.const(t)
        if isinstance(t, Poly):
            return self.as_int(t)
        if not isinstance(t, Term):
            raise NormError("not an integer term: %r" % (t,))
        a = t.args
        if not a:
            if t.op in self.concrete:
                return Poly.const(self.concrete[t.op])
            return Poly.var(t.op)
        if t.op == "as_int" and len(a) == 1:
            if isinstance(a[0], Poly):
                return self.as_int(a[0])
            return self.val(a[0])
        if t.op in ("as_u64", "as_usize") and len(a) == 1:
            return self.val(a[0])
        if t.op in ("as_u32", "as_u16", "as_u8") and len(a) == 1:
            n = {"as_u32": 32, "as_u16": 16, "as_u8": 8}[t.op]
            inner = a[0]
            if isinstance(inner, Term) and inner.op == "wrapping_sub" and n == 32:
                x, y = self.val(inner.args[0]), self.val(inner.args[1])
                if self.bounds(x)[1] > M32 or self.bounds(y)[1] > M32:
                    raise NormError("wrapping_sub of values not known to be u32")
                return x - y + self.lt(x, y) * Poly.const(2 ** 32)
            return self.low(n, self.val(inner))
        if t.op == ">>" and len(a) == 2 and isinstance(a[1], int):
            inner, sh = a
            if isinstance(inner, Term) and inner.op == "wrapping_sub" and sh == 63:
                x, y = self.val(inner.args[0]), self.val(inner.args[1])
                if self.bounds(x)[1] > M32 or self.bounds(y)[1] > M32:
                    raise NormError("wrapping_sub of values not known to be u32")
                return self.lt(x, y)
            return self.hi(sh, self.val(inner))
        if t.op == "<<" and len(a) == 2:
            x, s = self.val(a[0]), self.val(a[1])
            if s.const_value() is None:
                raise NormError("shift by a symbolic amount %r" % (a[1],))
            return x * Poly.const(2 ** s.const_value())
        if t.op == "&" and len(a) == 2:
            x, y = self.val(a[0]), self.val(a[1])
            cy = y.const_value()
            if cy is not None and (cy + 1) & cy == 0:
                return self.low((cy + 1).bit_length() - 1, x)
            cx = x.const_value()
            if cx is not None and cy is not None:
                return Poly.const(cx & cy)
            raise NormError("bitwise & of %r and %r" % (x, y))
        if t.op == "/" and len(a) == 2:
            return self.quot(self.val(a[0]), self.val(a[1]))
        if t.op in ("+", "*", "-") and len(a) == 2:
            x, y = self.val(a[0]), self.val(a[1])
            r = x + y if t.op == "+" else (x * y if t.op == "*" else x - y)
            lo, hi = self.bounds(r)
            if hi >= P or lo <= -P:
                raise NormError("integer value %r may exceed the modulus" % (r,))
            return r
        raise NormError("integer term %r is outside the normaliser" % (t,))

    def equal(self, got, want, depth=0):
        """got == want on the operand domain; undetermined order atoms are split by cases (trichotomy: x<y excludes y<x, and
        neither means x = y)"""
        d = self.resubst(got - want)
        if d.is_zero():
            return True
        lts = [v for v in sorted(d.vars()) if v in self.args and self.args[v][0] == "lt" and v not in self.fixed]
        if not lts or depth > 4:
            return False
        a = lts[0]
        _, x, y = self.args[a]
        rev = "lt[%r;%r]" % (y, x)
        saved = dict(self.fixed)
        ok = True
        # case x < y
        if self.fixed.get(rev) != 1:
            self.fixed[a] = 1
            self.fixed[rev] = 0
            ok = ok and self.equal(got, want, depth + 1)
            self.fixed = dict(saved)
        # case x >= y: either y < x, or x = y
        if ok:
            self.fixed[a] = 0
            if self.fixed.get(rev) in (None, 1):
                self.fixed[rev] = 1
                ok = ok and self.equal(got, want, depth + 1)
                self.fixed = dict(saved)
                self.fixed[a] = 0
            if ok and saved.get(rev) in (None, 0):
                self.fixed[rev] = 0
                e = self.resubst(got - want)
                # x = y: substitute a variable
                dxy = x - y
                vs = [v for v in sorted(dxy.vars()) if dxy.degree_in(v) == 1 and signed(dxy.coeff_of(v).const_value() or 0) in (1, -1)]
                if vs:
                    v = vs[0]
                    c = signed(dxy.coeff_of(v).const_value())
                    rest = dxy.without(v)
                    sol = rest.scale(-1) if c == 1 else rest      # v = -rest / c
                    e = self.resubst(e.subst({v: sol}))
                    ok = ok and (e.is_zero() or self.equal(e, Poly(), depth + 1))
                else:
                    ok = False
            self.fixed = dict(saved)
        return ok

    def resubst(self, p):
        """apply the atom values fixed so far"""
        env = {v: self.fixed[v] for v in p.vars() if v in self.fixed}
        return p.subst(env) if env else p


# ---- reference semantics from the documentation ---------------------------------------------------------------------

class RefError(Exception):
    pass


def tokenize(s):
    s = s.replace("\\ ", " ").replace("\\;", " ").replace("\\,", " ")
    toks = re.findall(r"\\[A-Za-z]+|[A-Za-z]_[A-Za-z0-9]|[A-Za-z]\d'?|[A-Za-z]|\d+|\^|\{|\}|\(|\)|\+|-|/|<|>|=|,|&|\\\\|\S", s)
    return toks


class ExprParser:
    """integer expressions of the Notes column: + - \\cdot / ^ 2^{32} \\mod \\lfloor \\rfloor ( )"""
    def __init__(self, toks, N, env):
        self.t, self.i, self.N, self.env = toks, 0, N, env

    def peek(self):
        return self.t[self.i] if self.i < len(self.t) else None

    def take(self, x=None):
        v = self.peek()
        if x is not None and v != x:
            raise RefError("expected %r, found %r in %s" % (x, v, " ".join(self.t)))
        self.i += 1
        return v

    def expr(self):
        v = self.sum()
        while self.peek() == "\\mod":
            self.take()
            m = self.sum()
            v = self.mod(v, m)
        return v

    def mod(self, v, m):
        N = self.N
        cm = m.const_value()
        if cm is not None and cm & (cm - 1) == 0:
            k = cm.bit_length() - 1
            lo, hi = N.bounds(v)
            if lo < 0:
                # (x - y) mod 2^32 for u32 x, y
                pos = Poly({mm: c for mm, c in v.t.items() if signed(c) > 0})
                neg = Poly({mm: (-signed(c)) % P for mm, c in v.t.items() if signed(c) < 0})
                if k == 32 and N.bounds(pos)[1] <= M32 and N.bounds(neg)[1] <= M32:
                    return pos - neg + N.lt(pos, neg) * Poly.const(2 ** 32)
                raise RefError("mod of a possibly negative value")
            return N.low(k, v)
        return v - m * N.quot(v, m)

    def sum(self):
        v = self.prod()
        while self.peek() in ("+", "-"):
            op = self.take()
            w = self.prod()
            v = v + w if op == "+" else v - w
        return v

    def prod(self):
        v = self.power()
        while self.peek() in ("\\cdot", "/", "\\times", "*"):
            op = self.take()
            w = self.power()
            if op == "/":
                v = ("div", v, w)
            else:
                v = v * w
        return v

    def power(self):
        b = self.atom()
        if self.peek() == "^":
            self.take()
            if self.peek() == "{":
                self.take()
                e = self.expr()
                self.take("}")
            else:
                e = self.atom()
            cb, ce = b.const_value(), e.const_value()
            if cb is None or ce is None:
                raise RefError("power with a symbolic base or exponent")
            return Poly.const(cb ** ce)
        return b

    def atom(self):
        t = self.take()
        if t == "(":
            v = self.expr()
            self.take(")")
            return v
        if t == "{":
            v = self.expr()
            self.take("}")
            return v
        if t == "-":
            return Poly() - self.power()
        if t == "\\lfloor":
            v = self.expr_div()
            self.take("\\rfloor")
            return v
        if t is not None and re.match(r"^\d+$", t):
            return Poly.const(int(t))
        if t is not None and re.match(r"^[a-z](_[a-z0-9]|\d'?)?$", t):
            if t not in self.env:
                raise RefError("unknown name %s" % t)
            return self.env[t]
        raise RefError("unexpected token %r in %s" % (t, " ".join(self.t)))

    def expr_div(self):
        """contents of a floor bracket: a quotient"""
        v = self.sum_div()
        return v

    def sum_div(self):
        v = self.prod()
        if isinstance(v, tuple):
            _, x, y = v
            return self.N.quot(x, y)
        return v


def parse_expr(txt, N, env, floor=False):
    toks = tokenize(txt)
    # strip an enclosing { } pair of \lfloor{ ... }\rfloor
    p = ExprParser(toks, N, env)
    v = p.expr_div() if floor else p.expr()
    if isinstance(v, tuple):
        raise RefError("division outside a floor bracket: %s" % txt)
    if p.i != len(toks):
        raise RefError("trailing tokens in %s" % txt)
    return v


def parse_cond(txt, N, env):
    """a < b, a \\le b, a > b, a \\ge b, a = b -> 0/1 polynomial"""
    m = re.match(r"^(.*?)(\\le|\\ge|\\leq|\\geq|<|>|=)(.*)$", txt)
    if not m:
        raise RefError("condition %r" % txt)
    x, y = parse_expr(m.group(1), N, env), parse_expr(m.group(3), N, env)
    op = m.group(2)
    one = Poly.const(1)
    if op == "<":
        return N.lt(x, y)
    if op == ">":
        return N.lt(y, x)
    if op in ("\\le", "\\leq"):
        return one - N.lt(y, x)
    if op in ("\\ge", "\\geq"):
        return one - N.lt(x, y)
    return N.iszero(x - y)


def reference_outputs(notes, N, env):
    """name -> integer polynomial for every `x \\leftarrow ...` formula of a Notes cell; textual definitions (bitwise AND/OR/
    XOR/NOT, rotations) are mapped by keyword. Returns (outputs, undecided list)."""
    out = {}
    und = []
    for m in re.finditer(r"\$([^$]*)\$", notes):
        txt = m.group(1).strip()
        mm = re.match(r"^([a-z])\s*\\leftarrow\s*(.*)$", txt, re.S)
        if not mm:
            continue
        name, rhs = mm.group(1), mm.group(2).strip()
        cm = re.match(r"^\\begin\{cases\}(.*)\\end\{cases\}$", rhs, re.S)
        try:
            if cm:
                arms = [a.strip() for a in cm.group(1).split("\\\\") if a.strip()]
                if len(arms) != 2:
                    raise RefError("cases with %d arms" % len(arms))
                a1 = re.match(r"^(.*?),\s*&\s*\\text\{if\}\\?\s*(.*)$", arms[0], re.S)
                a2 = re.match(r"^(.*?),\s*&\s*\\text\{otherwise\}\\?\s*$", arms[1], re.S)
                if not a1 or not a2:
                    raise RefError("cases arms %r" % (arms,))
                ctxt = a1.group(2).strip()
                fa = re.match(r"^\\forall\\?\s*i\s*\\in\s*\\\{0,\s*1,\s*2,\s*3\\\}\\?\s*(.*)$", ctxt)
                if fa:
                    c = Poly.const(1)
                    for i in range(4):
                        c = c * parse_cond(fa.group(1).replace("_i", "_%d" % i), N, env)
                else:
                    c = parse_cond(ctxt, N, env)
                v1, v2 = parse_expr(a1.group(1), N, env), parse_expr(a2.group(1), N, env)
                out[name] = c * v1 + (Poly.const(1) - c) * v2
            else:
                out[name] = parse_expr(rhs, N, env)
        except (RefError, NormError) as e:
            und.append("%s: %s" % (name, e))
    return out, und


def textual_reference(notes, N, env, shift=None):
    """definitions given in words"""
    a, b = env.get("a"), env.get("b")
    m = re.search(r"Computes \$([a-z])\$ (?:as a|by) (.*?)\.", notes)
    if not m:
        return {}
    name, what = m.group(1), m.group(2)
    if "bitwise `AND`" in what:
        return {name: N.band(a, b)}
    if "bitwise `OR`" in what:
        return {name: a + b - N.band(a, b)}
    if "bitwise `XOR`" in what:
        return {name: a + b - N.band(a, b) * Poly.const(2)}
    if "bitwise `NOT`" in what:
        return {name: Poly.const(M32) - a}
    if "rotating" in what and shift is not None:
        if "to the left" in what:
            x = a * Poly.const(2 ** shift)
            return {name: N.low(32, x) + N.hi(32, x)}
        if "to the right" in what:
            return {name: N.hi(shift, a) + N.low(shift, a) * Poly.const(2 ** (32 - shift))}
    return {}

"""C09 — prover-supplied hints cannot change results. Decided parts:
R1  every lowering that pops advice after an injector (u32clz/ctz/clo/cto, ilog2, ext2inv, ext2div): each advice-born value
    flows, on every successful path, into a failing check (Assert / U32assert2 / MpVerify ...) whose checked value also
    depends on the instruction's operand (dependency analysis over the lowered operation sequence, with per-operation
    summaries extracted from the handlers); for ext2inv / ext2div the successful path's conditions are decided exactly:
    they state hint * operand = 1 (resp. = numerator) in the extension field, which has a unique solution
R2  the 64-bit division routines: the assertions imply a = q*b + r and r < b (decided in vlib/rules_c16.decide_div)
R3  Merkle reads/updates: op_mpverify / op_mrupdate compare the root computed from the host-supplied path with the root on
    the stack and fail before any stack write; mtree_get/set/verify lower to MPVERIFY / MRUPDATE after their injector
R4  adv_push.n pops n values one at a time (1 <= n <= 16), adv_loadw one word onto positions 3..0, adv_pipe = PIPE"""
import re
from .mirutil import *
from .mirsym import Poly, Term, path_feasible
from . import rules_c05, rules_c16, procmodel, opmodel, lowering
from .masm import Module, Exec, ZP, Undecided

LEVEL = "other"
HINTED = ["U32Clz", "U32Ctz", "U32Clo", "U32Cto", "ILog2", "Ext2Inv", "Ext2Div"]
CHECK_OPS = {"Assert", "U32assert2", "MpVerify", "MrUpdate", "U32div", "Eqz"}
_SUM = {}


def op_name(o):
    """('?', ("('AdvPop', ())",)) style records of the lowering extractor -> (name, args)"""
    if isinstance(o, tuple) and len(o) == 2 and isinstance(o[1], tuple) and o[1] and isinstance(o[1][0], str):
        m = re.match(r"^\('(\w+)', \((.*)\)\)$", o[1][0])
        if m:
            return m.group(1), m.group(2)
    if isinstance(o, tuple) and isinstance(o[0], str):
        return o[0], ""
    return str(o), ""


def summary(F, name):
    """per-operation dependency summary from the handler model: for every successful path, next-row cell i is either a pure
    move of current cell j, or computed from the set of cells the handler read; plus whether the operation can fail on its inputs"""
    if name in _SUM:
        return _SUM[name]
    rs = procmodel.run_operation(F, name)
    oks = [r for r in rs if r.outcome == "ok"]
    fails = [r for r in rs if isinstance(r.outcome, tuple) and r.outcome[0] == "err"]
    moves = None
    reads = set()
    fresh_src = False
    for r in oks:
        mv = {}
        for i, x in enumerate(r.nxt):
            if isinstance(x, Poly):
                vs = sorted(x.vars())
                if len(vs) == 1 and x == Poly.var(vs[0]) and re.match(r"^s\d+$", vs[0]):
                    mv[i] = ("move", int(vs[0][1:]))
                    continue
                if x.const_value() is not None:
                    mv[i] = ("const", x.const_value())
                    continue
                if any(v.startswith("adv#") for v in vs):
                    mv[i] = ("advice",)
                    continue
            mv[i] = ("computed",)
        reads |= set(r.reads)
        if moves is None:
            moves = mv
        else:
            for i in mv:
                if moves.get(i) != mv[i]:
                    moves[i] = ("computed",)
    out = {"moves": moves, "reads": reads, "can_fail": bool(fails), "analysed": bool(oks),
           "shift": oks[0].shift[0] if oks and oks[0].shift else None}
    _SUM[name] = out
    return out


def taint_run(F, ops):
    """propagate dependency sets through an operation sequence; returns (final taints, checks) where checks is a list of
    (op index, op name, set of sources the failing condition depends on)"""
    st = [frozenset(["op%d" % i]) for i in range(16)]       # operand cells
    deep = []
    checks = []
    nadv = 0
    for idx, o in enumerate(ops):
        name, args = op_name(o)
        sm = summary(F, name)
        if not sm["analysed"] or sm["moves"] is None:
            # operations the handler model cannot run symbolically (none expected here)
            raise Undecided("no dependency summary for %s" % name)
        rd = frozenset().union(*[st[k] for k in sm["reads"]]) if sm["reads"] else frozenset()
        if sm["can_fail"] or name in CHECK_OPS:
            checks.append((idx, name, rd))
        new = []
        for i in range(16):
            mv = sm["moves"][i]
            if mv[0] == "move":
                new.append(st[mv[1]])
            elif mv[0] == "const":
                new.append(frozenset())      # the same constant on every successful path
            elif mv[0] == "advice":
                nadv += 1
                new.append(frozenset(["hint%d" % nadv]))
            else:
                new.append(rd)
        # cells entering from / leaving to the overflow table
        sh = sm["shift"]
        if sh and sh[0] == "right":
            deep.insert(0, st[15])
        elif sh and sh[0] == "left":
            new[15] = deep.pop(0) if deep else frozenset(["deep"])
        st = new
    return st, checks, nadv


def r1_lowered_hints(ctx, F):
    C = rules_c05.Composer(F)
    ctx.floor("hinted-instructions", len([n for n in HINTED if n in C.L]), 7)
    for n in HINTED:
        paths = [lp for lp in C.L[n].paths if lp["outcome"] == "ok" and path_feasible(lp["guards"])]
        ctx.inst(key=n, nontrivial=True)
        if not paths:
            ctx.violation("UNANALYSABLE|%s" % n, "assembly/src/assembler/instruction", "no lowering path for %s" % n)
            continue
        for pi, lp in enumerate(paths):
            ops = lp["ops"]
            names = [op_name(o)[0] for o in ops]
            inj = [d for d in lp.get("decorators", [])] if isinstance(lp, dict) else []
            try:
                final, checks, nadv = taint_run(F, ops)
            except Undecided as e:
                ctx.violation("UNANALYSABLE|%s" % n, "assembly/src/assembler/instruction", str(e)[:200])
                continue
            if nadv == 0:
                ctx.violation("no-hint|%s" % n, "assembly/src/assembler/instruction", "%s is documented as hint-assisted but its lowering pops no advice" % n)
                continue
            for h in range(1, nadv + 1):
                hs = "hint%d" % h
                tied = [c for c in checks if c[1] in ("Assert", "MpVerify", "MrUpdate") and hs in c[2] and any(x.startswith("op") for x in c[2])]
                alone = [c for c in checks if hs in c[2]]
                ok = bool(tied)
                ctx.oblig(ok)
                if not ok:
                    ctx.violation("hint-unchecked|%s|%s" % (n, hs), "assembly/src/assembler/instruction",
                                  "%s: advice value %d is %s: a dishonest host can choose it freely (operations %s)"
                                  % (n, h, "only range-checked, never compared with anything that depends on the operand" if alone else "never checked", names[:40]))
            # the result cells must not be hint-only: each result either depends on the operand or is a hint tied above
            if len(ctx.samples) < 6:
                ctx.sample({"instruction": n, "operations": len(ops), "advice_values": nadv, "checks": [(c[1], sorted(c[2])) for c in checks][:8]})
    # exact decision for the extension-field inverses: successful path conditions say hint * operand = target
    for n, target in (("Ext2Inv", "one"), ("Ext2Div", "numerator")):
        ctx.inst(key=n + "|exact", nontrivial=True)
        found = False
        for lp, rs in C.results(n):
            if not isinstance(rs, list):
                continue
            for r in rs:
                if r["outcome"] != ("ok",) and r["outcome"] != "ok":
                    continue
                found = True
                conds = []
                for c, v, l in r["guards"]:
                    if isinstance(c, Term) and c.op in ("eq", "ne") and isinstance(c.args[0], Poly):
                        truth = (v == ("not", [0])) if isinstance(v, tuple) else bool(v)
                        is_eq = (c.op == "eq") == truth
                        conds.append((c.args[0] - c.args[1], is_eq))
                eqs = [p for p, e in conds if e]
                # expected: with hint (x0, x1) = (adv second popped, adv first popped) and operand (a0, a1): the product in F_p[x]/(x^2 - x + 2) equals the target
                ok = len(eqs) == 2 and all(any(v.startswith("adv#") for v in p.vars()) and any(re.match(r"^e\d+$", v) for v in p.vars()) for p in eqs) and ext2_product_equations(eqs, n)
                ctx.oblig(ok)
                if not ok:
                    ctx.violation("ext2-check|%s" % n, "assembly/src/assembler/instruction/ext2_ops.rs", "%s succeeds under conditions %s, which do not state hint * operand = %s in the quadratic extension" % (n, [(str(p), e) for p, e in conds], target))
        if not found:
            ctx.violation("UNANALYSABLE|%s|exact" % n, "assembly/src/assembler/instruction/ext2_ops.rs", "no successful composed path")


def ext2_product_equations(eqs, n):
    """the two asserted equations are the two coordinates of (h0 + h1 x)(a0 + a1 x) - target with x^2 = x - 2 (irreducible over the
    field used by miden: x^2 - x + 2): c0 = h0 a0 - 2 h1 a1, c1 = h0 a1 + h1 a0 + h1 a1"""
    # identify variables: two advice symbols and the operand symbols
    advs = sorted({v for p in eqs for v in p.vars() if v.startswith("adv#")})
    es = sorted({v for p in eqs for v in p.vars() if re.match(r"^e\d+$", v)}, key=lambda s: int(s[1:]))
    if len(advs) != 2:
        return False
    for h0, h1 in (advs, advs[::-1]):
        for a0, a1 in ((es[0], es[1]), (es[1], es[0])) if len(es) >= 2 else []:
            H0, H1, A0, A1 = Poly.var(h0), Poly.var(h1), Poly.var(a0), Poly.var(a1)
            c0 = H0 * A0 - H1 * A1 * Poly.const(2)
            c1 = H0 * A1 + H1 * A0 + H1 * A1
            rest = [v for v in es if v not in (a0, a1)]
            cand = [(c0 - Poly.const(1), c1 - Poly.const(0))]      # hint is the inverse of the operand (ext2div multiplies the verified inverse afterwards)
            if n != "Ext2Inv":
                for n0, n1 in ((rest[0], rest[1]), (rest[1], rest[0])) if len(rest) >= 2 else []:
                    cand.append((c0 - Poly.var(n0), c1 - Poly.var(n1)))
            for g0, g1 in cand:
                S = {repr(g0), repr(-g0)}, {repr(g1), repr(-g1)}
                reps = [repr(p) for p in eqs]
                if (reps[0] in S[0] and reps[1] in S[1]) or (reps[0] in S[1] and reps[1] in S[0]):
                    return True
    return False


def r2_division(ctx, F):
    M = Module(rules_c16.U64)
    X = Exec(M, rules_c05.family_expected)
    ins = ["b_hi", "b_lo", "a_hi", "a_lo"]
    env = {n: ZP.var(n) for n in ins}
    A = rules_c16.value_of(["a_hi", "a_lo"], env)
    B = rules_c16.value_of(["b_hi", "b_lo"], env)
    for name in ("div", "mod", "divmod"):
        p = M.procs[name]
        loc = "stdlib/asm/math/u64.masm:%d" % p.line
        ctx.inst(key="u64::" + name, nontrivial=True)
        d = rules_c16.parse_doc(p.doc)
        try:
            finals = X.run_proc(name, rules_c16.limb_inputs(ins))
        except Undecided as e:
            ctx.violation("UNANALYSABLE|u64::%s" % name, loc, str(e)[:300])
            continue
        st = finals[0]
        gi = rules_c16.group(ins)
        ok, why = rules_c16.decide_div(name, d[2], st.stack[:len(d[1])], st, env, A, B, gi, rules_c16.group(d[1]))
        ctx.oblig(ok)
        ctx.sample({"procedure": "u64::" + name, "advice_values": st.adv, "range_checked": [a for a in st.adv if st.ranges.get(a, 2**64) < 2**32], "assertions": len(st.eqs), "verdict": "hints determined: a = q*b + r and r < b" if ok else why})
        if not ok:
            ctx.violation("division-hint|u64::%s" % name, loc, "u64::%s: the checks on the advice-supplied quotient/remainder do not pin them down: %s" % (name, why))


def r3_merkle(ctx, F):
    for fname, builder, root_fn in (("op_mpverify", r"Chiplets::build_merkle_root$", None), ("op_mrupdate", r"Chiplets::update_merkle_root$", r"MerkleRootUpdate::get_old_root$")):
        fn = F.fn(r"^miden_processor::operations::crypto_ops::Process::%s$" % fname)
        ctx.inst(key=fname, nontrivial=True)
        b = fn.calls_to(builder)
        errs = set(err_blocks(fn)) | set(panic_blocks(fn))       # a panic (assert_eq! in op_mrupdate) also means "does not complete"
        writes = fn.calls_to(r"Stack::(set|copy_state|shift_left|shift_right)$")
        cmps = [c for c in cmp_branches(fn)]
        # a comparison whose one side comes from the computed root and whose failing side returns MerklePathVerificationFailed before any stack write
        good = False
        for c in cmps:
            srcs = set()
            for side in ("a", "b"):
                o = c.get(side)
                if o and "l" in o:
                    sl = fn.backward_slice(o["l"])
                    srcs |= {cc for bb, cc, tt in sl["calls"]}
            from_root = any(re.search(builder, s) or (root_fn and re.search(root_fn, s)) for s in srcs)
            from_stack = any(re.search(r"Stack::get$|Stack::get_word$|get_stack_word$", s) for s in srcs)
            if not (from_root and from_stack):
                continue
            for tgt in (c.get("true"), c.get("false")):
                if tgt is None:
                    continue
                reach = fn.reachable_blocks(tgt)
                if reach & errs and not any(w[0] in reach for w in writes):
                    good = True
        ok = len(b) == 1 and good and all(any(fn.dominates(cb["block"], w[0]) for cb in cmps) for w in writes)
        ctx.oblig(ok)
        if not ok:
            ctx.violation("merkle-check|%s" % fname, fn.loc(), "%s must compare the root computed from the host-supplied path with the root on the stack and fail (MerklePathVerificationFailed) before any stack write" % fname)
    C = rules_c05.Composer(F)
    for n, need in (("MTreeGet", "MpVerify"), ("MTreeVerify", "MpVerify"), ("MTreeSet", "MrUpdate")):
        ctx.inst(key=n, nontrivial=True)
        paths = [lp for lp in C.L[n].paths if lp["outcome"] == "ok"]
        ok = bool(paths) and all(need in [op_name(o)[0] for o in lp["ops"]] for lp in paths)
        if ok and n == "MTreeGet":
            # the value returned is the advice word that was verified: MpVerify's node argument is the popped word
            for lp, rs in C.results(n):
                if isinstance(rs, list):
                    for r in rs:
                        if r["outcome"] in (("ok",), "ok"):
                            mp = [e for e in r["effects"] if e[0] == "mpverify"]
                            top = [str(x) for x in r["stack"][:4]]
                            ok = ok and len(mp) == 1 and sorted(str(x) for x in mp[0][1][0].items) == sorted(top)
        ctx.oblig(ok)
        if not ok:
            ctx.violation("merkle-lowering|%s" % n, "assembly/src/assembler/instruction/crypto_ops.rs", "%s must verify the host-supplied value with %s" % (n, need))


def r4_pops(ctx, F):
    C = rules_c05.Composer(F)
    ctx.inst(key="AdvPush", nontrivial=True)
    lp = [p for p in C.L["AdvPush"].paths if p["outcome"] == "ok"]
    ok = bool(lp) and all(len(p["ops"]) == 1 and "*many" in str(p["ops"][0]) and "AdvPop" in str(p["ops"][0]) and "imm_u8" in str(p["ops"][0]) for p in lp)
    ctx.oblig(ok)
    if not ok:
        ctx.violation("adv-push-lowering", "assembly/src/assembler/instruction/adv_ops.rs", "adv_push.n must lower to n AdvPop operations: %s" % [p["ops"] for p in lp][:2])
    rej = [p for p in C.L["AdvPush"].paths if p["outcome"] != "ok"]
    ctx.oblig(bool(rej))
    if not rej:
        ctx.violation("adv-push-range", "assembly/src/assembler/instruction/adv_ops.rs", "adv_push.n has no rejecting path for n outside 1..16")
    # AdvPop pushes the popped value on top; AdvPopW overwrites positions 3..0 with word[0..3] reversed (documented order)
    rs = [r for r in procmodel.run_operation(F, "AdvPop") if r.outcome == "ok"]
    ctx.inst(key="AdvPop", nontrivial=True)
    ok = bool(rs) and all(str(r.nxt[0]).startswith("adv#") and str(r.nxt[1]) == "s0" for r in rs)
    ctx.oblig(ok)
    if not ok:
        ctx.violation("advpop", "processor/src/operations/io_ops.rs", "AdvPop must push the popped advice value: %s" % [str(x) for x in rs[0].nxt[:3]] if rs else "no path")
    rs = [r for r in procmodel.run_operation(F, "AdvPopW") if r.outcome == "ok"]
    ctx.inst(key="AdvPopW", nontrivial=True)
    ok = bool(rs) and all([str(x) for x in r.nxt[:5]] == ["adv#4", "adv#3", "adv#2", "adv#1", "s4"] for r in rs)
    ctx.oblig(ok)
    if not ok:
        ctx.violation("advpopw", "processor/src/operations/io_ops.rs", "AdvPopW must place word[3..0] on positions 0..3: %s" % ([str(x) for x in rs[0].nxt[:5]] if rs else "no path"))
    lpw = [p for p in C.L["AdvLoadW"].paths if p["outcome"] == "ok"]
    ok = bool(lpw) and all([op_name(o)[0] for o in p["ops"]] == ["AdvPopW"] for p in lpw)
    ctx.oblig(ok)
    if not ok:
        ctx.violation("adv-loadw-lowering", "assembly/src/assembler/instruction/adv_ops.rs", "adv_loadw must lower to AdvPopW")
    lpp = [p for p in C.L["AdvPipe"].paths if p["outcome"] == "ok"]
    ok = bool(lpp) and all([op_name(o)[0] for o in p["ops"]] == ["Pipe"] for p in lpp)
    ctx.oblig(ok)
    if not ok:
        ctx.violation("adv-pipe-lowering", "assembly/src/assembler/instruction/adv_ops.rs", "adv_pipe must lower to Pipe")
    # Pipe puts the two words in the same element order as MStream
    a = [r for r in procmodel.run_operation(F, "Pipe") if r.outcome == "ok"]
    b = [r for r in procmodel.run_operation(F, "MStream") if r.outcome == "ok"]
    ctx.inst(key="Pipe-order", nontrivial=True)
    num = lambda xs: [int(re.search(r"#(\d+)", str(x)).group(1)) for x in xs]
    ok = bool(a) and bool(b) and num(a[0].nxt[:8]) == num(b[0].nxt[:8])
    ctx.oblig(ok)
    if not ok:
        ctx.violation("pipe-order", "processor/src/operations/io_ops.rs", "op_pipe places the advice words in a different element order than op_mstream places memory words")


def run(ctx, F):
    ctx.trusted += ["rustc MIR via mirfacts", "lowering extractor and operation model (per-operation dependency summaries)", "vlib/masm.py integer model for the stdlib division routines",
                    "field facts: inverses in F_p[x]/(x^2 - x + 2) are unique; a = q*b + r with 0 <= r < b determines q, r"]
    ctx.assumptions += ["for u32clz/ctz/clo/cto and ilog2 only the necessary condition is decided (each hint reaches a failing check together with the operand), not that the check is mathematically sufficient",
                        "host implementations are not analysed: the rules quantify over every value a host may return"]
    ctx.run_rule("C09-R1", "every advice value of a hint-assisted instruction reaches a failing check that also depends on the operand; ext2inv/ext2div checks state hint * operand = target exactly", r1_lowered_hints, F)
    ctx.run_rule("C09-R2", "u64 div/mod/divmod: the assertions imply a = q*b + r and r < b, and all advice limbs are range-checked", r2_division, F)
    ctx.run_rule("C09-R3", "op_mpverify / op_mrupdate compare the computed root with the stack's root and fail before writing; mtree_* lowerings contain the verifying operation", r3_merkle, F)
    ctx.run_rule("C09-R4", "advice pops: adv_push.n = n AdvPop (1..16), adv_loadw = AdvPopW with the documented element order, adv_pipe = Pipe with MStream's order", r4_pops, F)

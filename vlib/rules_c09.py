"""C09 — prover-supplied hints cannot change results. Decided parts:
R1  every lowering that pops advice after an injector (u32clz/ctz/clo/cto, ilog2, ext2inv, ext2div): each advice-born value
    flows, on every successful path, into a failing check (Assert / U32assert2 / MpVerify ...) whose checked value also
    depends on the instruction's operand (dependency analysis over the lowered operation sequence, with per-operation
    summaries extracted from the handlers); for ext2inv / ext2div the successful path's conditions are decided exactly:
    they state hint * operand = 1 (resp. = numerator) in the extension field, which has a unique solution
R2  the 64-bit division routines: the assertions imply a = q*b + r and r < b (decided in vlib/rules_c16.decide_div)
R3  Merkle reads/updates: op_mpverify / op_mrupdate compare the root computed from the host-supplied path with the root on
    the stack and fail before any stack write; mtree_get/set/verify lower to MPVERIFY / MRUPDATE after their injector
R4  adv_push.n pops n values one at a time (1 <= n <= 16), adv_loadw one word onto positions 3..0, adv_pipe = PIPE"""
import re
from .mirutil import *
from .mirsym import Poly, Term, path_feasible
from . import rules_c05, rules_c16, procmodel, opmodel, lowering
from .masm import Module, Exec, ZP, Undecided

LEVEL = "other"
HINTED = ["U32Clz", "U32Ctz", "U32Clo", "U32Cto", "ILog2", "Ext2Inv", "Ext2Div"]
CHECK_OPS = {"Assert", "U32assert2", "MpVerify", "MrUpdate", "U32div", "Eqz"}
_SUM = {}


def op_name(o):
    """('?', ("('AdvPop', ())",)) style records of the lowering extractor -> (name, args)"""
    if isinstance(o, tuple) and len(o) == 2 and isinstance(o[1], tuple) and o[1] and isinstance(o[1][0], str):
        m = re.match(r"^\('(\w+)', \((.*)\)\)$", o[1][0])
        if m:
            return m.group(1), m.group(2)
    if isinstance(o, tuple) and isinstance(o[0], str):
        return o[0], ""
    return str(o), ""


def summary(F, name):
    """per-operation dependency summary from the handler model: for every successful path, next-row cell i is either a pure
    move of current cell j, or computed from the set of cells the handler read; plus whether the operation can fail on its inputs"""
    if name in _SUM:
        return _SUM[name]
    rs = procmodel.run_operation(F, name)
    oks = [r for r in rs if r.outcome == "ok"]
    fails = [r for r in rs if isinstance(r.outcome, tuple) and r.outcome[0] == "err"]
    moves = None
    reads = set()
    fresh_src = False
    for r in oks:
        mv = {}
        for i, x in enumerate(r.nxt):
            if isinstance(x, Poly):
                vs = sorted(x.vars())
                if len(vs) == 1 and x == Poly.var(vs[0]) and re.match(r"^s\d+$", vs[0]):
                    mv[i] = ("move", int(vs[0][1:]))
                    continue
                if x.const_value() is not None:
                    mv[i] = ("const", x.const_value())
                    continue
                if any(v.startswith("adv#") for v in vs):
                    mv[i] = ("advice",)
                    continue
            mv[i] = ("computed",)
        reads |= set(r.reads)
        if moves is None:
            moves = mv
        else:
            for i in mv:
                if moves.get(i) != mv[i]:
                    moves[i] = ("computed",)
    out = {"moves": moves, "reads": reads, "can_fail": bool(fails), "analysed": bool(oks),
           "shift": oks[0].shift[0] if oks and oks[0].shift else None}
    _SUM[name] = out
    return out


def taint_run(F, ops):
    """propagate dependency sets through an operation sequence; returns (final taints, checks) where checks is a list of
    (op index, op name, set of sources the failing condition depends on)"""
    st = [frozenset(["op%d" % i]) for i in range(16)]       # operand cells
    deep = []
    checks = []
    nadv = 0
    for idx, o in enumerate(ops):
        name, args = op_name(o)
        sm = summary(F, name)
        if not sm["analysed"] or sm["moves"] is None:
            # operations the handler model cannot run symbolically (none expected here)
            raise Undecided("no dependency summary for %s" % name)
        rd = frozenset().union(*[st[k] for k in sm["reads"]]) if sm["reads"] else frozenset()
        if sm["can_fail"] or name in CHECK_OPS:
            checks.append((idx, name, rd))
        new = []
        for i in range(16):
            mv = sm["moves"][i]
            if mv[0] == "move":
                new.append(st[mv[1]])
            elif mv[0] == "const":
                new.append(frozenset())      # the same constant on every successful path
            elif mv[0] == "advice":
                nadv += 1
                new.append(frozenset(["hint%d" % nadv]))
            else:
                new.append(rd)
        # cells entering from / leaving to the overflow table
        sh = sm["shift"]
        if sh and sh[0] == "right":
            deep.insert(0, st[15])
        elif sh and sh[0] == "left":
            new[15] = deep.pop(0) if deep else frozenset(["deep"])
        st = new
    return st, checks, nadv


def r1_lowered_hints(ctx, F):
    C = rules_c05.Composer(F)
    ctx.floor("hinted-instructions", len([n for n in HINTED if n in C.L]), 7)
    for n in HINTED:
        paths = [lp for lp in C.L[n].paths if lp["outcome"] == "ok" and path_feasible(lp["guards"])]
        ctx.inst(key=n, nontrivial=True)
        if not paths:
            ctx.violation("UNANALYSABLE|%s" % n, "assembly/src/assembler/instruction", "no lowering path for %s" % n)
            continue
        for pi, lp in enumerate(paths):
            ops = lp["ops"]
            names = [op_name(o)[0] for o in ops]
            inj = [d for d in lp.get("decorators", [])] if isinstance(lp, dict) else []
            try:
                final, checks, nadv = taint_run(F, ops)
            except Undecided as e:
                ctx.violation("UNANALYSABLE|%s" % n, "assembly/src/assembler/instruction", str(e)[:200])
                continue
            if nadv == 0:
                ctx.violation("no-hint|%s" % n, "assembly/src/assembler/instruction", "%s is documented as hint-assisted but its lowering pops no advice" % n)
                continue
            for h in range(1, nadv + 1):
                hs = "hint%d" % h
                tied = [c for c in checks if c[1] in ("Assert", "MpVerify", "MrUpdate") and hs in c[2] and any(x.startswith("op") for x in c[2])]
                alone = [c for c in checks if hs in c[2]]
                ok = bool(tied)
                ctx.oblig(ok)
                if not ok:
                    ctx.violation("hint-unchecked|%s|%s" % (n, hs), "assembly/src/assembler/instruction",
                                  "%s: advice value %d is %s: a dishonest host can choose it freely (operations %s)"
                                  % (n, h, "only range-checked, never compared with anything that depends on the operand" if alone else "never checked", names[:40]))
            # the result cells must not be hint-only: each result either depends on the operand or is a hint tied above
            if len(ctx.samples) < 6:
                ctx.sample({"instruction": n, "operations": len(ops), "advice_values": nadv, "checks": [(c[1], sorted(c[2])) for c in checks][:8]})
    # exact decision for the extension-field inverses: successful path conditions say hint * operand = target
    for n, target in (("Ext2Inv", "one"), ("Ext2Div", "numerator")):
        ctx.inst(key=n + "|exact", nontrivial=True)
        found = False
        for lp, rs in C.results(n):
            if not isinstance(rs, list):
                continue
            for r in rs:
                if r["outcome"] != ("ok",) and r["outcome"] != "ok":
                    continue
                found = True
                conds = []
                for c, v, l in r["guards"]:
                    if isinstance(c, Term) and c.op in ("eq", "ne") and isinstance(c.args[0], Poly):
                        truth = (v == ("not", [0])) if isinstance(v, tuple) else bool(v)
                        is_eq = (c.op == "eq") == truth
                        conds.append((c.args[0] - c.args[1], is_eq))
                eqs = [p for p, e in conds if e]
                # expected: with hint (x0, x1) = (adv second popped, adv first popped) and operand (a0, a1): the product in F_p[x]/(x^2 - x + 2) equals the target
                ok = len(eqs) == 2 and all(any(v.startswith("adv#") for v in p.vars()) and any(re.match(r"^e\d+$", v) for v in p.vars()) for p in eqs) and ext2_product_equations(eqs, n)
                ctx.oblig(ok)
                if not ok:
                    ctx.violation("ext2-check|%s" % n, "assembly/src/assembler/instruction/ext2_ops.rs", "%s succeeds under conditions %s, which do not state hint * operand = %s in the quadratic extension" % (n, [(str(p), e) for p, e in conds], target))
        if not found:
            ctx.violation("UNANALYSABLE|%s|exact" % n, "assembly/src/assembler/instruction/ext2_ops.rs", "no successful composed path")


def ext2_product_equations(eqs, n):
    """the two asserted equations are the two coordinates of (h0 + h1 x)(a0 + a1 x) - target with x^2 = x - 2 (irreducible over the
    field used by miden: x^2 - x + 2): c0 = h0 a0 - 2 h1 a1, c1 = h0 a1 + h1 a0 + h1 a1"""
    # identify variables: two advice symbols and the operand symbols
    advs = sorted({v for p in eqs for v in p.vars() if v.startswith("adv#")})
    es = sorted({v for p in eqs for v in p.vars() if re.match(r"^e\d+$", v)}, key=lambda s: int(s[1:]))
    if len(advs) != 2:
        return False
    for h0, h1 in (advs, advs[::-1]):
        for a0, a1 in ((es[0], es[1]), (es[1], es[0])) if len(es) >= 2 else []:
            H0, H1, A0, A1 = Poly.var(h0), Poly.var(h1), Poly.var(a0), Poly.var(a1)
            c0 = H0 * A0 - H1 * A1 * Poly.const(2)
            c1 = H0 * A1 + H1 * A0 + H1 * A1
            rest = [v for v in es if v not in (a0, a1)]
            cand = [(c0 - Poly.const(1), c1 - Poly.const(0))]      # hint is the inverse of the operand (ext2div multiplies the verified inverse afterwards)
            if n != "Ext2Inv":
                for n0, n1 in ((rest[0], rest[1]), (rest[1], rest[0])) if len(rest) >= 2 else []:
                    cand.append((c0 - Poly.var(n0), c1 - Poly.var(n1)))
            for g0, g1 in cand:
                S = {repr(g0), repr(-g0)}, {repr(g1), repr(-g1)}
                reps = [repr(p) for p in eqs]
                if (reps[0] in S[0] and reps[1] in S[1]) or (reps[0] in S[1] and reps[1] in S[0]):
                    return True
    return False


def r2_division(ctx, F):
    M = Module(rules_c16.U64)
    X = Exec(M, rules_c05.family_expected)
    ins = ["b_hi", "b_lo", "a_hi", "a_lo"]
    env = {n: ZP.var(n) for n in ins}
    A = rules_c16.value_of(["a_hi", "a_lo"], env)
    B = rules_c16.value_of(["b_hi", "b_lo"], env)
    for name in ("div", "mod", "divmod"):
        p = M.procs[name]
        loc = "stdlib/asm/math/u64.masm:%d" % p.line
        ctx.inst(key="u64::" + name, nontrivial=True)
        d = rules_c16.parse_doc(p.doc)
        try:
            finals = X.run_proc(name, rules_c16.limb_inputs(ins))
        except Undecided as e:
            ctx.violation("UNANALYSABLE|u64::%s" % name, loc, str(e)[:300])
            continue
        st = finals[0]
        gi = rules_c16.group(ins)
        ok, why = rules_c16.decide_div(name, d[2], st.stack[:len(d[1])], st, env, A, B, gi, rules_c16.group(d[1]))
        ctx.oblig(ok)
        ctx.sample({"procedure": "u64::" + name, "advice_values": st.adv, "range_checked": [a for a in st.adv if st.ranges.get(a, 2**64) < 2**32], "assertions": len(st.eqs), "verdict": "hints determined: a = q*b + r and r < b" if ok else why})
        if not ok:
            ctx.violation("division-hint|u64::%s" % name, loc, "u64::%s: the checks on the advice-supplied quotient/remainder do not pin them down: %s" % (name, why))


def r3_merkle(ctx, F):
    for fname, builder, root_fn in (("op_mpverify", r"Chiplets::build_merkle_root$", None), ("op_mrupdate", r"Chiplets::update_merkle_root$", r"MerkleRootUpdate::get_old_root$")):
        fn = F.fn(r"^miden_processor::operations::crypto_ops::Process::%s$" % fname)
        ctx.inst(key=fname, nontrivial=True)
        b = fn.calls_to(builder)
        errs = set(err_blocks(fn)) | set(panic_blocks(fn))       # a panic (assert_eq! in op_mrupdate) also means "does not complete"
        writes = fn.calls_to(r"Stack::(set|copy_state|shift_left|shift_right)$")
        cmps = [c for c in cmp_branches(fn)]
        # a comparison whose one side comes from the computed root and whose failing side returns MerklePathVerificationFailed before any stack write
        good = False
        for c in cmps:
            srcs = set()
            for side in ("a", "b"):
                o = c.get(side)
                if o and "l" in o:
                    sl = fn.backward_slice(o["l"])
                    srcs |= {cc for bb, cc, tt in sl["calls"]}
            from_root = any(re.search(builder, s) or (root_fn and re.search(root_fn, s)) for s in srcs)
            from_stack = any(re.search(r"Stack::get$|Stack::get_word$|get_stack_word$", s) for s in srcs)
            if not (from_root and from_stack):
                continue
            for tgt in (c.get("true"), c.get("false")):
                if tgt is None:
                    continue
                reach = fn.reachable_blocks(tgt)
                if reach & errs and not any(w[0] in reach for w in writes):
                    good = True
        ok = len(b) == 1 and good and all(any(fn.dominates(cb["block"], w[0]) for cb in cmps) for w in writes)
        ctx.oblig(ok)
        if not ok:
            ctx.violation("merkle-check|%s" % fname, fn.loc(), "%s must compare the root computed from the host-supplied path with the root on the stack and fail (MerklePathVerificationFailed) before any stack write" % fname)
    C = rules_c05.Composer(F)
    for n, need in (("MTreeGet", "MpVerify"), ("MTreeVerify", "MpVerify"), ("MTreeSet", "MrUpdate")):
        ctx.inst(key=n, nontrivial=True)
        paths = [lp for lp in C.L[n].paths if lp["outcome"] == "ok"]
        ok = bool(paths) and all(need in [op_name(o)[0] for o in lp["ops"]] for lp in paths)
        if ok and n == "MTreeGet":
            # the value returned is the advice word that was verified: MpVerify's node argument is the popped word
            for lp, rs in C.results(n):
                if isinstance(rs, list):
                    for r in rs:
                        if r["outcome"] in (("ok",), "ok"):
                            mp = [e for e in r["effects"] if e[0] == "mpverify"]
                            top = [str(x) for x in r["stack"][:4]]
                            ok = ok and len(mp) == 1 and sorted(str(x) for x in mp[0][1][0].items) == sorted(top)
        ctx.oblig(ok)
        if not ok:
            ctx.violation("merkle-lowering|%s" % n, "assembly/src/assembler/instruction/crypto_ops.rs", "%s must verify the host-supplied value with %s" % (n, need))


def r3b_merkle_depth(ctx, F):
    """the depth operand of MPVERIFY / MRUPDATE is enforced by the VM itself: in each handler some branch condition depends
    both on the length of the host-supplied Merkle path (a `len` call on a value flowing from the host call) and on the depth
    operand (stack position 4), one side of that branch cannot complete (error return or panic) and performs no stack write,
    and the branch dominates every stack write. Without it a dishonest host can answer a request for (depth d, index i) with
    a node and path of another depth whose root still matches - mtree_get / mtree_verify / mtree_set would then return or
    accept a node that is not the node at depth d."""
    for fname in ("op_mpverify", "op_mrupdate"):
        fn = F.fn(r"^miden_processor::operations::crypto_ops::Process::%s$" % fname)
        ctx.inst(key="depth|" + fname, nontrivial=True)
        errs = set(err_blocks(fn)) | set(panic_blocks(fn))
        writes = fn.calls_to(r"Stack::(set|copy_state|shift_left|shift_right)$")
        good_blocks = []
        for bi, b in enumerate(fn.blocks):
            t = b["t"]
            if t["k"] != "switch" or "l" not in t["o"]:
                continue
            sl = fn.backward_slice(t["o"]["l"])
            callees = [c for bb, c, tt in sl["calls"]]
            has_len = any(re.search(r"::len$", c) for c in callees)
            from_host = any(re.search(r"get_adv_merkle_path$|set_advice$|Host::get_advice$", c) for c in callees)
            depth_get = False
            for bb, c, tt in sl["calls"]:
                if re.search(r"Stack::get$", c):
                    a = tt["args"][1] if len(tt["args"]) > 1 else {}
                    if a.get("c") == 4 or str(a.get("c")) == "4":
                        depth_get = True
            if not (has_len and from_host and depth_get):
                continue
            targets = [a[1] for a in t["arms"]] + [t["else"]]
            fails = [tg for tg in targets if (fn.reachable_blocks(tg) & errs) and not any(w[0] in fn.reachable_blocks(tg) for w in writes)]
            if fails and all(fn.dominates(bi, w[0]) for w in writes):
                good_blocks.append(bi)
        ok = bool(good_blocks) and bool(writes)
        ctx.oblig(ok)
        if not ok:
            ctx.violation("merkle-depth-unchecked|%s" % fname, fn.loc(),
                          "%s never compares the length of the host-supplied Merkle path with the depth operand (stack position 4) on a branch that fails before any stack write: "
                          "a dishonest host can answer with a node and path of another depth whose root matches" % fname)


def r4_pops(ctx, F):
    C = rules_c05.Composer(F)
    ctx.inst(key="AdvPush", nontrivial=True)
    lp = [p for p in C.L["AdvPush"].paths if p["outcome"] == "ok"]
    ok = bool(lp) and all(len(p["ops"]) == 1 and "*many" in str(p["ops"][0]) and "AdvPop" in str(p["ops"][0]) and "imm_u8" in str(p["ops"][0]) for p in lp)
    ctx.oblig(ok)
    if not ok:
        ctx.violation("adv-push-lowering", "assembly/src/assembler/instruction/adv_ops.rs", "adv_push.n must lower to n AdvPop operations: %s" % [p["ops"] for p in lp][:2])
    rej = [p for p in C.L["AdvPush"].paths if p["outcome"] != "ok"]
    ctx.oblig(bool(rej))
    if not rej:
        ctx.violation("adv-push-range", "assembly/src/assembler/instruction/adv_ops.rs", "adv_push.n has no rejecting path for n outside 1..16")
    # AdvPop pushes the popped value on top; AdvPopW overwrites positions 3..0 with word[0..3] reversed (documented order)
    rs = [r for r in procmodel.run_operation(F, "AdvPop") if r.outcome == "ok"]
    ctx.inst(key="AdvPop", nontrivial=True)
    ok = bool(rs) and all(str(r.nxt[0]).startswith("adv#") and str(r.nxt[1]) == "s0" for r in rs)
    ctx.oblig(ok)
    if not ok:
        ctx.violation("advpop", "processor/src/operations/io_ops.rs", "AdvPop must push the popped advice value: %s" % [str(x) for x in rs[0].nxt[:3]] if rs else "no path")
    rs = [r for r in procmodel.run_operation(F, "AdvPopW") if r.outcome == "ok"]
    ctx.inst(key="AdvPopW", nontrivial=True)
    ok = bool(rs) and all([str(x) for x in r.nxt[:5]] == ["adv#4", "adv#3", "adv#2", "adv#1", "s4"] for r in rs)
    ctx.oblig(ok)
    if not ok:
        ctx.violation("advpopw", "processor/src/operations/io_ops.rs", "AdvPopW must place word[3..0] on positions 0..3: %s" % ([str(x) for x in rs[0].nxt[:5]] if rs else "no path"))
    lpw = [p for p in C.L["AdvLoadW"].paths if p["outcome"] == "ok"]
    ok = bool(lpw) and all([op_name(o)[0] for o in p["ops"]] == ["AdvPopW"] for p in lpw)
    ctx.oblig(ok)
    if not ok:
        ctx.violation("adv-loadw-lowering", "assembly/src/assembler/instruction/adv_ops.rs", "adv_loadw must lower to AdvPopW")
    lpp = [p for p in C.L["AdvPipe"].paths if p["outcome"] == "ok"]
    ok = bool(lpp) and all([op_name(o)[0] for o in p["ops"]] == ["Pipe"] for p in lpp)
    ctx.oblig(ok)
    if not ok:
        ctx.violation("adv-pipe-lowering", "assembly/src/assembler/instruction/adv_ops.rs", "adv_pipe must lower to Pipe")
    # Pipe puts the two words in the same element order as MStream
    a = [r for r in procmodel.run_operation(F, "Pipe") if r.outcome == "ok"]
    b = [r for r in procmodel.run_operation(F, "MStream") if r.outcome == "ok"]
    ctx.inst(key="Pipe-order", nontrivial=True)
    num = lambda xs: [int(re.search(r"#(\d+)", str(x)).group(1)) for x in xs]
    ok = bool(a) and bool(b) and num(a[0].nxt[:8]) == num(b[0].nxt[:8])
    ctx.oblig(ok)
    if not ok:
        ctx.violation("pipe-order", "processor/src/operations/io_ops.rs", "op_pipe places the advice words in a different element order than op_mstream places memory words")


# ---- R5: the in-VM checks of the bit-counting hints are exact -------------------------------------------------------------
M32 = 2 ** 32 - 1
P_ = 2 ** 64 - 2 ** 32 + 1


def reference_cube(kind, h):
    """(care, value) over the 64-bit integer of the operand such that  n & care == value  <=>  kind(n) == h ;  None when no
    operand has that count. The u32 functions are defined on 32-bit operands (bits 32..63 must be 0)."""
    hi = M32 << 32
    if kind == "ilog2":
        if not 0 <= h <= 63:
            return None
        return (((2 ** 64 - 1) >> h) << h, 1 << h)
    if not 0 <= h <= 32:
        return None
    if kind == "ctz":
        return (hi | ((2 ** (h + 1) - 1) & M32), (1 << h) & M32)
    if kind == "cto":
        return (hi | ((2 ** (h + 1) - 1) & M32), (2 ** h - 1) & M32)
    top = lambda k: (M32 >> (32 - k)) << (32 - k) if k else 0        # k leading bits
    if kind == "clz":
        return (hi | top(min(h + 1, 32)), (1 << (31 - h)) if h < 32 else 0)
    if kind == "clo":
        return (hi | top(min(h + 1, 32)), top(h))
    raise KeyError(kind)


def ev(x, env):
    """concrete value of a hint-only term under env (variable -> int); None when it mentions anything else"""
    if isinstance(x, bool):
        return int(x)
    if isinstance(x, int):
        return x
    if isinstance(x, Poly):
        tot = 0
        for m, c in x.t.items():
            v = c
            for var, e in m:
                if var in env:
                    val = env[var]
                elif var in procmodel.FELT_TERMS:
                    val = ev(procmodel.FELT_TERMS[var], env)
                    if val is not None:
                        val %= P_
                else:
                    val = None
                if val is None:
                    return None
                v = v * pow(val, e, P_) % P_
            tot = (tot + v) % P_
        return tot
    if isinstance(x, Term):
        a = [ev(y, env) for y in x.args]
        if any(v is None for v in a):
            return None
        op = x.op
        if op in ("as_int", "as_u64"):
            return a[0] % 2 ** 64
        if op == "as_u32":
            return a[0] % 2 ** 32
        if op == "&":
            return a[0] & a[1]
        if op == ">>":
            return a[0] >> a[1]
        if op == "<<":
            return (a[0] << a[1]) % 2 ** 64
        if op == "eq":
            return int(a[0] == a[1])
        if op == "ne":
            return int(a[0] != a[1])
        if op == "<=":
            return int(a[0] <= a[1])
        if op == "<":
            return int(a[0] < a[1])
        if op == "+":
            return a[0] + a[1]
        if op == "-":
            return a[0] - a[1]
        if op == "*":
            return a[0] * a[1]
        if op == "not":
            return int(not a[0])
    return None


def truth_of(v):
    return (v == ("not", [0])) if isinstance(v, tuple) else (bool(v) if isinstance(v, (int, bool)) else None)


def shift_chain(x):
    """x == floor(as_int(X) / 2^k) for a polynomial X: returns (X, k) or None"""
    k = 0
    while True:
        if isinstance(x, Poly):
            vs = sorted(x.vars())
            if len(vs) == 1 and x == Poly.var(vs[0]) and vs[0] in procmodel.FELT_TERMS:
                x = procmodel.FELT_TERMS[vs[0]]
                continue
            return (x, k)
        if isinstance(x, Term) and x.op in ("as_int", "as_u64") and len(x.args) == 1:
            x = x.args[0]
            continue
        if isinstance(x, Term) and x.op == ">>" and isinstance(x.args[1], int):
            k += x.args[1]
            x = x.args[0]
            continue
        return None


def hint_candidates(guards, adv):
    """finite set of hint values a path admits, from a guard  floor(as_int(X)/2^k) == 0  with X = c*adv + d ; None when the path
    does not bound the hint"""
    for c, v, l in guards:
        if not (isinstance(c, Term) and c.op == "eq" and truth_of(v) is True):
            continue
        a, b = c.args
        if isinstance(b, Poly) and b.const_value() == 0:
            pass
        elif isinstance(a, Poly) and a.const_value() == 0:
            a = b
        else:
            continue
        sc = shift_chain(a)
        if sc is None or not isinstance(sc[0], Poly) or sc[0].vars() != {adv} or sc[0].degree() != 1 or sc[1] > 8:
            continue
        X, k = sc
        c1 = X.coeff_of(adv).const_value()
        d = X.without(adv).const_value() or 0
        if c1 is None:
            continue
        inv = pow(c1, P_ - 2, P_)
        return sorted(((val - d) * inv) % P_ for val in range(2 ** k))
    return None


def operand_atom(x):
    """a stack value that is the operand or one of its 32-bit halves: ('full'|'lo'|'hi', operand variable)"""
    if not isinstance(x, Poly):
        return None
    vs = sorted(x.vars())
    if len(vs) != 1 or x != Poly.var(vs[0]):
        return None
    v = vs[0]
    if re.match(r"^e\d+$", v):
        return ("full", v)
    t = procmodel.FELT_TERMS.get(v)
    if t is None:
        return None
    r = repr(t)
    m = re.match(r"^as_u64\(as_u32\(as_int\((e\d+)\)\)\)$", r)
    if m:
        return ("lo", m.group(1))
    m = re.match(r"^>>\(as_int\((e\d+)\), 32\)$", r)
    if m:
        return ("hi", m.group(1))
    return None


class Cube:
    """conjunction of bit constraints on the operand's 64-bit integer"""
    def __init__(self):
        self.care, self.val, self.sat = 0, 0, True

    def add(self, care, val, shift=0):
        care, val = care << shift, val << shift
        if val & ~care:
            self.sat = False
            return
        both = self.care & care
        if (self.val & both) != (val & both):
            self.sat = False
            return
        self.care |= care
        self.val |= val

    def key(self):
        return (self.care, self.val) if self.sat else None


def path_cube(r, operand):
    """accepted operand set of a successful path as a cube; raises Undecided for conditions outside the recognised forms"""
    cube = Cube()
    ands = {}
    for e in r["effects"]:
        if e[0] == "u32and":
            ands[repr(e[3])] = (e[1], e[2])
    u32_atoms = set()

    def constrain(atom, care, val):
        kind, var = atom
        if var != operand:
            raise Undecided("condition on %s, which is not the operand" % var)
        if kind == "hi":
            cube.add(care, val, 32)
        else:
            cube.add(care, val, 0)
            if kind == "full":
                u32_atoms.add(var)

    for c, v, l in r["guards"]:
        if not isinstance(c, Term):
            raise Undecided("guard %r" % (c,))
        if c.op == "u32pair":
            continue        # ok path: both operands of the bitwise chiplet are u32 (handled through the effects below)
        lv = c.leaves()
        if not any(re.match(r"^e\d+|u32and#", x) or (x in procmodel.FELT_TERMS and re.search(r"\be\d+\b", repr(procmodel.FELT_TERMS[x]))) for x in lv):
            continue        # hint-only guard
        t = truth_of(v)
        if c.op == "<=" and repr(c.args[1]) == str(M32) and t is True:
            a = c.args[0].args[0] if isinstance(c.args[0], Term) and c.args[0].op == "as_int" else c.args[0]
            at = operand_atom(a)
            if at and at[0] in ("lo", "hi"):
                continue    # halves produced by U32split are u32 by construction
            if at and at[0] == "full":
                constrain(at, M32 << 32, 0)
                continue
        if c.op == "eq" and t is True:
            a, b = c.args
            for x, y in ((a, b), (b, a)):
                if isinstance(y, Poly) and repr(y) in ands:
                    m, z = ands[repr(y)]
                    if isinstance(z, Poly) and z.const_value() is not None:
                        m, z = z, m
                    mc = m.const_value() if isinstance(m, Poly) else (m if isinstance(m, int) else None)
                    at = operand_atom(z)
                    if mc is None or at is None:
                        raise Undecided("bitwise AND of %r and %r" % (m, z))
                    if at[0] == "full":
                        constrain(at, M32 << 32, 0)     # the chiplet accepted the operand: it is a u32
                    if isinstance(x, Poly) and x.const_value() is not None:
                        constrain(at, mc & M32, x.const_value()) if x.const_value() <= M32 else setattr(cube, "sat", False)
                        break
                    if operand_atom(x) == at:
                        constrain(at, ~mc & M32, 0)
                        break
                    raise Undecided("comparison of %r with %r" % (x, y))
            else:
                raise Undecided("equality %r" % (c,))
            continue
        raise Undecided("condition %r = %r" % (c, v))
    # operands of the bitwise chiplet on an ok path are u32
    for name, (m, z) in ands.items():
        for x in (m, z):
            cv = x.const_value() if isinstance(x, Poly) else None
            if cv is not None and cv > M32:
                cube.sat = False
            at = operand_atom(x) if cv is None else None
            if at and at[0] == "full" and at[1] == operand:
                cube.add(M32 << 32, 0)
    return cube


HINT_KINDS = {"U32Clz": "clz", "U32Ctz": "ctz", "U32Clo": "clo", "U32Cto": "cto", "ILog2": "ilog2"}


def describe(cube):
    if cube is None:
        return "no operand"
    care, val = cube
    return "{n : n & 0x%x == 0x%x}" % (care, val)


def r5_exact(ctx, F):
    L = lowering.lower_all(F)
    ctx.floor("bit-count-hints", len([n for n in HINT_KINDS if n in L]), 5)
    for n, kind in HINT_KINDS.items():
        loc = "assembly/src/assembler/instruction/%s" % ("field_ops.rs" if n == "ILog2" else "u32_ops.rs")
        lps = [lp for lp in L[n].paths if lp["outcome"] == "ok" and path_feasible(lp["guards"])]
        if len(lps) != 1:
            ctx.inst(key=n, nontrivial=True)
            ctx.violation("UNANALYSABLE|%s" % n, loc, "%d lowering paths" % len(lps))
            continue
        try:
            rs = procmodel.run_sequence(F, lps[0]["ops"], max_paths=6000, release=True)
        except Exception as e:
            ctx.inst(key=n, nontrivial=True)
            ctx.violation("UNANALYSABLE|%s" % n, loc, str(e)[:300])
            continue
        bad = [r for r in rs if r["outcome"][0] in ("unanalysable", "panic")]
        if bad:
            ctx.inst(key=n, nontrivial=True)
            ctx.violation("UNANALYSABLE|%s" % n, loc, "operation model: %s" % (bad[0]["outcome"],))
            continue
        oks = [r for r in rs if r["outcome"] == ("ok",) and path_feasible(r["guards"])]
        accepted = {}      # hint -> list of cubes
        undecided = False
        for r in oks:
            advs = sorted({v for g in r["guards"] if isinstance(g[0], Term) for v in g[0].leaves() if str(v).startswith("adv#")})
            top = r["stack"][0]
            if len(advs) != 1 or not (isinstance(top, Poly) and top == Poly.var(advs[0])):
                ctx.violation("result-not-hint|%s" % n, loc, "%s: a successful path leaves %s on top of the stack (advice values %s)" % (n, top, advs))
                undecided = True
                break
            adv = advs[0]
            cands = hint_candidates(r["guards"], adv)
            if cands is None:
                ctx.violation("UNANALYSABLE|%s" % n, loc, "%s: a successful path does not bound the hint (no condition floor(f(hint)/2^k) == 0 found)" % n)
                undecided = True
                break
            hint_guards = [(c, v) for c, v, l in r["guards"] if isinstance(c, Term) and c.op != "u32pair" and ev(c, {adv: 0}) is not None]
            hs = []
            for h in cands:
                okh = True
                for c, v in hint_guards:
                    val = ev(c, {adv: h})
                    if isinstance(v, tuple):      # ('not', [k]): value differs from k
                        okh = okh and val not in v[1]
                    else:
                        okh = okh and val == int(v)
                    if not okh:
                        break
                if okh:
                    hs.append(h)
            try:
                cube = path_cube(r, "e0")
            except Undecided as e:
                ctx.violation("UNANALYSABLE|%s" % n, loc, "%s: %s" % (n, str(e)[:250]))
                undecided = True
                break
            if not cube.sat:
                continue
            # the rest of the stack: the operand is consumed, nothing else changes
            if [repr(x) for x in r["stack"][1:8]] != ["e%d" % i for i in range(1, 8)]:
                ctx.violation("stack-effect|%s" % n, loc, "%s leaves %s below the result" % (n, [repr(x) for x in r["stack"][1:4]]))
            for h in hs:
                accepted.setdefault(h, []).append(cube.key())
        if undecided:
            ctx.inst(key=n, nontrivial=True)
            continue
        rng = range(0, 64 if kind == "ilog2" else 33)
        for h in sorted(set(accepted) | set(rng)):
            ctx.inst(key="%s|hint=%s" % (n, h if h < 2 ** 63 else "p-%d" % (P_ - h)), nontrivial=True)
            ref = reference_cube(kind, h) if h < 2 ** 63 else None
            got = sorted(set(accepted.get(h, [])))
            ok = (got == [ref]) if ref is not None else not got
            ctx.oblig(ok)
            if not ok:
                hh = str(h) if h < 2 ** 63 else "p-%d" % (P_ - h)
                if ref is None:
                    what = "hint-accepted-out-of-range"
                    msg = "%s completes with result %s for operands %s, but no operand has %s = %s" % (n, hh, " or ".join(describe(g) for g in got), kind, hh)
                elif not got:
                    what = "honest-hint-rejected"
                    msg = "%s never completes with the correct result %s (operands %s): an honest host fails" % (n, hh, describe(ref))
                else:
                    what = "hint-check-inexact"
                    msg = "%s completes with result %s exactly for operands %s; %s(n) = %s holds exactly for %s: a dishonest host can return %s for other operands, or the honest result is rejected" % (n, hh, " or ".join(describe(g) for g in got), kind, hh, describe(ref), hh)
                ctx.violation("%s|%s|hint=%s" % (what, n, hh), loc, msg)
        ctx.sample({"instruction": n, "composed_paths": len(rs), "successful_paths": len(oks), "hints_with_accepting_path": len(accepted),
                    "example": {str(h): describe(accepted[h][0]) for h in sorted(accepted)[:3]}})


def r4b_provider_order(ctx, F):
    """the advice provider's stack operations agree with each other: pop_stack_word returns what four pop_stack calls return, in
    that order; pop_stack_dword returns two consecutive words; push_stack(Word) followed by pop_stack_word returns the word,
    push_stack(Value) followed by pop_stack the value (interpretation on a stack of symbolic elements)"""
    from .mirsym import Interp, Agg, Ptr, Opaque, Unanalysable, PanicReached, deref
    PRE = r"^miden_processor::host::advice::providers::BaseAdviceProvider@AdviceProvider::"
    adt = F.adt(r"^miden_processor::host::advice::providers::BaseAdviceProvider$")
    src = F.adt(r"^miden_processor::host::advice::source::AdviceSource$")
    fields = [f["name"] for f in adt["variants"][0]["fields"]]
    fn = lambda n: F.fn(PRE + n + "$")

    def provider(elems):
        vals = {"stack": Agg(list(elems), "vec")}
        return Agg([vals.get(n, Opaque(n)) for n in fields], "adt", adt["id"], adt["variants"][0]["name"])

    def ok_val(r):
        if isinstance(r, Agg) and r.variant == "Ok":
            return r.items[0]
        raise Unanalysable("unexpected result %r" % (r,))
    flat = lambda v: [repr(x) for x in (v.items if isinstance(v, Agg) else [v])]
    sym = [Poly.var("a%d" % i) for i in range(10)]     # a9 is on top
    proc = Ptr([Opaque("process")], 0)
    ctx.inst(key="advice-provider", nontrivial=True)
    try:
        I = Interp(F)
        procmodel.install_field(I)
        I.overrides.insert(0, (re.compile(r"ProcessState::clk$"), lambda I_, a, f: 0))
        p1 = provider(sym)
        singles = [repr(ok_val(I.call(fn("pop_stack").id, [Ptr([p1], 0), proc]))) for _ in range(8)]
        p2 = provider(sym)
        w = flat(ok_val(I.call(fn("pop_stack_word").id, [Ptr([p2], 0), proc])))
        rest2 = [repr(x) for x in p2.items[fields.index("stack")].items]
        p3 = provider(sym)
        dw = ok_val(I.call(fn("pop_stack_dword").id, [Ptr([p3], 0), proc]))
        dwf = [flat(x) for x in dw.items]
        p4 = provider(sym[:2])
        word = Agg([Poly.var("w%d" % i) for i in range(4)], "array")
        I.call(fn("push_stack").id, [Ptr([p4], 0), Agg([word], "adt", src["id"], "Word")])
        back = flat(ok_val(I.call(fn("pop_stack_word").id, [Ptr([p4], 0), proc])))
        I.call(fn("push_stack").id, [Ptr([p4], 0), Agg([Poly.var("v")], "adt", src["id"], "Value")])
        backv = repr(ok_val(I.call(fn("pop_stack").id, [Ptr([p4], 0), proc])))
        rest4 = [repr(x) for x in p4.items[fields.index("stack")].items]
    except (Unanalysable, PanicReached) as e:
        ctx.violation("UNANALYSABLE|advice-provider", "processor/src/host/advice/providers.rs", str(e)[:300])
        return
    checks = [("pop_stack order", singles[:4] == ["a9", "a8", "a7", "a6"], "four pop_stack calls return %s; the top of the advice stack is its last element" % singles[:4]),
              ("pop_stack_word vs pop_stack", w == singles[:4] and rest2 == ["a%d" % i for i in range(6)], "pop_stack_word returns %s and leaves %s; four pop_stack calls return %s" % (w, rest2, singles[:4])),
              ("pop_stack_dword vs pop_stack_word", dwf == [singles[:4], singles[4:8]], "pop_stack_dword returns %s; two pop_stack_word calls return %s" % (dwf, [singles[:4], singles[4:8]])),
              ("push_stack(Word) round trip", back == ["w0", "w1", "w2", "w3"], "push_stack(Word [w0..w3]) followed by pop_stack_word returns %s" % back),
              ("push_stack(Value) round trip", backv == "v" and rest4 == ["a0", "a1"], "push_stack(Value v) followed by pop_stack returns %s and leaves %s" % (backv, rest4))]
    for what, ok, msg in checks:
        ctx.oblig(ok)
        if not ok:
            ctx.violation("advice-order|%s" % what.replace(" ", "-"), "processor/src/host/advice/providers.rs", msg)


def r6_honest_injectors(ctx, F):
    """the honest advice injectors push what the in-VM checks accept: U32Clz/Ctz/Clo/Cto push leading_zeros / trailing_zeros /
    leading_ones / trailing_ones of the top operand taken as u32 (and fail on a non-u32 operand), ILog2 pushes floor(log2) of the
    top operand, and U64Div pushes [r_hi, r_lo, q_hi, q_lo] for q = floor(a / b), r = a - q * b computed from the operand limbs
    in the documented positions.  Each injector is interpreted with symbolic stack items; the pushed terms and the recorded path
    guards are then evaluated at boundary operands against the integer definition."""
    from .mirsym import Interp, Agg, Ptr, Opaque, Unanalysable, PanicReached, deref, enumerate_paths
    from .execmodel import consistent
    from . import execmodel
    INJ = r"^miden_processor::host::advice::injectors::adv_stack_injectors::"
    BITOPS = {
        "leading_zeros": lambda x, w: w - x.bit_length(),
        "trailing_zeros": lambda x, w: w if x == 0 else (x & -x).bit_length() - 1,
        "leading_ones": lambda x, w: w - (x ^ (2 ** w - 1)).bit_length(),
        "trailing_ones": lambda x, w: ((x + 1) & -(x + 1)).bit_length() - 1 if x != 2 ** w - 1 else w,
        "ilog2": lambda x, w: x.bit_length() - 1 if x else None,
    }

    def evx(x, env):
        """execmodel.ev extended with the width-tagged bit-count terms introduced below"""
        if isinstance(x, Term) and len(x.args) == 1:
            m = re.match(r"^(leading_zeros|trailing_zeros|leading_ones|trailing_ones|ilog2)(32|64)$", x.op)
            if m:
                v = evx(x.args[0], env)
                return None if v is None else BITOPS[m.group(1)](v % 2 ** int(m.group(2)), int(m.group(2)))
            if x.op in ("as_int", "as_u64", "as_usize", "as_u32", "as_u16", "as_u8"):
                v = evx(x.args[0], env)
                return None if v is None else v % 2 ** {"as_u32": 32, "as_u16": 16, "as_u8": 8}.get(x.op, 64)
        if isinstance(x, Term) and len(x.args) == 2:
            va, vb = evx(x.args[0], env), evx(x.args[1], env)
            if va is None or vb is None:
                return None
            return execmodel.ev(Term(x.op, va, vb), env)
        if isinstance(x, Poly) and x.vars():
            sub = {}
            for v in x.vars():
                if v in procmodel.FELT_TERMS:
                    val = evx(procmodel.FELT_TERMS[v], env)
                    if val is None:
                        return None
                    sub[v] = val % execmodel.P_
            return execmodel.ev(x, dict(env, **sub))
        return execmodel.ev(x, env)
    holder = {}

    def make():
        I = Interp(F)
        procmodel.install_field(I)
        pushed = []
        holder["pushed"] = pushed
        ov = lambda rx, m: I.overrides.insert(0, (re.compile(rx), m))
        ov(r"ProcessState::get_stack_item$", lambda I_, a, f: Poly.var("s%d" % a[1]) if isinstance(a[1], int) else Opaque("item"))
        ov(r"ProcessState::clk$", lambda I_, a, f: 0)
        ov(r"AdviceProvider::push_stack$", lambda I_, a, f: (pushed.append(a[1]), Agg([Agg([], "tuple")], "adt", "core::result::Result", "Ok"))[1])
        for ty in ("u32", "u64"):
            for nm in BITOPS:
                ov(r"^core::num::%s::%s$" % (ty, nm), lambda I_, a, f, nm=nm, ty=ty: Term(nm + ty[1:], a[0]))
        return I

    def paths(fn):
        out = []
        for I, res, exc in enumerate_paths(make, lambda I: I.call(fn.id, [Ptr([Opaque("provider")], 0), Ptr([Opaque("process")], 0)])):
            if exc is not None:
                if isinstance(exc, PanicReached):
                    out.append(("panic", list(I.path), [], exc))
                    continue
                raise exc
            vals = []
            for x in holder["pushed"]:
                x = deref(x)
                vals.append(x.items[0] if isinstance(x, Agg) and x.variant == "Value" else x)
            out.append(("ok" if isinstance(res, Agg) and res.variant == "Ok" else "err", list(I.path), vals, res))
        return out

    def decide(fname, fn, envs, reference):
        """at every env exactly the paths whose guards hold decide the outcome: `reference(env)` is the expected pushed list, or
        None when the injector must fail"""
        try:
            ps = paths(fn)
        except Unanalysable as e:
            ctx.violation("UNANALYSABLE|injector|%s" % fname, fn.loc(), str(e)[:300])
            return
        bad = None
        for env in envs:
            live = [p for p in ps if all(execmodel.guard_holds_with(evx, c, val, env) is not False for c, val, loc in p[1])]
            want = reference(env)
            if want == "any":
                continue
            for kind, guards, vals, res in live:
                if any(execmodel.guard_holds_with(evx, c, val, env) is None for c, val, loc in guards):
                    bad = "a path guard is undetermined at %s" % env
                    break
                if want is None:
                    if kind == "ok":
                        bad = "succeeds at %s, where the operand is invalid" % env
                elif kind != "ok":
                    bad = "%s at the valid operands %s" % ("panics" if kind == "panic" else "fails", env)
                else:
                    got = [evx(v, env) for v in vals]
                    if got != want:
                        bad = "at %s pushes %s, the definition gives %s" % (env, got, want)
                if bad:
                    break
            if not live and not bad and want != "any":
                bad = "no path covers %s" % env
            if bad:
                break
        ctx.oblig(bad is None)
        if bad:
            ctx.violation("injector-value|%s" % fname, fn.loc(), "%s: %s" % (fname, bad))
    U32S = [0, 1, 2, 3, 5, 6, 0x80000000, 0xFFFFFFFF, 0xFFFF0000, 0x0000FFFF, 0x7FFFFFFF, 0xFFFFFFFE, 0x00010000, 0x12345678, 0xF0F0F0F0]
    if ctx.tier == "thorough":
        U32S += [1 << k for k in range(2, 32)] + [(1 << k) - 1 for k in range(2, 32)] + [0xFFFFFFFF ^ (1 << k) for k in range(32)] + [0xFFFFFFFF << k & 0xFFFFFFFF for k in range(1, 32)]
    for fname, op in (("push_leading_zeros", "leading_zeros"), ("push_trailing_zeros", "trailing_zeros"), ("push_leading_ones", "leading_ones"), ("push_trailing_ones", "trailing_ones")):
        fn = F.fn(INJ + fname + "$")
        ctx.inst(key=fname, nontrivial=True)
        decide(fname, fn, [{"s0": v} for v in U32S + [2 ** 32, 2 ** 32 + 1, 2 ** 63, execmodel.P_ - 1]],
               lambda env, op=op: [BITOPS[op](env["s0"], 32)] if env["s0"] < 2 ** 32 else None)
    fn = F.fn(INJ + "push_ilog2$")
    ctx.inst(key="push_ilog2", nontrivial=True)
    decide("push_ilog2", fn, [{"s0": v} for v in U32S + [2 ** 32, 2 ** 32 + 1, 2 ** 63, 2 ** 63 - 1, 2 ** 63 + 1, execmodel.P_ - 1]],
           lambda env: [env["s0"].bit_length() - 1] if env["s0"] else None)
    fn = F.fn(INJ + "push_u64_div_result$")
    ctx.inst(key="push_u64_div_result", nontrivial=True)
    L = [0, 1, 2, 0xFFFFFFFF, 0x80000000, 0x12345678] + ([3, 0xFFFF, 0x10000, 0x7FFFFFFF, 0xFFFFFFFE] if ctx.tier == "thorough" else [])
    envs = [{"s0": bh, "s1": bl, "s2": ah, "s3": al} for bh in (0, 1, 0xFFFFFFFF, 0x9ABCDEF0) for bl in L for ah in (0, 3, 0xFFFFFFFF, 0x0FEDCBA9) for al in L]
    envs += [{"s0": 2 ** 32, "s1": 1, "s2": 1, "s3": 1}, {"s0": 1, "s1": 2 ** 32, "s2": 1, "s3": 1}, {"s0": 1, "s1": 1, "s2": 2 ** 32 + 5, "s3": 1}, {"s0": 1, "s1": 1, "s2": 1, "s3": execmodel.P_ - 1}]

    def divref(env):
        if any(env[k] >= 2 ** 32 for k in env):
            return "any"            # limbs are validated in the VM (C09-R5 / C16), not by the injector
        b, a_ = (env["s0"] << 32) + env["s1"], (env["s2"] << 32) + env["s3"]
        if b == 0:
            return None
        q, r = a_ // b, a_ % b
        return [r >> 32, r & 0xFFFFFFFF, q >> 32, q & 0xFFFFFFFF]
    decide("push_u64_div_result", fn, envs, divref)
    # ext2inv / ext2div: the inverse of (a0, a1) = (item 1, item 0) is pushed as b1 then b0 (b0 on top), and only the zero
    # element is refused.  The constant the operand is compared with is a promoted constant the fact extractor does not
    # evaluate; the source must name QuadFelt::ZERO (checked on the function's text).
    fn = F.fn(INJ + "push_ext2_inv_result$")
    ctx.inst(key="push_ext2_inv_result", nontrivial=True)
    QE = "winter_math::field::extensions::quadratic::QuadExtension"
    inv_args = []

    def make2():
        I = make()
        ov = lambda rx, m: I.overrides.insert(0, (re.compile(rx), m))
        ov(r"QuadExtension::new$", lambda I_, a, f: Agg([a[0], a[1]], "adt", QE, "QuadExtension"))

        def qeq(I_, a, f):
            x, y = deref(a[0]), deref(a[1])
            if not (isinstance(x, Agg) and len(x.items) == 2):
                x, y = y, x
            if not (isinstance(x, Agg) and len(x.items) == 2) or isinstance(y, Agg):
                raise Unanalysable("comparison of extension elements %r, %r" % (x, y))
            inv_args.append("qeq")
            for c in x.items:              # y: the unevaluated constant, QuadFelt::ZERO by the source text
                if not I_.decide(Term("eq", c, Poly.const(0)), "ext2-zero"):
                    return False
            return True
        ov(r"QuadExtension@PartialEq::eq$", qeq)

        def qinv(I_, a, f):
            inv_args.append([repr(x) for x in deref(a[0]).items])
            return Agg([Poly.var("inv0"), Poly.var("inv1")], "adt", QE, "QuadExtension")
        ov(r"QuadExtension.*::inv$", qinv)
        ov(r"QuadExtension::to_base_elements$", lambda I_, a, f: Agg(list(deref(a[0]).items), "array"))
        return I
    try:
        src = open("/repo/" + fn.file).read().split("\n")
        body = "\n".join(src[fn.line - 1:fn.line + 25])
        named_zero = len(re.findall(r"Quad(?:Felt|Extension)(?:::<[^>]*>)?::ZERO", body.split("\n}\n")[0])) >= 1
        outs = []
        for I, res, exc in enumerate_paths(make2, lambda I: I.call(fn.id, [Ptr([Opaque("provider")], 0), Ptr([Opaque("process")], 0)])):
            if exc is not None:
                raise exc
            vals = []
            for x in holder["pushed"]:
                x = deref(x)
                vals.append(repr(x.items[0]) if isinstance(x, Agg) and x.variant == "Value" else repr(x))
            outs.append(("ok" if isinstance(res, Agg) and res.variant == "Ok" else "err", list(I.path), vals))
        bad = None
        used_qeq = "qeq" in inv_args
        inv_args[:] = [x for x in inv_args if x != "qeq"]
        if used_qeq and not named_zero:
            bad = "the operand is compared with a constant that the source does not name QuadFelt::ZERO"
        for a0 in (0, 1, 7):
            for a1 in (0, 1, 7):
                env = {"s0": a1, "s1": a0}
                live = [o for o in outs if all(execmodel.guard_holds_with(evx, c, val, env) is not False for c, val, loc in o[1])]
                kinds = {o[0] for o in live}
                if (a0, a1) == (0, 0):
                    if kinds != {"err"}:
                        bad = bad or "the zero element is not refused"
                elif kinds != {"ok"}:
                    bad = bad or "the invertible element (a0, a1) = (%d, %d) is refused: ext2inv / ext2div then fail on valid operands" % (a0, a1)
                elif any(o[2] != ["inv1", "inv0"] for o in live):
                    bad = bad or "the inverse is pushed as %s; documented advice stack [b0, b1, ...] needs b1 pushed first" % (live[0][2],)
        if not bad and any(x != ["s1", "s0"] for x in inv_args):
            bad = "the inverted element is built from %s; (a0, a1) are stack items 1 and 0" % (inv_args[0],)
    except (Unanalysable, PanicReached, OSError) as e:
        ctx.violation("UNANALYSABLE|injector|push_ext2_inv_result", fn.loc(), str(e)[:300])
    else:
        ctx.oblig(bad is None)
        if bad:
            ctx.violation("injector-value|push_ext2_inv_result", fn.loc(), "push_ext2_inv_result: %s" % bad)


def run(ctx, F):
    ctx.trusted += ["rustc MIR via mirfacts", "lowering extractor and operation model (per-operation dependency summaries)", "vlib/masm.py integer model for the stdlib division routines",
                    "field facts: inverses in F_p[x]/(x^2 - x + 2) are unique; a = q*b + r with 0 <= r < b determines q, r"]
    ctx.assumptions += ["for u32clz/ctz/clo/cto and ilog2 only the necessary condition is decided (each hint reaches a failing check together with the operand), not that the check is mathematically sufficient",
                        "host implementations are not analysed: the rules quantify over every value a host may return"]
    ctx.run_rule("C09-R1", "every advice value of a hint-assisted instruction reaches a failing check that also depends on the operand; ext2inv/ext2div checks state hint * operand = target exactly", r1_lowered_hints, F)
    ctx.run_rule("C09-R2", "u64 div/mod/divmod: the assertions imply a = q*b + r and r < b, and all advice limbs are range-checked", r2_division, F)
    ctx.run_rule("C09-R3", "op_mpverify / op_mrupdate compare the computed root with the stack's root and fail before writing; mtree_* lowerings contain the verifying operation", r3_merkle, F)
    ctx.run_rule("C09-R3b", "op_mpverify / op_mrupdate enforce the depth operand themselves: a branch depending on the length of the host-supplied path and on stack position 4 fails before any stack write", r3b_merkle_depth, F)
    ctx.run_rule("C09-R5", "u32clz/ctz/clo/cto and ilog2: for every hint value, the set of operands for which the lowered check sequence completes equals the set of operands whose count is that value (bit-cube comparison over all composed paths)", r5_exact, F)
    ctx.run_rule("C09-R4b", "advice provider: pop_stack_word = four pop_stack, pop_stack_dword = two pop_stack_word, push_stack(Word/Value) round-trips through pop (interpreted on symbolic stacks)", r4b_provider_order, F)
    ctx.run_rule("C09-R6", "honest injectors: U32Clz/Ctz/Clo/Cto, ILog2 and U64Div push the values (and in the order) the in-VM checks accept", r6_honest_injectors, F)
    ctx.run_rule("C09-R4", "advice pops: adv_push.n = n AdvPop (1..16), adv_loadw = AdvPopW with the documented element order, adv_pipe = Pipe with MStream's order", r4_pops, F)

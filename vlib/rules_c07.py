"""C07 — contexts isolate memory and stack: context-argument provenance of every memory access, keyed storage,
context switch pairing, syscall gate, locals regions, address arithmetic."""
import os, re
from .mirutil import *
from .mirsym import Interp, Poly, Term, Agg, Ptr, Opaque, enumerate_paths, Unanalysable, PanicReached, deref, path_feasible
from . import procmodel, extract

LEVEL = "other"
MEMFN = r"^miden_processor::chiplets::Chiplets::(read_mem|read_mem_double|write_mem|write_mem_element|write_mem_double)$"
# memory access sites whose address is not a stack value checked by get_valid_address, with the reason
ADDR_EXCEPTIONS = {}


def r1_ctx_provenance(ctx, F):
    n = 0
    for fn in F.fns.values():
        if not fn.id.startswith("miden_processor::operations::"):
            continue
        for bi, cal, t in fn.calls_to(MEMFN):
            n += 1
            key = "%s|%s" % (short(fn.id), cal.rsplit("::", 1)[-1])
            ctx.inst(key=key, nontrivial=True)
            # context argument = System::ctx() of self.system, nothing else
            a = t["args"][1]
            sl = fn.backward_slice(a["l"]) if "l" in a else {"calls": [], "consts": [a], "args": set()}
            srcs = sorted(set(c for b2, c, tt in sl["calls"]))
            ok = srcs == ["miden_processor::system::System::ctx"] and not [k for k in sl["consts"] if "c" in k and k.get("c") is not None and not isinstance(k.get("c"), dict)]
            ctx.oblig(ok)
            ctx.analysed("%s %s ctx <- %s" % (fn.loc(t["ln"]), short(cal), srcs))
            if not ok:
                ctx.violation("ctx-provenance|%s" % key, fn.loc(t["ln"]),
                              "the context argument of %s in %s derives from %s (constants %s); it must be exactly self.system.ctx(): memory of another context would be touched"
                              % (short(cal), short(fn.id), srcs, [k.get("c") for k in sl["consts"]][:3]))
            # address argument flows from get_valid_address(stack.get(k))
            b = t["args"][2]
            sb = fn.backward_slice(b["l"]) if "l" in b else {"calls": []}
            calls_b = set(c for b2, c, tt in sb["calls"])
            okb = any(c.endswith("Process::get_valid_address") for c in calls_b)
            ctx.oblig(okb or key in ADDR_EXCEPTIONS)
            if not okb and key not in ADDR_EXCEPTIONS:
                ctx.violation("addr-unchecked|%s" % key, fn.loc(t["ln"]),
                              "the address passed to %s in %s does not pass through get_valid_address (sources: %s): an address >= 2^32 would be truncated instead of failing"
                              % (short(cal), short(fn.id), sorted(short(c) for c in calls_b)[:6]))
    ctx.floor("memory-access-sites", n, 8)
    # get_valid_address: Ok(a) exactly for a < 2^32, Err otherwise (interpreted symbolically; the branch conditions of each path
    # are evaluated at boundary values, so the verdict does not depend on how the comparison is written)
    from . import execmodel
    gva = F.fn(r"^miden_processor::operations::io_ops::Process::get_valid_address$")
    ctx.inst(key="get_valid_address", nontrivial=True)

    def make():
        I = Interp(F)
        procmodel.install_field(I)
        return I

    probes = (0, 1, 2 ** 16, 2 ** 32 - 2, 2 ** 32 - 1, 2 ** 32, 2 ** 32 + 1, 2 ** 33, 2 ** 63, execmodel.P_ - 1)
    ok, why, npaths = True, "", 0
    covered = set()
    try:
        for I, res, exc in enumerate_paths(make, lambda I: I.call(gva.id, [Poly.var("addr")])):
            npaths += 1
            if exc is not None:
                if isinstance(exc, PanicReached):
                    adm = execmodel.admitted(I.path, "addr", probes)
                    if adm:
                        ok, why = False, "panics for address %s" % adm[0]
                    continue
                raise exc
            adm = execmodel.admitted(I.path, "addr", probes)
            is_ok = isinstance(res, Agg) and res.variant == "Ok"
            for v in adm:
                covered.add(v)
                if is_ok and v >= 2 ** 32:
                    ok, why = False, "accepts the address %d >= 2^32" % v
                elif not is_ok and v < 2 ** 32:
                    ok, why = False, "rejects the valid address %d" % v
                elif is_ok:
                    r = execmodel.ev(res.items[0], {"addr": v})
                    if r != v:
                        ok, why = False, "returns %r for the address %d" % (r, v)
        if ok and covered != set(probes):
            ok, why = False, "no path decided for address(es) %s" % sorted(set(probes) - covered)[:3]
    except Unanalysable as e:
        ctx.violation("UNANALYSABLE|get_valid_address", gva.loc(), str(e)[:300])
        ok = None
    if ok is not None:
        ctx.oblig(ok)
        ctx.analysed("get_valid_address: %d paths, boundary values %s" % (npaths, list(probes)))
        if not ok:
            ctx.violation("get_valid_address-bound", gva.loc(), "get_valid_address must return the address exactly when it is below 2^32 and fail otherwise: it %s" % why)


def r2_keyed_storage(ctx, F):
    for name in ("read", "write", "get_value", "get_state_at"):
        fn = F.fn(r"^miden_processor::chiplets::memory::Memory::%s$" % name)
        ctx.inst(key=name, nontrivial=True)
        # the map access (entry / get / get_mut) must be keyed by the ctx parameter (argument 2)
        hits = [(bi, c, t) for bi, c, t in fn.calls() if re.search(r"BTreeMap::(entry|get|get_mut)$", c)]
        ok = False
        for bi, c, t in hits:
            a = t["args"][1]
            sl = fn.backward_slice(a["l"]) if "l" in a else {"args": set()}
            if 2 in sl["args"]:
                ok = True
        ctx.oblig(ok)
        if not ok:
            ctx.violation("memory-not-keyed-by-ctx|%s" % name, fn.loc(), "Memory::%s does not index the per-context map by its ctx parameter" % name)
    # segment read of a vacant address returns INIT_MEM_VALUE (zeros)
    init = F.const(r"^miden_processor::chiplets::memory::INIT_MEM_VALUE$")
    zero = isinstance(init, dict) and all(x == 0 for x in init["fields"])
    ctx.inst(key="INIT_MEM_VALUE", nontrivial=True)
    ctx.oblig(zero)
    if not zero:
        ctx.violation("init-mem-value", "processor/src/chiplets/memory/mod.rs", "INIT_MEM_VALUE is not the zero word: %r" % (init,))
    seg = F.fn(r"^miden_processor::chiplets::memory::segment::MemorySegmentTrace::read$")
    uses = False
    for g in [seg] + [x for x in F.fns.values() if x.id.startswith(seg.id + "::{closure")]:
        uses = uses or any("INIT_MEM_VALUE" in str(o.get("named", "")) for b in g.blocks for s in b["s"] for o in g.rvalue_operands(s["r"]) if isinstance(o, dict))
        uses = uses or any("INIT_MEM_VALUE" in str(a.get("named", "")) for b in g.blocks if b["t"]["k"] == "call" for a in b["t"]["args"])
    ctx.oblig(uses)
    if not uses:
        ctx.violation("vacant-read", seg.loc(), "MemorySegmentTrace::read does not use INIT_MEM_VALUE for a vacant address")
    # write_mem_element keeps elements 1..3 of the old word
    wme = F.fn(r"^miden_processor::chiplets::Chiplets::write_mem_element$")
    ok = False
    for bi, s in [(bi, s) for bi, b in enumerate(wme.blocks) for s in b["s"] if s["r"]["k"] == "agg" and s["r"].get("ak") == "array" and len(s["r"]["ops"]) == 4]:
        ops = s["r"]["ops"]
        idx = []
        for o in ops[1:]:
            o2 = resolve_copy(wme, o)
            ps = o2.get("p") or []
            idx.append(ps[-1].get("cidx", ps[-1].get("idx")) if ps and isinstance(ps[-1], dict) else None)
        first = wme.backward_slice(ops[0]["l"]) if "l" in ops[0] else {"args": set()}
        if 4 in first["args"] or 3 in first["args"]:
            ok = True
            ctx.sample({"write_mem_element word": "[value, old[1], old[2], old[3]]", "tail indices": idx})
    ctx.inst(key="write_mem_element", nontrivial=True)
    ctx.oblig(ok)
    if not ok:
        ctx.violation("element-store-shape", wme.loc(), "write_mem_element must build [value, old[1], old[2], old[3]]")


def r3_context_pairing(ctx, F):
    start = F.fn(r"^miden_processor::decoder::Process::start_call_block$")
    new = start.calls_to(r"ExecutionContextInfo::new$")
    ctx.inst(key="ExecutionContextInfo::new", nontrivial=True)
    if len(new) != 1:
        ctx.violation("ctxinfo-sites", start.loc(), "expected one ExecutionContextInfo::new in start_call_block")
        return
    bi, c, t = new[0]
    want = [r"System::ctx$", r"System::fn_hash$", r"System::fmp$", r"Stack::start_context$", r"Stack::start_context$"]
    for i, pat in enumerate(want):
        a = t["args"][i]
        sl = start.backward_slice(a["l"]) if "l" in a else {"calls": []}
        srcs = [cc for b2, cc, tt in sl["calls"] if cc.startswith("miden_processor::")]
        ok = len(set(srcs)) == 1 and re.search(pat, srcs[0])
        ctx.oblig(ok)
        if not ok:
            ctx.violation("ctxinfo-arg|%d" % i, start.loc(t["ln"]), "argument %d of ExecutionContextInfo::new derives from %s, expected %s" % (i, sorted(set(short(s) for s in srcs)), pat))
    # the constructor stores its parameters in declaration order
    cons = F.fn(r"^miden_processor::decoder::block_stack::ExecutionContextInfo::new$")
    aggs = cons.aggregates(r"ExecutionContextInfo$")
    ok = len(aggs) == 1 and [resolve_copy(cons, o).get("l") for o in aggs[0][1]["r"]["ops"]] == [1, 2, 3, 4, 5] and \
        aggs[0][1]["r"]["fields"] == ["parent_ctx", "parent_fn_hash", "parent_fmp", "parent_stack_depth", "parent_next_overflow_addr"]
    ctx.oblig(ok)
    if not ok:
        ctx.violation("ctxinfo-constructor", cons.loc(), "ExecutionContextInfo::new does not store (ctx, fn_hash, fmp, stack_depth, next_overflow_addr) into the like-named fields")
    # end_call_block restores from the like-named fields, after the depth check
    end = F.fn(r"^miden_processor::decoder::Process::end_call_block$")
    rs = end.calls_to(r"System::restore_context$")
    rk = end.calls_to(r"Stack::restore_context$")
    ctx.inst(key="restore", nontrivial=True)
    if len(rs) != 1 or len(rk) != 1:
        ctx.violation("restore-sites", end.loc(), "end_call_block must restore system and stack context exactly once")
        return
    def field_of(fn, o):
        o = resolve_copy(fn, o)
        fs = place_fields(o) if "l" in o else []
        return fs[-1]["f"] if fs else None
    got = [field_of(end, a) for a in rs[0][2]["args"][1:]]
    ok = got == ["parent_ctx", "parent_fmp", "parent_fn_hash"]
    ctx.oblig(ok)
    if not ok:
        ctx.violation("system-restore-args", end.loc(rs[0][2]["ln"]), "System::restore_context(ctx, fmp, fn_hash) receives fields %s" % got)
    got2 = []
    for a in rk[0][2]["args"][1:]:
        sl = end.backward_slice(a["l"]) if "l" in a else {"fields": set()}
        got2.append(sorted(f for l, f in sl["fields"] if f.startswith("parent_")))
    ok = got2 == [["parent_stack_depth"], ["parent_next_overflow_addr"]]
    ctx.oblig(ok)
    if not ok:
        ctx.violation("stack-restore-args", end.loc(rk[0][2]["ln"]), "Stack::restore_context(depth, next_overflow_addr) receives fields %s" % got2)
    # depth check dominates both restores and rejects depth > 16
    STS = F.const(r"^miden_core::stack::STACK_TOP_SIZE$")
    # `depth > 16` or the mirrored `16 < depth`; the stored branch target is the one taken when the comparison holds
    chk = [c for c in cmp_branches(end) if c["kind"] == "bin" and ((c["op"] == ">" and end.const_of(c["b"]) == STS) or (c["op"] == "<" and end.const_of(c["a"]) == STS))]
    ok = bool(chk) and all(end.dominates(chk[0]["block"], b) for b in (rs[0][0], rk[0][0]))
    if ok:
        reach = end.reachable_blocks(chk[0]["true"])
        ok = any(s["r"].get("variant") == "InvalidStackDepthOnReturn" for b in reach for s in end.blocks[b]["s"] if s["r"]["k"] == "agg") and rs[0][0] not in reach
    ctx.oblig(ok)
    if not ok:
        ctx.violation("return-depth-check", end.loc(), "end_call_block must fail with InvalidStackDepthOnReturn when depth > %d before restoring the caller's context" % STS)
    # Stack::start_context resets active_depth to 16
    sc = F.fn(r"^miden_processor::stack::Stack::start_context$")
    ok = any(place_ends_with_field(s["d"], r"Stack$", "active_depth") and sc.const_of(s["r"]["o"]) == STS for b in sc.blocks for s in b["s"] if s["r"]["k"] == "use")
    ctx.oblig(ok)
    if not ok:
        ctx.violation("start-context-depth", sc.loc(), "Stack::start_context must set active_depth = %d" % STS)


def sys_agg(F, I):
    adt = F.adt(r"^miden_processor::system::System$")
    fields = [f["name"] for f in adt["variants"][0]["fields"]]
    items = []
    for n in fields:
        if n == "clk":
            items.append(Term("clk"))
        elif n == "ctx":
            items.append(Agg([Term("ctx")], "adt", "miden_processor::system::ContextId", "ContextId"))
        elif n == "fmp":
            items.append(Poly.var("fmp"))
        elif n == "in_syscall":
            items.append(False)
        elif n == "fn_hash":
            items.append(Agg([Poly.var("fnh%d" % i) for i in range(4)], "array"))
        else:
            items.append(Opaque("f:" + n))
    return Agg(items, "adt", adt["id"], adt["variants"][0]["name"]), fields


def r5_locals_regions(ctx, F):
    FMP_MIN = F.const(r"^miden_processor::system::FMP_MIN$")
    SYS_MIN = F.const(r"^miden_processor::system::SYSCALL_FMP_MIN$")
    FMP_MAX = F.const(r"^miden_processor::system::FMP_MAX$")
    # documented regions (docs/src/user_docs/assembly/execution_contexts.md)
    txt = open(os.path.join(extract.REPO, "docs/src/user_docs/assembly/execution_contexts.md")).read()
    m1 = re.search(r"address of the first procedure local in `\w+` \(e\.g\., accessed via `loc_load\.0`\) is \$2\^\{(\d+)\}\$", txt)
    m2 = re.search(r"first procedure local of `\w+` is located at address \$2\^\{(\d+)\}\$", txt)
    nreg = len(re.findall(r"The next \$2\^\{30\}\$ words are reserved for memory locals", txt))
    ctx.inst(key="docs", nontrivial=True)
    if not m1 or not m2:
        ctx.violation("ANCHOR-LOST:docs-locals-regions", "docs/src/user_docs/assembly/execution_contexts.md", "the sentences giving the address of the first local (2^30) and of the first syscall local (2^31) were not found")
        return
    d_min, d_sys = 2 ** int(m1.group(1)), 2 ** int(m2.group(1))
    ctx.sample({"FMP_MIN": FMP_MIN, "SYSCALL_FMP_MIN": SYS_MIN, "FMP_MAX": FMP_MAX, "documented_first_local": d_min, "documented_first_syscall_local": d_sys})
    for name, got, want in (("FMP_MIN", FMP_MIN, d_min), ("SYSCALL_FMP_MIN", SYS_MIN, d_sys), ("FMP_MAX", FMP_MAX, 3 * 2 ** 30 - 1)):
        ctx.inst(key=name, nontrivial=True)
        ctx.oblig(got == want)
        if got != want:
            ctx.violation("locals-region|%s" % name, "processor/src/system/mod.rs", "%s = %s but the documented memory layout (execution_contexts.md) requires %s: "
                          "locals of simultaneously live root-context and syscall frames would alias" % (name, got, want))
    ok = FMP_MIN < SYS_MIN <= FMP_MAX
    ctx.oblig(ok)
    if not ok:
        ctx.violation("locals-region-order", "processor/src/system/mod.rs", "need FMP_MIN < SYSCALL_FMP_MIN <= FMP_MAX, got %s, %s, %s" % (FMP_MIN, SYS_MIN, FMP_MAX))
    # start_call / start_syscall / restore_context by abstract interpretation
    for fname, args, checks in (
        ("start_call", lambda: [Agg([Poly.var("nh%d" % i) for i in range(4)], "array")], {"fmp": FMP_MIN, "fn_hash": "arg"}),
        ("start_syscall", lambda: [], {"fmp": SYS_MIN, "in_syscall": True, "ctx": 0}),
        ("restore_context", lambda: [Agg([Term("pctx")], "adt", "miden_processor::system::ContextId", "ContextId"), Poly.var("pfmp"), Agg([Poly.var("ph%d" % i) for i in range(4)], "array")],
         {"fmp": "pfmp", "in_syscall": False, "ctx": "pctx", "fn_hash": "ph"}),
    ):
        I = Interp(F)
        procmodel.install_field(I)
        sysv, fields = sys_agg(F, I)
        fn = F.fn(r"^miden_processor::system::System::%s$" % fname)
        try:
            I.call(fn.id, [Ptr([sysv], 0)] + args())
        except (Unanalysable, PanicReached) as e:
            ctx.violation("UNANALYSABLE|%s" % fname, fn.loc(), str(e))
            continue
        val = dict(zip(fields, sysv.items))
        ctx.inst(key=fname, nontrivial=True)
        for k, want in checks.items():
            got = val[k]
            if k == "fmp":
                ok = isinstance(got, Poly) and (got.const_value() == want if isinstance(want, int) else got == Poly.var(want))
            elif k == "in_syscall":
                ok = got is want
            elif k == "ctx":
                inner = got.items[0] if isinstance(got, Agg) else got
                ok = (inner == want) if isinstance(want, int) else (isinstance(inner, Term) and inner.op == want)
            elif k == "fn_hash":
                ok = isinstance(got, Agg) and all(isinstance(x, Poly) and x.vars() and next(iter(x.vars())).startswith("nh" if want == "arg" else want) for x in got.items)
            ctx.oblig(ok)
            if not ok:
                ctx.violation("system-%s|%s" % (fname, k), fn.loc(), "System::%s leaves %s = %s (expected %s)" % (fname, k, got, want))
    # FMPUPDATE bounds: the handler fails outside [FMP_MIN, FMP_MAX]
    rs = procmodel.run_operation(F, "FmpUpdate")
    guards = [repr(g[0]) for r in rs for g in r.guards]
    ok = any(str(FMP_MIN) in g for g in guards) and any(str(FMP_MAX) in g for g in guards) and any(r.outcome == ("err", "InvalidFmpValue") for r in rs)
    ctx.inst(key="fmpupdate-bounds", nontrivial=True)
    ctx.oblig(ok)
    if not ok:
        ctx.violation("fmpupdate-bounds", "processor/src/operations/sys_ops.rs", "op_fmpupdate does not reject values outside [FMP_MIN, FMP_MAX]: guards %s" % guards)


def r4_syscall_gate(ctx, F):
    fn = F.fn(r"^miden_processor::Process::execute_call_block$")
    gate = blocks_calling(fn, r"Chiplets::access_kernel_proc$")
    start = blocks_calling(fn, r"Process::start_call_block$")
    isq = [(bi, t) for bi, c, t in fn.calls() if c.endswith("Call::is_syscall")]
    ctx.inst(key="gate", nontrivial=True)
    ok = len(gate) == 1 and len(start) == 1 and len(isq) >= 1
    if ok:
        # the is_syscall() == true successor must pass through the gate before start_call_block
        sw = fn.blocks[isq[0][1]["to"]]["t"]
        ok = sw["k"] == "switch"
        if ok:
            true_t = sw["else"]
            reach_wo_gate = fn.reachable_blocks(true_t, avoid=set(gate))
            ok = start[0] not in reach_wo_gate and fn.dominates(isq[0][0], start[0])
            # and the gate's error is propagated
            t = fn.blocks[gate[0]]["t"]
            users = [c for b2, c, t2 in fn.calls() if c.endswith("Try::branch") and any(a.get("l") == t["d"]["l"] for a in t2["args"])]
            ok = ok and bool(users)
    ctx.oblig(ok)
    if not ok:
        ctx.violation("syscall-gate", fn.loc(), "on the syscall path access_kernel_proc(fn_hash)? must run (and its error propagate) before start_call_block")
    # caller instruction: handler fails unless in a syscall
    rs = procmodel.run_operation(F, "Caller")
    errs = [r for r in rs if r.outcome == ("err", "CallerNotInSyscall")]
    oks = [r for r in rs if r.outcome == "ok"]
    ctx.inst(key="caller", nontrivial=True)
    ok = bool(errs) and bool(oks) and all(any("in_syscall" in repr(g[0]) for g in r.guards) for r in errs + oks)
    ctx.oblig(ok)
    if not ok:
        ctx.violation("caller-gate", "processor/src/operations/sys_ops.rs", "op_caller must fail with CallerNotInSyscall exactly when not in a syscall")
    if oks:
        okh = all(all(isinstance(x, Poly) and "fn_hash" in repr(x) for x in r.nxt[:4]) for r in oks)
        ctx.oblig(okh)
        if not okh:
            ctx.violation("caller-value", "processor/src/operations/sys_ops.rs", "op_caller must overwrite the top word with System::fn_hash(): %s" % [str(x) for x in oks[0].nxt[:4]])
    # assembler side: call/syscall forbidden inside a kernel, caller only in a kernel
    for fpat, what in ((r"^miden_assembly::assembler::instruction::env_ops::caller$", "caller outside a kernel"),):
        f = F.fn(fpat)
        ctx.inst(key=fpat, nontrivial=True)
        ok = bool(err_blocks(f)) and any(c.endswith("AssemblyContext::is_kernel") for bi, c, t in f.calls())
        ctx.oblig(ok)
        if not ok:
            ctx.violation("assembler-caller-check", f.loc(), "the assembler must reject %s" % what)
    for name in ("register_local_call", "register_external_call"):
        f = F.fn(r"^miden_assembly::assembler::context::AssemblyContext::%s$" % name)
        ctx.inst(key=name, nontrivial=True)
        fam = family(F, f)
        ok = any(s["r"].get("variant") in ("CallInKernel",) for g in fam for b in g.blocks for s in b["s"] if s["r"]["k"] == "agg") or \
            any(c.endswith("AssemblyError::call_in_kernel") for g in fam for bi, c, t in g.calls())
        ctx.oblig(ok)
        if not ok:
            ctx.violation("call-in-kernel|%s" % name, f.loc(), "%s must reject call/syscall inside a kernel (AssemblyError::call_in_kernel)" % name)


def r6_address_arithmetic(ctx, F):
    """u32 additions on memory addresses (addr + 1, addr + 2) must be checked: an unguarded overflow assert is a panic in debug
    builds and a wrap-around to address 0 in release builds"""
    sites = []
    fns = [F.fn(r"^miden_processor::chiplets::Chiplets::read_mem_double$"), F.fn(r"^miden_processor::chiplets::Chiplets::write_mem_double$"),
           F.fn(r"^miden_processor::operations::io_ops::Process::op_mstream$"), F.fn(r"^miden_processor::operations::io_ops::Process::op_pipe$")]
    for fn in fns:
        for bi, b in enumerate(fn.blocks):
            t = b["t"]
            if t["k"] == "assert" and t["msg"].startswith("overflow+"):
                tys = [fn.d["locals"][o["l"]] for o in t["ops"] if "l" in o and not o.get("p")]
                if any(ty == "u32" for ty in tys):
                    sites.append((fn, bi, t))
    ctx.floor("address-additions", len(sites), 2)
    for fn, bi, t in sites:
        k = fn.const_of(t["ops"][1])
        key = "%s|+%s" % (short(fn.id), k)
        ctx.inst(key=key, nontrivial=True)
        # guarded if dominated by a comparison of the same operand against an upper bound
        a = resolve_copy(fn, t["ops"][0])
        guarded = False
        for c in cmp_branches(fn):
            if c["kind"] == "bin" and c["op"] in ("<", "<=", ">", ">=") and fn.dominates(c["block"], bi):
                for side in ("a", "b"):         # either way round: `x < bound` or `bound > x`
                    x = resolve_copy(fn, c[side])
                    if x.get("l") == a.get("l"):
                        guarded = True
        # or guarded by every caller: the operand is a parameter and each call site is dominated by get_valid_address(addr + k)
        if not guarded and a.get("l") is not None and 1 <= a["l"] <= fn.d["argc"]:
            argno = a["l"] - 1
            callers = [(F.fns[c], bb, tt) for c in F.callers(fn.id) for bb, cc, tt in F.fns[c].calls() if cc == fn.id]
            okc = bool(callers)
            for cf, cb, ct in callers:
                passed = ct["args"][argno]
                src = set(cf.backward_slice(passed["l"], through_calls=False)["locals"]) if "l" in passed else set()
                found = False
                for vb, vc, vt in cf.calls_to(r"get_valid_address$"):
                    if not cf.dominates(vb, cb) or "l" not in vt["args"][0]:
                        continue
                    sl = cf.backward_slice(vt["args"][0]["l"])
                    has_k = any(x.get("c") == k for x in sl["consts"])
                    # the validated value is built from the very value passed as address (same get_valid_address result)
                    shares = bool(set(sl["locals"]) & src) or any(set(cf.backward_slice(l_, through_calls=False)["locals"]) & src for l_ in list(sl["locals"])[:40])
                    if has_k and shares:
                        found = True
                okc = okc and found
            guarded = okc
        ctx.oblig(guarded)
        if not guarded:
            ctx.violation("addr-overflow|%s" % key, fn.loc(t["ln"]),
                          "u32 address addition in %s is unchecked: at address 2^32-%s the debug build panics and the release build wraps around to a low address instead of failing"
                          % (short(fn.id), fn.const_of(t["ops"][1])))


def r7_local_frames(ctx, F):
    """procedure locals: compile_procedure's prologue raises fmp by n = num_locals, so the activation owns the n addresses
    fmp' - n + 1 .. fmp'. For loc_load / loc_loadw / loc_store / loc_storew / locaddr the lowering (extracted with a symbolic
    index and a symbolic n) must accept exactly the indexes 0 <= i < n and add the offset i - (n - 1) to fmp': an index outside
    that range, or another offset, addresses a word of a caller's or callee's frame"""
    from . import lowering, execmodel
    L = lowering.lower_all(F)
    PP = execmodel.P_
    grid = [(n, i) for n in ((1, 2, 7, 65535) if ctx.tier != "thorough" else (1, 2, 3, 4, 7, 8, 255, 256, 1000, 65534, 65535)) for i in sorted({0, n // 2, n - 1})]
    cnt = 0
    for v in ("LocLoad", "LocLoadW", "LocStore", "LocStoreW", "Locaddr"):
        ctx.inst(key=v, nontrivial=True)
        if v not in L:
            ctx.violation("local-instruction-missing|%s" % v, "assembly/src/assembler/instruction/mem_ops.rs", "no lowering for %s" % v)
            continue
        oks = [p for p in L[v].paths if p["outcome"] == "ok"]
        if not oks:
            ctx.violation("local-instruction-missing|%s" % v, "assembly/src/assembler/instruction/mem_ops.rs", "%s has no successful lowering path" % v)
            continue
        for p in oks:
            cnt += 1
            rng = [(c, val) for c, val, l in p["guards"] if isinstance(c, Term) and c.op == "in_range"]
            okr = len(rng) == 1 and rng[0][1] == 1 and "imm_u16" in repr(rng[0][0].args[0])
            if okr:
                kind, lo_, hi_ = rng[0][0].args[1:4]
                for n in ((1, 2, 7, 65535) if ctx.tier != "thorough" else (1, 2, 3, 4, 7, 8, 255, 256, 1000, 65534, 65535)):
                    lo_v, hi_v = execmodel.ev(lo_, {"num_proc_locals": n}), execmodel.ev(hi_, {"num_proc_locals": n})
                    if lo_v != 0 or hi_v is None or hi_v + (1 if kind == "RangeInclusive" else 0) != n:
                        okr = False
            ctx.oblig(okr)
            if not okr:
                ctx.violation("local-index-range|%s" % v, "assembly/src/assembler/instruction/mem_ops.rs",
                              "%s accepts the local index under %s; a procedure with n locals owns exactly the indexes 0 <= i < n (range 0..num_proc_locals, upper bound exclusive)"
                              % (v, [(repr(c), val) for c, val in rng]))
            # the offset added to fmp: the polynomial mentioning num_proc_locals in the pushed value or in the push_felt guards
            cands = []
            for o in p["ops"]:
                for x in (o[1] if isinstance(o[1], tuple) else ()):
                    if isinstance(x, Poly) and "num_proc_locals" in repr(x):
                        cands.append(x)
            for c, val, l in p["guards"]:
                if isinstance(c, Term) and c.op == "eq" and isinstance(c.args[0], Poly) and "num_proc_locals" in repr(c.args[0]):
                    cands.append(c.args[0])
            if not cands or any(repr(x) != repr(cands[0]) for x in cands):
                ctx.violation("UNANALYSABLE|local-offset|%s" % v, "assembly/src/assembler/instruction/mem_ops.rs", "cannot identify the fmp offset of %s: %s" % (v, [repr(x) for x in cands][:3]))
                continue
            q = cands[0]
            bad = None
            for n, i in grid:
                got = execmodel.ev(q, {"imm_u16": i, "num_proc_locals": n})
                if got is None or got % PP != (i - (n - 1)) % PP:
                    bad = (n, i, got)
                    break
            ctx.oblig(bad is None)
            if bad is not None:
                n, i, got = bad
                ctx.violation("local-offset|%s" % v, "assembly/src/assembler/instruction/mem_ops.rs",
                              "%s adds %s to fmp for local %d of %d (offset term %s); the frame of the activation is fmp - n + 1 .. fmp, so local i lives at offset i - (n - 1) = %d" % (v, got if got is None or got < PP // 2 else got - PP, i, n, repr(q), i - (n - 1)))
            ops = [o[0] for o in p["ops"]]
            okf = "FmpAdd" in ops
            ctx.oblig(okf)
            if not okf:
                ctx.violation("local-not-fmp-relative|%s" % v, "assembly/src/assembler/instruction/mem_ops.rs", "%s does not address its local relative to fmp: %s" % (v, ops))
    ctx.floor("local-instruction-lowering-paths", cnt, 15)


def run(ctx, F):
    ctx.trusted += ["rustc MIR via mirfacts", "mirsym + abstract Process model"]
    ctx.assumptions += ["memory contents over histories are not decided; the rules decide which context/address every access uses and how contexts are switched"]
    ctx.run_rule("C07-R1", "every memory access in the operation handlers passes exactly self.system.ctx() as context and an address checked by get_valid_address", r1_ctx_provenance, F)
    ctx.run_rule("C07-R2", "memory map keyed by the ctx parameter; vacant reads give the zero word; element store keeps elements 1..3", r2_keyed_storage, F)
    ctx.run_rule("C07-R3", "context switch pairing: what start_call_block snapshots is what end_call_block restores, after the depth check", r3_context_pairing, F)
    ctx.run_rule("C07-R4", "syscall gate dominates the context switch; caller gated by in_syscall; assembler kernel restrictions", r4_syscall_gate, F)
    ctx.run_rule("C07-R5", "locals regions: FMP_MIN / SYSCALL_FMP_MIN / FMP_MAX equal the documented layout; start_call, start_syscall, restore_context set fmp/ctx/in_syscall/fn_hash accordingly", r5_locals_regions, F)
    ctx.run_rule("C07-R7", "procedure locals: loc_* / locaddr accept exactly the indexes 0 <= i < num_locals and address fmp + i - (num_locals - 1), i.e. a word of the activation's own frame (symbolic index and frame size, offset term evaluated on a boundary grid)", r7_local_frames, F)
    ctx.run_rule("C07-R6", "u32 additions on memory addresses are guarded", r6_address_arithmetic, F)

"""C15 — the cycle limit is enforced exactly (single clock writer, must-pass-through, option validation)."""
import re
from .mirutil import *

LEVEL = "other"
SYS = r"miden_processor::system::System$"


def r1_single_writer(ctx, F):
    adv = F.fn(r"^miden_processor::system::System::advance_clock$")
    ws = field_writes(F, SYS, "clk")
    ctx.floor("writers-of-System.clk", len(ws), 1)
    for fn, bi, s, kind in ws:
        ctx.inst(key=fn.id + kind, nontrivial=True)
        ctx.analysed("%s %s System.clk in %s" % (fn.loc(s["ln"]), kind, fn.id))
        if fn.id != adv.id:
            ctx.violation("clk-writer|%s" % fn.id, fn.loc(s["ln"]),
                          "System.clk is %s outside System::advance_clock: a second clock writer bypasses the cycle-limit comparison"
                          % ("assigned" if kind == "assign" else "mutably borrowed"))
    # the increment is +1
    incs = []
    for bi, b in enumerate(adv.blocks):
        for s in b["s"]:
            r = s["r"]
            if r["k"] == "bin" and r["op"] in ("+?", "+") and "l" in r["a"] and place_ends_with_field(r["a"], SYS, "clk"):
                incs.append((bi, r))
    ctx.inst(key="increment", nontrivial=True)
    if len(incs) != 1 or incs[0][1]["b"].get("c") != 1:
        ctx.violation("clk-increment", adv.loc(), "advance_clock must increment clk by exactly the constant 1 once; found %r" % [i[1] for i in incs])
    # the comparison clk > max_cycles (max_cycles = argument 2), true branch -> Err(CycleLimitExceeded)
    found = None
    for c in cmp_branches(adv):
        if c["kind"] != "bin":
            continue
        a, b = resolve_copy(adv, c["a"]), resolve_copy(adv, c["b"])
        a_clk = "l" in a and place_ends_with_field(a, SYS, "clk")
        b_clk = "l" in b and place_ends_with_field(b, SYS, "clk")
        a_max = a.get("l") == 2 and not a.get("p")
        b_max = b.get("l") == 2 and not b.get("p")
        # normalise to: fail_target when clk > max
        if a_clk and b_max:
            form = {">": ("true", True), "<=": ("false", True), ">=": ("true", False), "<": ("false", False)}.get(c["op"])
        elif a_max and b_clk:
            form = {"<": ("true", True), ">=": ("false", True), "<=": ("true", False), ">": ("false", False)}.get(c["op"])
        else:
            continue
        if form is None:
            continue
        found = (c, form)
    ctx.inst(key="limit-comparison", nontrivial=True)
    if not found:
        ctx.violation("limit-comparison-missing", adv.loc(), "no branch comparing the incremented clk with the max_cycles argument")
        return
    c, (side, strict_ok) = found
    ctx.sample({"fn": adv.id, "comparison": "clk %s max_cycles" % c["op"], "line": c["ln"]})
    if not strict_ok:
        ctx.violation("limit-comparison-off-by-one", adv.loc(c["ln"]),
                      "the limit comparison is not equivalent to `clk > max_cycles` (operator %s): a program needing exactly max_cycles cycles would fail, or one needing max_cycles+1 would pass" % c["op"])
    fail_t = c[side]
    ok_t = c["false" if side == "true" else "true"]
    # the fail target must build CycleLimitExceeded and return Err without any trace write
    fail_reach = adv.reachable_blocks(fail_t)
    builds = any(r["r"].get("variant") == "CycleLimitExceeded" for bi in fail_reach for r in adv.blocks[bi]["s"] if r["r"]["k"] == "agg")
    if not builds:
        ctx.violation("limit-error-variant", adv.loc(c["ln"]), "the clk > max_cycles branch does not construct ExecutionError::CycleLimitExceeded")
    writes_in_fail = [bi for bi in fail_reach if any(re.search(r"IndexMut::index_mut", cal) for b2, cal, t in adv.calls() if b2 == bi)]
    if writes_in_fail:
        ctx.violation("limit-error-writes-trace", adv.loc(c["ln"]), "the failing branch writes a trace column")
    if not (fail_reach & err_blocks(adv)):
        ctx.violation("limit-error-not-returned", adv.loc(c["ln"]), "the clk > max_cycles branch does not return Err")
    # every trace write (index_mut) of the cycle is dominated by the comparison and lies on the ok side
    n = 0
    cols = set()
    ok_reach = adv.reachable_blocks(ok_t)
    for bi, cal, t in adv.calls():
        if re.search(r"IndexMut::index_mut", cal):
            n += 1
            ctx.inst(key="tracewrite%d" % n, nontrivial=False)
            a0 = t["args"][0]
            if "l" in a0:
                cols |= {f for l, f in adv.backward_slice(a0["l"])["fields"] if str(f).endswith("_trace")}
            if not adv.dominates(c["block"], bi) or bi not in ok_reach or bi in fail_reach:
                ctx.violation("trace-write-before-limit-check|%d" % n, adv.loc(t["ln"]), "a trace write in advance_clock is not dominated by the cycle-limit comparison")
    # the anchor is the set of system trace columns written (not the number of syntactic write sites: a loop over the four
    # fn_hash columns is one site)
    ctx.analysed("advance_clock writes the trace columns %s through %d write sites" % (sorted(cols), n))
    ctx.floor("trace-columns-written-in-advance_clock", len(cols), 5)


def r1b_callers(ctx, F):
    sysadv = F.fn(r"^miden_processor::system::System::advance_clock$")
    padv = F.fn(r"^miden_processor::operations::Process::advance_clock$")
    execop = F.fn(r"^miden_processor::operations::Process::execute_op$")
    callers = sorted(F.callers(sysadv.id))
    ctx.inst(key="callers-sys", nontrivial=True)
    ctx.analysed("callers of System::advance_clock: %s" % callers)
    if callers != [padv.id]:
        ctx.violation("system-advance-clock-callers", sysadv.loc(), "System::advance_clock must be called only by Process::advance_clock, callers: %s" % callers)
    callers2 = sorted(F.callers(padv.id))
    ctx.inst(key="callers-proc", nontrivial=True)
    if callers2 != [execop.id]:
        ctx.violation("process-advance-clock-callers", padv.loc(), "Process::advance_clock must be called only by execute_op, callers: %s" % callers2)
    # in Process::advance_clock: system.advance_clock is the first call and its error is propagated; argument = self.max_cycles
    calls = [(bi, cal, t) for bi, cal, t in padv.calls() if cal.startswith("miden_processor::")]
    if not calls or calls[0][1] != sysadv.id:
        ctx.violation("system-clock-not-first", padv.loc(), "Process::advance_clock must call System::advance_clock before advancing stack/chiplets")
    else:
        bi, cal, t = calls[0]
        arg = resolve_copy(padv, t["args"][1])
        if not ("l" in arg and place_ends_with_field(arg, r"Process$", "max_cycles")):
            ctx.violation("max-cycles-argument", padv.loc(t["ln"]), "the limit passed to System::advance_clock is not self.max_cycles")
        # result must be `?`-propagated: dest flows to Try::branch
        users = [c for b2, c, t2 in padv.calls() if c.endswith("Try::branch") and any(a.get("l") == t["d"]["l"] for a in t2["args"])]
        if not users:
            ctx.violation("limit-error-dropped", padv.loc(t["ln"]), "the Result of System::advance_clock is not propagated with `?`")
        for b2, c2, t2 in calls[1:]:
            if not padv.dominates(bi, b2):
                ctx.violation("clock-order", padv.loc(t2["ln"]), "%s not dominated by the limit check" % c2)
    # Process.max_cycles: only written by the struct literal in Process::initialize from ExecutionOptions::max_cycles()
    ws = field_writes(F, r"miden_processor::Process$", "max_cycles")
    for fn, bi, s, kind in ws:
        ctx.violation("max_cycles-writer|%s" % fn.id, fn.loc(s["ln"]), "Process.max_cycles is mutated after construction")
    n = 0
    for fn in F.fns.values():
        for bi, s in fn.aggregates(r"miden_processor::Process$"):
            n += 1
            r = s["r"]
            idx = r["fields"].index("max_cycles")
            sl = fn.backward_slice(r["ops"][idx]["l"]) if "l" in r["ops"][idx] else {"calls": []}
            srcs = [c for b2, c, t in sl["calls"]]
            ctx.inst(key=fn.id, nontrivial=True)
            ctx.analysed("%s Process{max_cycles: <- %s}" % (fn.loc(s["ln"]), srcs))
            if not any(c.endswith("ExecutionOptions::max_cycles") for c in srcs):
                ctx.violation("max_cycles-provenance|%s" % fn.id, fn.loc(s["ln"]), "Process.max_cycles is not taken from ExecutionOptions::max_cycles()")
                continue
            # ... and it is that value itself: the field operand is (through plain copies) the result of the accessor call, not a
            # value computed from it
            dc = def_call(fn, r["ops"][idx])
            dc = dc[2] if dc is not None else None      # ("c", block, terminator)
            exact = dc is not None and dc["f"].get("fn", "").endswith("ExecutionOptions::max_cycles")
            ctx.oblig(exact)
            if not exact:
                how = dc["f"].get("fn", "?") if dc is not None else "a computed value"
                ctx.violation("max_cycles-altered|%s" % fn.id, fn.loc(s["ln"]), "Process.max_cycles is %s over %s, not the configured ExecutionOptions::max_cycles() itself: the enforced limit differs from the requested one"
                              % (how, sorted(set(c.rsplit("::", 2)[-2] + "::" + c.rsplit("::", 1)[-1] for c in srcs))))
    ctx.floor("Process-literals", n, 1)
    getter = F.fn(r"^miden_air::options::ExecutionOptions::max_cycles$")
    ret = [s for b in getter.blocks for s in b["s"] if s["d"]["l"] == 0]
    if not (len(ret) == 1 and ret[0]["r"]["k"] == "use" and place_ends_with_field(ret[0]["r"]["o"], r"ExecutionOptions$", "max_cycles")):
        ctx.violation("max_cycles-getter", getter.loc(), "ExecutionOptions::max_cycles() does not return the field unchanged")


def r2_every_cycle(ctx, F):
    """execute_op advances the clock exactly once on success; every decoder-row producing call in a Process
    method is followed by exactly one execute_op; every loop in an executor contains an execute_op."""
    execop = F.fn(r"^miden_processor::operations::Process::execute_op$")
    padv = r"^miden_processor::operations::Process::advance_clock$"
    mm = count_on_paths(execop, call_weight(execop, padv), avoid=err_blocks(execop) | panic_blocks(execop))
    ctx.inst(key="execute_op", nontrivial=True)
    ctx.sample({"fn": execop.id, "advance_clock calls on Ok paths (min,max)": mm})
    if mm != (1, 1):
        ctx.violation("execute_op-advance-once", execop.loc(), "execute_op must call advance_clock exactly once on every successful path, got (min,max)=%s" % (mm,))
    # ensure_trace_capacity is the first call
    first = [c for bi, c, t in execop.calls() if c.startswith("miden_processor::")][:1]
    if not first or not first[0].endswith("ensure_trace_capacity"):
        ctx.violation("ensure-capacity-first", execop.loc(), "execute_op must call ensure_trace_capacity before executing the operation")
    # row producers
    ROW = r"^miden_processor::decoder::Process::(start_\w+_block|end_\w+_block|respan)$|^miden_processor::decoder::Decoder::(execute_user_op|repeat)$"
    procfns = [f for f in F.fns.values() if f.id.startswith("miden_processor::Process::") and "closure" not in f.id]
    total = 0
    def helper_cycle(f, t):
        """a call to a function of the same file that appends exactly one decoder row and executes exactly one operation on
        every successful path is a self-contained cycle (e.g. a private helper wrapping execute_user_op + execute_op)"""
        g = F.fns.get(t["f"].get("fnx", t["f"].get("fn")))
        if g is None or g.file != f.file or g.id == f.id:
            return False
        av = err_blocks(g) | panic_blocks(g)
        return count_on_paths(g, summary_weight(F, g, ROW), avoid=av) == (1, 1) and \
            count_on_paths(g, summary_weight(F, g, r"^miden_processor::operations::Process::execute_op$"), avoid=av) == (1, 1)

    for f in procfns:
        rows = [(bi, c, t) for bi, c, t in f.calls() if re.search(ROW, c) or helper_cycle(f, t)]
        if not rows:
            continue
        ok_avoid = err_blocks(f) | panic_blocks(f)
        w_rows = call_weight(f, ROW)
        w_exec0 = summary_weight(F, f, r"^miden_processor::operations::Process::execute_op$")
        row_blocks = {b for b, c2, t2 in rows}
        w_exec = lambda b: 0 if b in row_blocks else w_exec0(b)
        for bi, c, t in rows:
            total += 1
            ctx.inst(key=f.id + c, nontrivial=True)
            # between this row producer and the next row producer (or return) exactly one execute_op
            nxt = t["to"]
            ends = set(return_blocks(f)) | {b for b, c2, t2 in rows}
            # count execute_op on paths from nxt to the first following row producer / return
            mm = _count_until(f, nxt, w_exec, ends, ok_avoid)
            callee_does = _callee_executes_op(F, c)
            ctx.analysed("%s %s -> execute_op until next row (min,max)=%s callee_executes=%s" % (f.loc(t["ln"]), short(c), mm, callee_does))
            exp = (0, 0) if callee_does else (1, 1)
            if mm is not None and mm != exp:
                ctx.violation("row-without-cycle|%s|%s" % (f.id, c), f.loc(t["ln"]),
                              "decoder row appended by %s is followed by %s execute_op calls before the next row/return, expected exactly %d: "
                              "the row count and the clock (hence the cycle limit) would disagree" % (short(c), mm, exp[0]))
        # loops in executors contain an execute_op (directly or through a callee that executes ops)
    ctx.floor("decoder-row-call-sites", total, 14)
    # user operations executed only through execute_op_batch
    uo = F.fn(r"^miden_processor::decoder::Decoder::execute_user_op$")
    cs = sorted(F.callers(uo.id))
    ctx.inst(key="execute_user_op-callers", nontrivial=True)
    batch = F.fn(r"^miden_processor::Process::execute_op_batch$")
    fam = {g.id for g in family(F, batch)}
    if not cs or not set(cs) <= fam:
        ctx.violation("execute_user_op-callers", uo.loc(), "Decoder::execute_user_op must be called only from execute_op_batch: %s" % cs)
    # op handlers are called only from execute_op
    handlers = [f for f in F.fns.values() if re.search(r"^miden_processor::operations::\w+::Process::op_\w+$", f.id)]
    ctx.floor("op-handlers", len(handlers), 54)
    for h in handlers:
        ctx.inst(key=h.id)
        bad = [c for c in F.callers(h.id) if c != execop.id and not re.search(r"::Process::op_\w+$", c)]
        if bad:
            ctx.violation("handler-called-outside-execute_op|%s" % h.id, h.loc(), "operation handler called from %s: the operation would run without a clock cycle" % bad)


def _callee_executes_op(F, callee):
    """start_*/end_*/respan in processor/src/decoder/mod.rs call execute_op themselves"""
    f = F.fns.get(callee)
    if not f:
        return False
    mm = count_on_paths(f, summary_weight(F, f, r"^miden_processor::operations::Process::execute_op$"), avoid=err_blocks(f) | panic_blocks(f))
    return mm == (1, 1)


def _count_until(f, start, weight, ends, avoid):
    # temporary view: paths from `start` until the first block in ends (ends excluded from weight)
    class V:
        pass
    nodes = set()
    st = [start]
    while st:
        b = st.pop()
        if b in nodes or b in avoid:
            continue
        nodes.add(b)
        if b in ends:
            continue
        st.extend(f.succs(b))
    # DAG dp with cycle detection
    import functools, sys
    sys.setrecursionlimit(10000)
    memo = {}
    onstack = set()

    def go(b):
        if b in ends:
            return (0, 0)
        if b in memo:
            return memo[b]
        if b in onstack:
            return ("cycle",)
        onstack.add(b)
        res = []
        cyc = False
        for s in f.succs(b):
            if s in avoid or s not in nodes:
                continue
            r = go(s)
            if r is None:
                continue
            if r == ("cycle",):
                cyc = True
                continue
            res.append(r)
        onstack.discard(b)
        if not res:
            out = None
        else:
            w = weight(b)
            out = (min(r[0] for r in res) + w, (INF if cyc and w else max(r[1] for r in res) + w))
        memo[b] = out
        return out
    return go(start)


def r2b_calls_in_decoder(ctx, F):
    """each start_*/end_*/respan wrapper in decoder/mod.rs (impl Process) executes exactly one execute_op on success"""
    ws = F.find(r"^miden_processor::decoder::Process::(start_\w+_block|end_\w+_block|respan)$")
    ctx.floor("decoder-wrappers", len(ws), 13)
    for f in ws:
        mm = count_on_paths(f, call_weight(f, r"Process::execute_op$"), avoid=err_blocks(f) | panic_blocks(f))
        ctx.inst(key=f.id, nontrivial=True)
        ctx.analysed("%s execute_op on Ok paths (min,max)=%s" % (f.id, mm))
        if mm not in ((1, 1), (0, 0)):  # (0,0): the caller must run the cycle, which C15-R2 then demands
            ctx.violation("wrapper-cycle|%s" % f.id, f.loc(), "%s must run exactly one execute_op per decoder row, got %s" % (short(f.id), mm))


def r2c_loops(ctx, F):
    """every CFG cycle in a block executor contains a call that (transitively) reaches execute_op: termination under a finite limit"""
    execs = F.find(r"^miden_processor::Process::execute_\w+$")
    ctx.floor("executors", len(execs), 8)
    reach_exec = set()
    target = "miden_processor::operations::Process::execute_op"
    for f in F.fns.values():
        if f.crate == "miden_processor" and target in F.reachable([f.id]):
            reach_exec.add(f.id)
    for f in execs:
        nodes = f.reachable_blocks(0)
        for comp in sccs(nodes, lambda v: f.succs(v)):
            if len(comp) == 1 and comp[0] not in f.succs(comp[0]):
                continue
            if any(f.blocks[b].get("cleanup") for b in comp):
                continue
            ctx.inst(key=f.id + str(min(comp)), nontrivial=True)
            has = any(c in reach_exec or c == target for bi, c, t in f.calls() if bi in comp)
            # iterator-driven loops over finite collections are bounded by the collection
            iter_loop = any(re.search(r"Iterator::next$|::next$", t["f"].get("decl", "")) for bi, c, t in f.calls() if bi in comp)
            ctx.analysed("%s loop blocks=%s executes_op=%s iterator=%s" % (f.id, sorted(comp)[:6], has, iter_loop))
            if not has and not iter_loop:
                ctx.violation("loop-without-cycle|%s" % f.id, f.loc(), "a loop in %s does not execute any operation: it would not be bounded by the cycle limit" % short(f.id))


def r3_options(ctx, F):
    new = F.fn(r"^miden_air::options::ExecutionOptions::new$")
    MIN = F.const(r"^miden_air::trace::MIN_TRACE_LEN$")
    cmps = [c for c in cmp_branches(new) if c["kind"] == "bin"]
    # locate the aggregate building ExecutionOptions
    aggs = new.aggregates(r"ExecutionOptions$")
    ctx.inst(key="ExecutionOptions::new", nontrivial=True)
    if len(aggs) != 1:
        ctx.violation("options-constructor-shape", new.loc(), "expected one ExecutionOptions literal in new()")
        return
    agg_bi = aggs[0][0]
    want = {"min": False, "expected": False}
    for c in cmps + [m for m in map(mirrored, cmps) if m is not None]:        # `MIN > max_cycles` is the same test as `max_cycles < MIN`
        a, b = resolve_copy(new, c["a"]), resolve_copy(new, c["b"])
        sa = new.backward_slice(a["l"]) if "l" in a else None
        sb = new.backward_slice(b["l"]) if "l" in b else None
        a_is_max = sa is not None and 1 in sa["args"] and 2 not in sa["args"]
        b_is_min = new.const_of(b) == MIN or (sb is not None and any(k.get("c") == MIN for k in sb["consts"]) and not sb["args"])
        b_is_exp = sb is not None and sb["args"] == {2}
        rejecting = bool(new.reachable_blocks(c["true"]) & err_blocks(new)) and agg_bi not in new.reachable_blocks(c["true"])
        if a_is_max and c["op"] == "<" and rejecting and new.dominates(c["block"], agg_bi):
            if b_is_min:
                want["min"] = True
                ctx.sample({"fn": new.id, "check": "max_cycles < MIN_TRACE_LEN(%s) -> Err" % MIN, "line": c["ln"]})
            elif b_is_exp:
                want["expected"] = True
                ctx.sample({"fn": new.id, "check": "max_cycles < expected_cycles -> Err", "line": c["ln"]})
    ctx.oblig(want["min"]); ctx.oblig(want["expected"])
    if not want["min"]:
        ctx.violation("options-min-check", new.loc(), "ExecutionOptions::new lacks a rejecting `max_cycles < MIN_TRACE_LEN` comparison dominating construction")
    if not want["expected"]:
        ctx.violation("options-expected-check", new.loc(), "ExecutionOptions::new lacks a rejecting `max_cycles < expected_cycles` comparison dominating construction")
    # other construction sites of ExecutionOptions: Default only (u32::MAX, MIN_TRACE_LEN)
    n = 0
    for fn in F.fns.values():
        for bi, s in fn.aggregates(r"miden_air::options::ExecutionOptions$"):
            n += 1
            ctx.inst(key="lit" + fn.id, nontrivial=True)
            if fn.id == new.id:
                continue
            r = s["r"]
            vals = dict(zip(r["fields"], [fn.const_of(o) for o in r["ops"]]))
            ok = fn.id.endswith("ExecutionOptions@Default::default") and vals.get("max_cycles") == 4294967295
            ctx.analysed("%s literal ExecutionOptions %s" % (fn.loc(s["ln"]), vals))
            if not ok:
                ctx.violation("options-unvalidated-literal|%s" % fn.id, fn.loc(s["ln"]), "ExecutionOptions built by struct literal outside new()/Default: bypasses the limit validation (%s)" % vals)
    ws = field_writes(F, r"miden_air::options::ExecutionOptions$", "max_cycles") + field_writes(F, r"miden_air::options::ExecutionOptions$", "expected_cycles")
    for fn, bi, s, kind in ws:
        ctx.violation("options-field-mutation|%s" % fn.id, fn.loc(s["ln"]), "ExecutionOptions.max_cycles/expected_cycles mutated after validation")
    ctx.floor("ExecutionOptions-literals", n, 2)


def r3b_limit_stored(ctx, F):
    """ExecutionOptions::new stores the caller's limit unchanged (u32::MAX when None) on every accepting path, and the accessor
    returns the stored field"""
    from .mirsym import Interp, Term, Agg, Ptr, enumerate_paths, Unanalysable, PanicReached
    new = F.fn(r"^miden_air::options::ExecutionOptions::new$")
    adt = F.adt(r"^miden_air::options::ExecutionOptions$")
    fields = [f["name"] for f in adt["variants"][0]["fields"]]
    for given in (True, False):
        arg = Agg([Term("m")], "adt", "core::option::Option", "Some") if given else Agg([], "adt", "core::option::Option", "None")

        def mk():
            I = Interp(F)
            I.havoc = True
            return I
        n_ok = 0
        for I, res, exc in enumerate_paths(mk, lambda I: I.call(new.id, [arg, Term("e"), Term("t")]), max_paths=32):
            if exc is not None:
                if isinstance(exc, Unanalysable):
                    ctx.violation("UNANALYSABLE|ExecutionOptions::new", new.loc(), str(exc)[:300])
                continue
            if not (isinstance(res, Agg) and res.variant == "Ok"):
                continue
            n_ok += 1
            got = dict(zip(fields, res.items[0].items))
            want = "m" if given else str(2**32 - 1)
            ctx.inst(key="stored-limit|given=%s|%d" % (given, n_ok), nontrivial=True)
            ok = repr(got["max_cycles"]) == want or (not given and re.match(r"^max\(4294967295, .*\)$|^max\(.*, 4294967295\)$", repr(got["max_cycles"])) is not None)   # max(u32::MAX, x) = u32::MAX
            ctx.oblig(ok)
            ctx.sample({"max_cycles_argument": "Some(m)" if given else "None", "stored": {k: repr(v)[:60] for k, v in got.items()}})
            if not ok:
                ctx.violation("options-limit-altered|given=%s" % given, new.loc(), "ExecutionOptions::new(%s, e, _) stores max_cycles = %s instead of %s: the enforced limit differs from the requested one"
                              % ("Some(m)" if given else "None", got["max_cycles"], want))
        if n_ok == 0:
            ctx.violation("options-no-accepting-path|given=%s" % given, new.loc(), "no accepting path of ExecutionOptions::new could be analysed")
    acc = F.fn(r"^miden_air::options::ExecutionOptions::max_cycles$")
    v = Agg([Term(n) for n in fields], "adt", adt["id"], adt["variants"][0]["name"])
    r = Interp(F).call(acc.id, [Ptr([v], 0)])
    ctx.inst(key="accessor", nontrivial=True)
    ok = repr(r) == "max_cycles"
    ctx.oblig(ok)
    if not ok:
        ctx.violation("options-accessor", acc.loc(), "ExecutionOptions::max_cycles() returns %s" % (r,))


def run(ctx, F):
    ctx.trusted += ["rustc MIR construction and Instance::try_resolve (nightly)", "mirfacts driver", "vlib rule layer"]
    ctx.assumptions += ["external crates (winterfell, miden-crypto) are not analysed",
                        "decides the wiring of the limit (single clock writer, comparison form, must-pass-through of every decoder row), not a numeric count of cycles"]
    ctx.run_rule("C15-R1", "System.clk has a single writer (advance_clock); comparison equivalent to clk > max_cycles returns CycleLimitExceeded before any trace write", r1_single_writer, F)
    ctx.run_rule("C15-R1b", "who-may-call advance_clock; max_cycles provenance from ExecutionOptions::max_cycles()", r1b_callers, F)
    ctx.run_rule("C15-R2", "every decoder row is paired with exactly one execute_op; execute_op advances the clock exactly once; handlers only via execute_op", r2_every_cycle, F)
    ctx.run_rule("C15-R2b", "decoder wrappers run one execute_op per row", r2b_calls_in_decoder, F)
    ctx.run_rule("C15-R2c", "every loop in a block executor executes an operation (bounded by the limit)", r2c_loops, F)
    ctx.run_rule("C15-R3b", "ExecutionOptions::new stores the requested limit unchanged on every accepting path; the accessor returns it", r3b_limit_stored, F)
    ctx.run_rule("C15-R3", "ExecutionOptions::new has both rejecting comparisons dominating construction; no unvalidated literal", r3_options, F)

"""Symbolic evaluation of the auxiliary-column builders (AuxColumnBuilder::get_requests_at / get_responses_at and their
helpers) on a symbolic main trace: every trace cell is a variable named after its column and row offset, op bits of the
analysed row(s) are fixed to one opcode. Accessors of MainTrace are interpreted from their source."""
import re
from .mirsym import *
from . import procmodel, opmodel

BASE = 2          # analysed row index (rows BASE-2 .. BASE+2 are addressable)
SUF = {-2: "~2", -1: "~1", 0: "", 1: "'", 2: "''", 3: "'''"}


class SymCol(Opaque):
    def __init__(self, model, col):
        Opaque.__init__(self, "col%s" % col)
        self.model, self.col = model, col

    def sym_at(self, idx):
        return Ptr([self.model.cell(self.col, idx)], 0)


class AuxModel:
    def __init__(self, F):
        self.F = F
        C = lambda pat: (lambda c: c["val"] if isinstance(c, dict) and "val" in c else c)(F.const(pat))
        self.DEC = C(r"^miden_air::trace::DECODER_TRACE_OFFSET$")
        self.STK = C(r"^miden_air::trace::STACK_TRACE_OFFSET$")
        self.CHP = C(r"^miden_air::trace::CHIPLETS_OFFSET$")
        self.names = self.col_names(C)
        self.fixed = {}
        self.touched = set()

    def col_names(self, C):
        n = {C(r"^miden_air::trace::CLK_COL_IDX$"): "clk", C(r"^miden_air::trace::FMP_COL_IDX$"): "fmp", C(r"^miden_air::trace::CTX_COL_IDX$"): "ctx"}
        fh = C(r"^miden_air::trace::FN_HASH_OFFSET$")
        for i in range(4):
            n[fh + i] = "fnh%d" % i
        D = self.DEC
        n[D] = "a"
        for i in range(7):
            n[D + 1 + i] = "bit%d" % i
        hs = D + C(r"^miden_air::trace::decoder::HASHER_STATE_OFFSET$")
        for i in range(8):
            n[hs + i] = "h%d" % i
        n[D + C(r"^miden_air::trace::decoder::IN_SPAN_COL_IDX$")] = "sp"
        n[D + C(r"^miden_air::trace::decoder::GROUP_COUNT_COL_IDX$")] = "gc"
        n[D + C(r"^miden_air::trace::decoder::OP_INDEX_COL_IDX$")] = "ox"
        bf = D + C(r"^miden_air::trace::decoder::OP_BATCH_FLAGS_OFFSET$")
        for i in range(3):
            n[bf + i] = "bc%d" % i
        ex = D + C(r"^miden_air::trace::decoder::OP_BITS_EXTRA_COLS_OFFSET$")
        n[ex], n[ex + 1] = "e0", "e1"
        for i in range(16):
            n[self.STK + i] = "s%d" % i
        n[self.STK + 16], n[self.STK + 17], n[self.STK + 18] = "b0", "b1", "hs0"
        W = C(r"^miden_air::trace::TRACE_WIDTH$")
        for c in range(self.CHP, W):
            n.setdefault(c, "chip%d" % (c - self.CHP))
        for c in range(W):
            n.setdefault(c, "col%d" % c)
        self.bitcols = [D + 1 + i for i in range(7)]
        self.extracols = [ex, ex + 1]
        self.hasher_cols = [hs + i for i in range(8)]
        return n

    def cell(self, col, row):
        if not isinstance(col, int):
            raise Unanalysable("symbolic trace column %r" % (col,))
        if not isinstance(row, int):
            # a row computed from trace values (e.g. a hasher address): a cell of that column at a data-dependent row
            self.touched.add((col, "sym"))
            return Poly.var("%s[%s]" % (self.names.get(col, "col%d" % col), re.sub(r"\s+", "", repr(row))[:60]))
        self.touched.add((col, row - BASE))
        if (col, row - BASE) in self.fixed:
            return Poly.const(self.fixed[(col, row - BASE)])
        off = row - BASE
        return Poly.var(self.names.get(col, "col%d" % col) + (SUF[off] if off in SUF else "@%+d" % off))

    def fix_opcode(self, opcode, off=0):
        bits = [(opcode >> i) & 1 for i in range(7)]
        for c, b in zip(self.bitcols, bits):
            self.fixed[(c, off)] = b
        self.fixed[(self.extracols[0], off)] = bits[6] * (1 - bits[5]) * bits[4]
        self.fixed[(self.extracols[1], off)] = bits[6] * bits[5]

    def interp(self):
        I = Interp(self.F)
        procmodel.install_field(I)
        add = lambda rx, m: I.overrides.append((re.compile(rx), m))
        add(r"ColMatrix::get_column$", lambda I, a, f: Ptr([SymCol(self, a[1])], 0))
        add(r"ColMatrix::get$", lambda I, a, f: self.cell(a[1], a[2]))
        add(r"ColMatrix::num_rows$", lambda I, a, f: Term("num_rows"))
        def as_int(I, a, f):
            x = deref(a[0])
            if isinstance(x, Poly) and x.const_value() is not None:
                return x.const_value()
            return Term("as_int", x)
        I.overrides.insert(0, (re.compile(r"BaseElement::as_int$|BaseElement@StarkField::as_int$"), as_int))
        add(r"::mul_base$", lambda I, a, f: a[0] * a[1])
        add(r"::mul_small$", lambda I, a, f: a[0] * Poly.const(a[1]) if isinstance(a[1], int) else a[0] * a[1])
        add(r"MainTrace@Deref::deref$", lambda I, a, f: Ptr([deref(a[0]).items[0]], 0))
        return I

    def alphas(self):
        return SlicePtr([Poly.var("alpha%d" % i) for i in range(16)], 0, 16)

    def main_trace(self):
        adt = self.F.adt(r"^miden_air::trace::main_trace::MainTrace$")
        return Agg([Opaque("columns")], "adt", adt["id"], adt["variants"][0]["name"])

    def eval(self, fid, opcode=None, next_opcode=None, extra_fixed=None, args=None, row=BASE, max_paths=64, selfv=None):
        """all syntactic paths of an aux-builder function: list of (guards, value) ; args: extra arguments after (main_trace, ...)"""
        self.fixed = {}
        if opcode is not None:
            self.fix_opcode(opcode, 0)
        if next_opcode is not None:
            self.fix_opcode(next_opcode, 1)
        self.fixed.update(extra_fixed or {})
        self.touched = set()
        out = []

        def run(I):
            mt = Ptr([self.main_trace()], 0)
            if args is not None:
                return I.call(fid, args(mt, self.alphas(), row))
            return I.call(fid, [Ptr([selfv if selfv is not None else Agg([], "adt", "builder", "builder")], 0), mt, self.alphas(), row])
        for I, res, exc in enumerate_paths(self.interp, run, max_paths=max_paths):
            if exc is not None:
                if isinstance(exc, PanicReached) and not path_feasible(I.path):
                    continue
                out.append((list(I.path), exc))
            else:
                if not path_feasible(I.path):
                    continue
                out.append((list(I.path), res))
        return out

"""Bit-level symbolic execution of straight-line MASM (the fixed-length hash procedures of stdlib/asm/crypto/hashes) into a
canonical form, for comparison with reference definitions of the hash functions written over the same value domain.

Values
  BV     a 32-bit word: 32 bit expressions (LSB first). A bit expression is a polynomial over GF(2) in algebraic normal form:
         a frozenset of monomials, a monomial a frozenset of atom ids (XOR = symmetric difference, AND = product,
         NOT x = x + 1). Bitwise instructions, shifts and rotations are exact in this form, and the form is canonical: two bit
         expressions are the same boolean function iff they are the same set.
  ADD    addition modulo 2^32 is not expanded (carries would explode): the sum of a multiset of words plus a constant is a
         node, hash-consed by the canonical forms of its operands (nested sums are flattened, constants folded); its 32
         result bits are fresh atoms. Both sides of a comparison obtain the *same* atoms for the same sum.
  CUT    a bit expression with more than CUT_SIZE monomials is replaced by a fresh atom hash-consed by the expression (keeps
         Keccak's 24 rounds from exploding: the degree doubles in every chi step). A cut never merges different functions.
  Addr   (activation, word offset) of a procedure local, produced by locaddr and moved by add/sub of constants.

Nothing is executed concretely: every input word is 32 fresh atoms, so equality of the final canonical forms is equality of
the two functions for all inputs (up to the uninterpreted sums, which are matched structurally)."""
import re
from .masm import Module, MasmError, Undecided

ZERO = frozenset()
ONE = frozenset([frozenset()])
CUT_SIZE = 40
M32 = 2 ** 32 - 1


def bxor(a, b):
    return a ^ b


def band(a, b):
    if not a or not b:
        return ZERO
    if a == ONE:
        return b
    if b == ONE:
        return a
    if len(a) > len(b):
        a, b = b, a
    out = set()
    for m1 in a:
        for m2 in b:
            m = m1 | m2
            if m in out:
                out.discard(m)
            else:
                out.add(m)
    return frozenset(out)


class BV:
    __slots__ = ("bits",)

    def __init__(self, bits):
        self.bits = tuple(bits)

    @staticmethod
    def const(c):
        return BV([ONE if (c >> i) & 1 else ZERO for i in range(32)])

    def const_value(self):
        v = 0
        for i, b in enumerate(self.bits):
            if b == ONE:
                v |= 1 << i
            elif b != ZERO:
                return None
        return v

    def key(self):
        return self.bits

    def __eq__(self, o):
        return isinstance(o, BV) and self.bits == o.bits

    def __hash__(self):
        return hash(self.bits)

    def __repr__(self):
        c = self.const_value()
        if c is not None:
            return "0x%08x" % c
        return "bv<%d monomials>" % sum(len(b) for b in self.bits)


class Addr:
    __slots__ = ("frame", "off")

    def __init__(self, frame, off):
        self.frame, self.off = frame, off

    def __repr__(self):
        return "addr(%s+%d)" % (self.frame, self.off)

    def __eq__(self, o):
        return isinstance(o, Addr) and (self.frame, self.off) == (o.frame, o.off)

    def __hash__(self):
        return hash((self.frame, self.off))


class Ctx:
    """atom registry shared by the implementation run and the reference run"""
    def __init__(self):
        self.n = 0
        self.cuts = {}       # expression -> atom id
        self.defs = {}       # atom id -> expression
        self.gen = {}        # cut atom id -> generation (1 + newest generation among the atoms of its definition)
        self.sums = {}       # (operand keys, const) -> base atom id
        self.sum_of = {}     # base atom id -> (operands, const)
        self.names = {}
        self.stats = {"cuts": 0, "sums": 0}

    def fresh(self, k=1, name=None):
        base = self.n
        self.n += k
        if name:
            self.names[base] = name
        return base

    def input_word(self, name):
        base = self.fresh(32, name)
        return BV([frozenset([frozenset([base + i])]) for i in range(32)])

    def gen_of(self, a):
        return self.gen.get(a, 0)

    def expand(self, e, atoms):
        """substitute the definitions of the given cut atoms"""
        out = set()
        for m in e:
            hit = [a for a in m if a in atoms]
            if not hit:
                term = frozenset([m])
            else:
                term = frozenset([frozenset(a for a in m if a not in atoms)])
                for a in hit:
                    term = band(term, self.defs[a])
            for mm in term:
                if mm in out:
                    out.discard(mm)
                else:
                    out.add(mm)
        return frozenset(out)

    def cut_bit(self, e):
        """name a large expression by an atom hash-consed by the expression itself (ANF is canonical: equal functions of the
        same atoms obtain the same atom whatever way they were computed). Before that, named temporaries are dissolved: when
        the expression mixes cut atoms of the newest generation with older atoms, the newest ones are replaced by their
        definitions, so that a value is always named as a function of the previous generation only - independent of which
        intermediate results the implementation happened to store"""
        for _ in range(4):
            named = [a for m in e for a in m if a in self.defs]
            if not named:
                break
            g = max(self.gen_of(a) for a in named)
            others = [a for m in e for a in m if self.gen_of(a) < g]
            if not others:
                break
            e = self.expand(e, {a for a in named if self.gen_of(a) == g})
        if len(e) <= CUT_SIZE:
            return e
        a = self.cuts.get(e)
        if a is None:
            a = self.fresh()
            self.cuts[e] = a
            self.defs[a] = e
            self.gen[a] = 1 + max([self.gen_of(x) for m in e for x in m] or [0])
            self.stats["cuts"] += 1
        return frozenset([frozenset([a])])

    def cut(self, w):
        return BV([self.cut_bit(b) for b in w.bits])

    # ---- word operations
    def xor(self, a, b):
        return BV([x ^ y for x, y in zip(a.bits, b.bits)])

    def and_(self, a, b):
        return BV([band(x, y) for x, y in zip(a.bits, b.bits)])

    def not_(self, a):
        return BV([x ^ ONE for x in a.bits])

    def or_(self, a, b):
        return BV([x ^ y ^ band(x, y) for x, y in zip(a.bits, b.bits)])

    def rotr(self, a, n):
        n %= 32
        return BV([a.bits[(i + n) % 32] for i in range(32)])

    def rotl(self, a, n):
        return self.rotr(a, (32 - n) % 32)

    def shr(self, a, n):
        return BV([a.bits[i + n] if i + n < 32 else ZERO for i in range(32)])

    def shl(self, a, n):
        return BV([a.bits[i - n] if i - n >= 0 else ZERO for i in range(32)])

    def _as_sum(self, w):
        """operands of w if w is exactly the result word of a sum node"""
        b0 = w.bits[0]
        if len(b0) != 1:
            return None
        (m,) = b0
        if len(m) != 1:
            return None
        (a0,) = m
        if a0 not in self.sum_of:
            return None
        for i in range(32):
            if w.bits[i] != frozenset([frozenset([a0 + i])]):
                return None
        return self.sum_of[a0]

    def add(self, words):
        """sum modulo 2^32 of the given words. A sum is kept as a linear combination (multiplicities modulo 2^32) of words that
        are not themselves sums, plus a constant: nested sums are merged, so the representation is independent of how the
        additions were grouped and does not grow with the nesting depth"""
        const = 0
        comb = {}           # key -> [word, multiplicity]
        for w in words:
            c = w.const_value()
            if c is not None:
                const = (const + c) & M32
                continue
            s = self._as_sum(w)
            if s is not None:
                for k, (bw, mult) in s[0].items():
                    e = comb.setdefault(k, [bw, 0])
                    e[1] = (e[1] + mult) & M32
                const = (const + s[1]) & M32
                continue
            e = comb.setdefault(w.key(), [w, 0])
            e[1] = (e[1] + 1) & M32
        comb = {k: v for k, v in comb.items() if v[1]}
        if not comb:
            return BV.const(const)
        if len(comb) == 1 and const == 0:
            (bw, mult), = comb.values()
            if mult == 1:
                return bw
        key = (frozenset((k, v[1]) for k, v in comb.items()), const)
        base = self.sums.get(key)
        if base is None:
            base = self.fresh(32)
            self.sums[key] = base
            self.sum_of[base] = ({k: (v[0], v[1]) for k, v in comb.items()}, const)
            self.stats["sums"] += 1
        return BV([frozenset([frozenset([base + i])]) for i in range(32)])


    # ---- concrete evaluation of a symbolic word (used only to confirm a reported difference with a witness input)
    def evaluate(self, w, env, memo=None):
        """value of the word under env (input atom id -> 0/1); cut atoms through their definitions, sum atoms through the
        sum of their operands"""
        memo = memo if memo is not None else {}

        def atom(a):
            if a in env:
                return env[a]
            if a in memo:
                return memo[a]
            if a in self.defs:
                r = bit(self.defs[a])
            else:
                base = max(b for b in self.sum_of if b <= a)
                comb, const = self.sum_of[base]
                tot = const
                for k, (bw, mult) in comb.items():
                    tot = (tot + mult * word(bw)) & M32
                for i in range(32):
                    memo[base + i] = (tot >> i) & 1
                return memo[a]
            memo[a] = r
            return r

        def bit(e):
            t = 0
            for m in e:
                p_ = 1
                for a in m:
                    if not atom(a):
                        p_ = 0
                        break
                t ^= p_
            return t

        def word(x):
            return sum(bit(x.bits[i]) << i for i in range(32))
        return word(w)


class Exec:
    def __init__(self, module, ctx, move_table):
        self.m, self.c, self.move_table = module, ctx, move_table
        self.frames = 0
        self.mem = {}           # (frame, word offset) -> [4 values] in stack order (index 0 = top of the stack after a
                                # word load = element 3 of the memory word; mem_load / mem_store access element 0 = index 3)
        self.steps = 0

    def new_frame(self):
        self.frames += 1
        return self.frames

    def move(self, stack, name):
        exp = self.move_table(name)
        if exp is None or "ok" not in exp:
            return False
        n = 32
        while len(stack) < n + 8:
            stack.append(None)
        new = []
        for x in exp["ok"]:
            if x.const_value() == 0:
                new.append(BV.const(0))
            else:
                (v,) = x.vars()
                new.append(stack[int(v[1:])])
        stack[:] = new + stack[n:]
        return True

    def run(self, name, stack):
        self.block(self.m.procs[name].body, stack, self.new_frame(), name, 0)
        return stack

    def block(self, body, stack, frame, pname, depth):
        for node in body:
            if node[0] == "ins":
                self.step(node[1], node[2], stack, frame, pname, depth)
            elif node[0] == "repeat":
                for _ in range(node[1]):
                    self.block(node[2], stack, frame, pname, depth)
            else:
                raise Undecided("%s:%d: control flow %s in %s is not supported by the bit-level executor" % (self.m.path, node[-1] if isinstance(node[-1], int) else 0, node[0], pname))

    def word_at(self, a, ln):
        if not isinstance(a, Addr):
            raise Undecided("%s:%d: memory access through %r (not a procedure-local address)" % (self.m.path, ln, a))
        k = (a.frame, a.off)
        if k not in self.mem:
            raise Undecided("%s:%d: read of local word %d before it is written" % (self.m.path, ln, a.off))
        return self.mem[k]

    def u32(self, v, ins, ln):
        if not isinstance(v, BV):
            raise Undecided("%s:%d: operand of %s is %r" % (self.m.path, ln, ins, v))
        return v

    def step(self, ins, ln, stack, frame, pname, depth):
        self.steps += 1
        c = self.c
        parts = ins.split(".")
        op, imm = parts[0], parts[1:]
        while len(stack) < 40:
            stack.append(None)
        if op == "exec":
            name = ".".join(imm)
            if "::" in name or name not in self.m.procs:
                raise Undecided("%s:%d: exec of %s" % (self.m.path, ln, name))
            if depth > 12:
                raise Undecided("exec nesting too deep")
            self.block(self.m.procs[name].body, stack, self.new_frame(), name, depth + 1)
            return
        fam = {"dup": "Dup", "swap": "Swap", "movup": "MovUp", "movdn": "MovDn", "dupw": "DupW", "swapw": "SwapW", "movupw": "MovUpW", "movdnw": "MovDnW"}
        if op in fam:
            default = {"dup": 0, "swap": 1, "dupw": 0, "swapw": 1}.get(op)
            n = int(imm[0]) if imm else default
            if not self.move(stack, "%s%d" % (fam[op], n)):
                raise Undecided("%s:%d: no model for %s" % (self.m.path, ln, ins))
            return
        if op in ("drop", "dropw", "padw", "swapdw"):
            self.move(stack, {"drop": "Drop", "dropw": "DropW", "padw": "PadW", "swapdw": "SwapDw"}[op])
            return
        if op == "push":
            for x in imm:
                stack.insert(0, BV.const(int(x, 16) if x.startswith("0x") else int(x)))
            return
        if op == "locaddr":
            stack.insert(0, Addr(frame, int(imm[0])))
            return
        if op in ("add", "sub"):
            b = BV.const(int(imm[0])) if imm else stack.pop(0)
            a = stack.pop(0)
            sign = 1 if op == "add" else -1
            for x, y in ((a, b), (b, a)):
                if isinstance(x, Addr) and isinstance(y, BV) and y.const_value() is not None and (sign == 1 or x is a):
                    stack.insert(0, Addr(x.frame, x.off + sign * y.const_value()))
                    return
            if isinstance(a, BV) and isinstance(b, BV) and a.const_value() is not None and b.const_value() is not None:
                stack.insert(0, BV.const((a.const_value() + sign * b.const_value()) & M32))
                return
            raise Undecided("%s:%d: field %s of %r and %r" % (self.m.path, ln, op, a, b))
        # ---- memory (word granularity; mem_load / mem_store access element 0 of the word)
        if op in ("loc_storew", "mem_storew"):
            a = Addr(frame, int(imm[0])) if op == "loc_storew" else (stack.pop(0) if not imm else None)
            if not isinstance(a, Addr):
                raise Undecided("%s:%d: %s through %r" % (self.m.path, ln, op, a))
            self.mem[(a.frame, a.off)] = [c.cut(v) if isinstance(v, BV) else v for v in stack[:4]]
            return
        if op in ("loc_loadw", "mem_loadw"):
            a = Addr(frame, int(imm[0])) if op == "loc_loadw" else (stack.pop(0) if not imm else None)
            stack[:4] = list(self.word_at(a, ln))
            return
        if op in ("loc_store", "mem_store"):
            a = Addr(frame, int(imm[0])) if op == "loc_store" else (stack.pop(0) if not imm else None)
            if not isinstance(a, Addr):
                raise Undecided("%s:%d: %s through %r" % (self.m.path, ln, op, a))
            v = stack.pop(0)
            w = list(self.mem.get((a.frame, a.off), [None] * 4))
            w[3] = c.cut(v) if isinstance(v, BV) else v       # element 0 of the memory word = 4th item in stack order
            self.mem[(a.frame, a.off)] = w
            return
        if op in ("loc_load", "mem_load"):
            a = Addr(frame, int(imm[0])) if op == "loc_load" else (stack.pop(0) if not imm else None)
            v = self.word_at(a, ln)[3]
            if v is None:
                raise Undecided("%s:%d: read of an unwritten element" % (self.m.path, ln))
            stack.insert(0, v)
            return
        # ---- u32 instructions
        if op in ("u32xor", "u32and", "u32or"):
            b = self.u32(stack.pop(0), ins, ln)
            a = self.u32(stack.pop(0), ins, ln)
            stack.insert(0, {"u32xor": c.xor, "u32and": c.and_, "u32or": c.or_}[op](a, b))
            return
        if op == "u32not":
            stack.insert(0, c.not_(self.u32(stack.pop(0), ins, ln)))
            return
        if op in ("u32rotr", "u32rotl", "u32shr", "u32shl"):
            if imm:
                n = int(imm[0])
            else:
                nb = stack.pop(0)
                n = nb.const_value() if isinstance(nb, BV) else None
                if n is None:
                    raise Undecided("%s:%d: %s by a symbolic amount" % (self.m.path, ln, op))
            a = self.u32(stack.pop(0), ins, ln)
            if not 0 <= n <= 31:
                raise Undecided("%s:%d: %s by %d" % (self.m.path, ln, op, n))
            stack.insert(0, {"u32rotr": c.rotr, "u32rotl": c.rotl, "u32shr": c.shr, "u32shl": c.shl}[op](a, n))
            return
        if op in ("u32wrapping_add", "u32overflowing_add"):
            b = BV.const(int(imm[0])) if imm else self.u32(stack.pop(0), ins, ln)
            a = self.u32(stack.pop(0), ins, ln)
            stack.insert(0, c.add([a, b]))
            if op == "u32overflowing_add":
                stack.insert(0, ("carry", ln))
            return
        if op in ("u32wrapping_add3", "u32overflowing_add3"):
            x = [self.u32(stack.pop(0), ins, ln) for _ in range(3)]
            stack.insert(0, c.add(x))
            if op == "u32overflowing_add3":
                stack.insert(0, ("carry", ln))
            return
        if op in ("u32assert", "u32assert2", "u32assertw"):
            return
        raise Undecided("%s:%d: instruction %s is outside the bit-level executor" % (self.m.path, ln, ins))

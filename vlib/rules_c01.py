"""C01 — every successful execution is provable and its proof verifies: the structural necessary conditions.
R1 preset option sets of the prover are members of the verifier's accepted set for the same hash function
R2 security floors of the presets computed from their constants
R3 prover and verifier instantiate the same (hasher, random coin) per hash tag; the proof is tagged with the options' hash function
R4 the statement handed to the prover is the one execution reported (program info of the trace, inputs, outputs of the trace)
R5 declared transition-constraint degrees / counts equal those of the constraint polynomials; declared assertion counts
   equal the number of assertions produced, for every statement shape; exemptions = random rows + 1"""
import re
from .mirutil import *
from .mirsym import *
from .facts import strip_targs

LEVEL = "other"
HASHERS = {"Blake3_192": 96, "Blake3_256": 128, "Rpo256": 128}   # collision resistance in bits (miden-crypto, external)
EXT_DEGREE = {1: 1, 2: 2, 3: 3}                                   # FieldExtension discriminant -> extension degree
PRESETS = {("with_96_bit_security", False): 96, ("with_96_bit_security", True): 96, ("with_128_bit_security", False): 128, ("with_128_bit_security", True): 128}


def hasher_name(s):
    m = re.search(r"Blake3_192|Blake3_256|Rpo256|chiplets::hasher::Hasher", s or "")
    if not m:
        return None
    return "Rpo256" if m.group(0).endswith("Hasher") else m.group(0)


def arms_of(fn, call_pat):
    """map enum discriminant -> (block, callee, term) of the unique call matching call_pat reachable only through that arm of a
    switch: found as the switch whose arm targets partition the matching call blocks"""
    calls = fn.calls_to(call_pat)
    cb = {bi: (bi, c, t) for bi, c, t in calls}
    best = None
    for bi, b in enumerate(fn.blocks):
        t = b["t"]
        if t["k"] != "switch" or len(t["arms"]) < 2:
            continue
        m = {}
        for val, tgt in t["arms"]:
            r = fn.reachable_blocks(tgt) & set(cb)
            m[val] = r
        if all(len(r) == 1 for r in m.values()) and len({min(r) for r in m.values()}) == len(m) == len(cb):
            best = {val: cb[min(r)] for val, r in m.items()}
    return best


def exclusive_region(fn, target, others):
    """blocks from which `target` is reachable but none of `others` is"""
    out = set()
    for bi in range(len(fn.blocks)):
        r = fn.reachable_blocks(bi)
        if target in r and not (r & set(others)):
            out.add(bi)
    return out


def verifier_arms(F):
    v = F.fn(r"^miden_verifier::verify$")
    arms = arms_of(v, r"^winter_verifier::verify$")
    if arms is None:
        return v, None
    out = {}
    blocks = [x[0] for x in arms.values()]
    for discr, (bi, c, t) in arms.items():
        ga = t["f"].get("ga") or []
        region = exclusive_region(v, bi, [b for b in blocks if b != bi])
        consts, optset = [], False
        for r_ in region:
            for s in v.blocks[r_]["s"]:
                r = s["r"]
                if r["k"] == "agg":
                    if str(r.get("adt", "")).endswith("AcceptableOptions"):
                        optset = optset or r.get("variant") == "OptionSet"
                    for o in r["ops"]:
                        if "c" in o and str(o.get("ty", "")).endswith("ProofOptions"):
                            consts.append((o.get("named"), tuple(o["c"]["fields"])))
                elif r["k"] == "use" and "c" in r["o"] and str(r["o"].get("ty", "")).endswith("ProofOptions"):
                    consts.append((r["o"].get("named"), tuple(r["o"]["c"]["fields"])))
        out[discr] = {"hasher": hasher_name(ga[1] if len(ga) > 1 else ""), "coin": ga[2] if len(ga) > 2 else "", "options": consts, "optionset": optset, "ln": t["ln"], "air": ga[0] if ga else ""}
    return v, out


def prover_arms(F):
    p = F.fn(r"^miden_prover::prove$")
    arms = arms_of(p, r"^miden_prover::ExecutionProver::new$")
    if arms is None:
        return p, None
    return p, {d: {"hasher": hasher_name((t["f"].get("ga") or [""])[0]), "coin": (t["f"].get("ga") or ["", ""])[1], "ln": t["ln"], "args": t["args"]} for d, (bi, c, t) in arms.items()}


def check_option_constants(ctx, F):
    """the accepted option sets: per hash tag exactly the documented constants, as an OptionSet"""
    hf = F.adt(r"miden_air::proof::HashFunction$")
    names = {int(v["discr"]): v["name"] for v in hf["variants"]}
    v, arms = verifier_arms(F)
    ctx.inst(key="verifier-arms", nontrivial=True)
    ok = arms is not None and set(arms) == set(names)
    ctx.oblig(ok)
    if not ok:
        ctx.violation("verifier-arms", v.loc(), "verify() does not dispatch one winter verify call per HashFunction variant")
        return None
    want = {"Blake3_192": ["REGULAR_96_BITS"], "Blake3_256": ["REGULAR_128_BITS"], "Rpo256": ["RECURSIVE_96_BITS", "RECURSIVE_128_BITS"]}
    for d, a in arms.items():
        n = names[d]
        ctx.inst(key="accepted|%s" % n, nontrivial=True)
        got = sorted((c[0] or "?").rsplit("::", 1)[-1] for c in a["options"])
        ok = got == sorted(want.get(n, [])) and a["optionset"]
        ctx.oblig(ok)
        if not ok:
            ctx.violation("option-set|%s" % n, v.loc(a["ln"]), "for proofs tagged %s verify() accepts %s%s; the documented set is %s as AcceptableOptions::OptionSet"
                          % (n, got, "" if a["optionset"] else " (not as an OptionSet)", want.get(n)))
        okh = a["hasher"] == n and (("Rpo" in a["coin"]) == (n == "Rpo256")) and a["air"].endswith("ProcessorAir")
        ctx.oblig(okh)
        if not okh:
            ctx.violation("verifier-hasher|%s" % n, v.loc(a["ln"]), "proofs tagged %s are verified with hasher %s / coin %s / air %s" % (n, a["hasher"], a["coin"], a["air"]))
    return arms


def check_prover_dispatch(ctx, F):
    hf = F.adt(r"miden_air::proof::HashFunction$")
    names = {int(v["discr"]): v["name"] for v in hf["variants"]}
    p, pa = prover_arms(F)
    v, va = verifier_arms(F)
    ctx.inst(key="prover-arms", nontrivial=True)
    ok = pa is not None and va is not None and set(pa) == set(names)
    ctx.oblig(ok)
    if not ok:
        ctx.violation("prover-arms", p.loc(), "prove() does not build one ExecutionProver per HashFunction variant")
        return
    for d, a in pa.items():
        n = names[d]
        ctx.inst(key="dispatch|%s" % n, nontrivial=True)
        ok = a["hasher"] == n == va[d]["hasher"] and ("Rpo" in a["coin"]) == ("Rpo" in va[d]["coin"]) == (n == "Rpo256")
        ctx.oblig(ok)
        if not ok:
            ctx.violation("hasher-dispatch|%s" % n, p.loc(a["ln"]), "for %s the prover uses (%s, %s) but the verifier (%s, %s)" % (n, a["hasher"], a["coin"], va[d]["hasher"], va[d]["coin"]))


def r1_presets(ctx, F):
    arms = check_option_constants(ctx, F)
    if arms is None:
        return
    hf = F.adt(r"miden_air::proof::HashFunction$")
    discr = {v["name"]: int(v["discr"]) for v in hf["variants"]}
    po = F.adt(r"miden_air::options::ProvingOptions$")
    fields = [f["name"] for f in po["variants"][0]["fields"]]
    presets = {}
    for (fname, rec), level in PRESETS.items():
        fn = F.fn(r"^miden_air::options::ProvingOptions::%s$" % fname)
        r = Interp(F).call(fn.id, [rec])
        d = dict(zip(fields, r.items))
        opts, h = d["proof_options"], d["hash_fn"]
        ov = tuple(deref(x) for x in opts.items) if isinstance(opts, Agg) else opts
        hname = h.variant
        presets[(fname, rec)] = (ov, hname)
        ctx.inst(key="preset|%s(%s)" % (fname, rec), nontrivial=True)
        acc = [c[1] for c in arms[discr[hname]]["options"]]
        ok = ov in acc
        ctx.oblig(ok)
        ctx.sample({"preset": "%s(%s)" % (fname, rec), "options(queries,blowup,grinding,ext,fri_fold,fri_rem)": list(ov) if isinstance(ov, tuple) else str(ov), "hash": hname, "accepted_for_hash": [list(a) for a in acc]})
        if not ok:
            ctx.violation("preset-not-accepted|%s(%s)" % (fname, rec), fn.loc(), "ProvingOptions::%s(%s) proves with %s under %s, which verify() does not accept for that hash function (accepts %s)" % (fname, rec, ov, hname, acc))
    # Default = with_96_bit_security(false)
    dflt = [k for k in F.fns if strip_targs(k).endswith("ProvingOptions@Default::default")]
    r = Interp(F).call(dflt[0], [])
    d = dict(zip(fields, r.items))
    ok = (tuple(deref(x) for x in d["proof_options"].items), d["hash_fn"].variant) == presets[("with_96_bit_security", False)]
    ctx.inst(key="preset|default", nontrivial=True)
    ctx.oblig(ok)
    if not ok:
        ctx.violation("preset-default", F.fns[dflt[0]].loc(), "ProvingOptions::default() is not the 96-bit non-recursive preset")
    # the conversion handed to winterfell returns the proof_options field
    conv = [k for k in F.fns if re.search(r"ProofOptions@From::from$", strip_targs(k)) and k.startswith("miden_air::options")]
    ctx.floor("options-conversion", len(conv), 1)
    for k in conv:
        x = Agg([Term("exec"), Term("proof_options"), Term("hash")], "adt", po["id"], po["variants"][0]["name"])
        x.items = [Term(n) for n in fields]
        r = Interp(F).call(k, [x])
        ok = repr(r) == "proof_options"
        ctx.oblig(ok)
        if not ok:
            ctx.violation("options-conversion", F.fns[k].loc(), "From<ProvingOptions> for WinterProofOptions returns %s" % (r,))
    return presets


def r2_security(ctx, F):
    po = F.adt(r"miden_air::options::ProvingOptions$")
    fields = [f["name"] for f in po["variants"][0]["fields"]]
    for (fname, rec), level in PRESETS.items():
        fn = F.fn(r"^miden_air::options::ProvingOptions::%s$" % fname)
        r = Interp(F).call(fn.id, [rec])
        d = dict(zip(fields, r.items))
        q, blowup, grind, ext, fold, rem = [deref(x) for x in d["proof_options"].items]
        h = d["hash_fn"].variant
        import math
        query_bits = q * int(math.log2(blowup)) + grind
        field_bits = 64 * EXT_DEGREE.get(ext, 0) - 32          # trace domains are at most 2^32 long (two-adicity of the field)
        hash_bits = HASHERS.get(h, 0)
        sec = min(query_bits, field_bits, hash_bits)
        ctx.inst(key="security|%s(%s)" % (fname, rec), nontrivial=True)
        ctx.sample({"preset": "%s(%s)" % (fname, rec), "query_bits": query_bits, "field_bits_at_2^32": field_bits, "hash_collision_bits": hash_bits, "configured": level})
        ok = sec >= level and blowup & (blowup - 1) == 0 and blowup >= 8
        ctx.oblig(ok)
        if not ok:
            ctx.violation("security-floor|%s(%s)" % (fname, rec), fn.loc(), "%s(%s): conjectured security min(queries %d, field %d, hash %d) = %d bits < %d configured (or blowup %d below the maximal constraint degree 9 rounded up)" % (fname, rec, query_bits, field_bits, hash_bits, sec, level, blowup))
    # the reported level is the proof's own (ExecutionProof::security_level dispatches on the tag with the matching hasher)
    sl = F.fn(r"^miden_air::proof::ExecutionProof::security_level$")
    arms = arms_of(sl, r"security_level$")
    hf = F.adt(r"miden_air::proof::HashFunction$")
    names = {int(v["discr"]): v["name"] for v in hf["variants"]}
    ctx.inst(key="security-level-dispatch", nontrivial=True)
    ok = arms is not None and all(hasher_name((t["f"].get("ga") or [""])[0]) == names[d] and t["args"][1].get("c") in (True, 1) for d, (bi, c, t) in arms.items())
    ctx.oblig(ok)
    if not ok:
        ctx.violation("security-level-dispatch", sl.loc(), "ExecutionProof::security_level must compute the conjectured level with the hasher of the proof's tag")


def r3_dispatch(ctx, F):
    check_prover_dispatch(ctx, F)
    p = F.fn(r"^miden_prover::prove$")
    c = p.calls_to(r"ExecutionProof::new$")
    ctx.inst(key="proof-tag", nontrivial=True)
    ok = len(c) == 1
    if ok:
        a = c[0][2]["args"][1]
        sl = p.backward_slice(a["l"], through_calls=False)
        ok = any(cc.endswith("ProvingOptions::hash_fn") for b, cc, t in sl["calls"])
        # and the switch that selects the prover is on the same value
    ctx.oblig(ok)
    if not ok:
        ctx.violation("proof-tag", p.loc(), "the proof must be tagged with options.hash_fn()")


def r4_statement(ctx, F):
    p = F.fn(r"^miden_prover::prove$")
    _, pa = prover_arms(F)
    ex = p.calls_to(r"^miden_processor::execute$")
    ctx.inst(key="prove-executes", nontrivial=True)
    ok = len(ex) == 1 and pa is not None
    ctx.oblig(ok)
    if not ok:
        ctx.violation("prove-executes", p.loc(), "prove() must execute the program exactly once")
        return
    trace_l = ex[0][2]["d"]["l"]

    def origin(o):
        """classify an operand: 'inputs' (argument 2 or its clone), 'outputs' (clone of trace.stack_outputs()), 'options'"""
        if "l" not in o:
            return "?"
        sl = p.backward_slice(o["l"])
        cs = [c for b, c, t in sl["calls"]]
        if any(c.endswith("ExecutionTrace::stack_outputs") for c in cs):
            return "trace.stack_outputs"
        if 2 in sl["args"] and not any(c.endswith("ExecutionTrace::stack_outputs") for c in cs):
            return "stack_inputs"
        if 4 in sl["args"]:
            return "options"
        return "?"
    for d, a in pa.items():
        got = [origin(o) for o in a["args"]]
        ctx.inst(key="prover-args|%s" % d, nontrivial=True)
        ok = got == ["options", "stack_inputs", "trace.stack_outputs"]
        ctx.oblig(ok)
        if not ok:
            ctx.violation("prover-args|%s" % d, p.loc(a["ln"]), "ExecutionProver::new receives %s (expected options, the stack inputs, the trace's stack outputs)" % got)
    # execute() receives the same inputs (clone) and the execution options of the proving options
    a = ex[0][2]["args"]
    got = [origin(a[1]), origin(a[3])]
    ok = got == ["stack_inputs", "options"] and 1 in p.backward_slice(a[0]["l"], through_calls=False)["args"]
    ctx.oblig(ok)
    if not ok:
        ctx.violation("execute-args", p.loc(ex[0][2]["ln"]), "processor::execute must receive the program, the stack inputs and options.execution_options(): %s" % got)
    # the returned outputs are the trace's
    # ExecutionProver::new stores arguments in like-named fields
    n = F.fn(r"^miden_prover::ExecutionProver::new$")
    adt = F.adt(r"^miden_prover::ExecutionProver$")
    fields = [f["name"] for f in adt["variants"][0]["fields"]]
    I = Interp(F)
    I.overrides.append((re.compile(r"@Into::into$|@From::from$"), lambda I, a, f: Term("into", a[0])))
    r = I.call(n.id, [Term("options"), Term("si"), Term("so")])
    got = dict(zip(fields, [repr(x) for x in r.items]))
    ok = got.get("stack_inputs") == "si" and got.get("stack_outputs") == "so" and got.get("options") == "into(options)"
    ctx.inst(key="prover-new", nontrivial=True)
    ctx.oblig(ok)
    if not ok:
        ctx.violation("prover-new", n.loc(), "ExecutionProver::new stores %s" % got)
    # get_pub_inputs: PublicInputs::new(trace.program_info().clone(), self.stack_inputs.clone(), self.stack_outputs.clone())
    g = F.fn(r"^miden_prover::ExecutionProver@Prover::get_pub_inputs$")
    c = g.calls_to(r"PublicInputs::new$")
    ctx.inst(key="get_pub_inputs", nontrivial=True)
    ok = len(c) == 1
    if ok:
        got = []
        for o in c[0][2]["args"]:
            sl = g.backward_slice(o["l"])
            cs = [cc for b, cc, t in sl["calls"]]
            if any(cc.endswith("ExecutionTrace::program_info") for cc in cs):
                got.append("trace.program_info")
            else:
                got.append(",".join(sorted(f for l, f in sl["fields"] if f in ("stack_inputs", "stack_outputs"))))
        ok = got == ["trace.program_info", "stack_inputs", "stack_outputs"]
    ctx.oblig(ok)
    if not ok:
        ctx.violation("get_pub_inputs", g.loc(), "get_pub_inputs must build PublicInputs::new(trace.program_info(), self.stack_inputs, self.stack_outputs): %s" % (got if c else "no call"))
    # the trace's program info is (program hash, kernel) of the executed program
    t = F.fn(r"^miden_processor::trace::ExecutionTrace::new$")
    pi = t.calls_to(r"ProgramInfo::new$")
    ctx.inst(key="trace-program-info", nontrivial=True)
    ok = len(pi) == 1
    if ok:
        a0 = t.backward_slice(pi[0][2]["args"][0]["l"])
        a1 = t.backward_slice(pi[0][2]["args"][1]["l"])
        ok = any(c.endswith("program_hash") or c.endswith("::hash") for b, c, x in a0["calls"]) or 2 in a0["args"]
        ok = ok and any(re.search(r"kernel", c) for b, c, x in a1["calls"])
    ctx.oblig(ok)
    if not ok:
        ctx.violation("trace-program-info", t.loc(), "ExecutionTrace::new must record ProgramInfo::new(program hash, kernel of the process)")


def r5_degrees(ctx, F):
    from . import airmodel, rules_c02
    A = airmodel.AirModel(F)
    res, ranges, I = A.eval_main(None, limit=2000)
    I2 = Interp(F)
    new = [k for k in F.fns if re.search(r"ProcessorAir@Air::new$", strip_targs(k))][0]
    decl = [Agg([1, []], "adt", "TransitionConstraintDegree", "new")]
    for pat in ("stack", "range", "chiplets"):
        decl += deref(I2.call(F.fn(r"^miden_air::constraints::%s::get_transition_constraint_degrees$" % pat).id, [])).items
    ctx.floor("main-constraints", len(res), 150)
    ctx.inst(key="constraint-count", nontrivial=True)
    ok = len(res) == len(decl)
    ctx.oblig(ok)
    if not ok:
        ctx.violation("constraint-count", F.fns[new].loc(), "%d transition constraints are evaluated but %d degrees are declared: proving panics" % (len(res), len(decl)))
        return
    # ProcessorAir::new declares clk first with degree 1, then stack, range, chiplets (the order evaluate_transition fills)
    fn = F.fns[new]
    order = [c.split("constraints::")[1].split("::")[0] for bi, c, t in fn.calls() if c.endswith("get_transition_constraint_degrees")]
    ok = order == ["stack", "range", "chiplets"]
    ctx.oblig(ok)
    if not ok:
        ctx.violation("degree-order", fn.loc(), "ProcessorAir::new appends degrees in order %s" % order)
    nexact = 0
    for i, (p, d) in enumerate(zip(res, decl)):
        base, cycles = d.items[0], d.items[1]
        want = base + len(cycles)
        exact = isinstance(p, Poly)
        got = p.degree()
        nexact += exact
        ctx.inst(key="degree|%d" % i, nontrivial=True)
        ok = (got == want) if exact else (got <= want)
        ctx.oblig(ok)
        if not ok:
            ctx.violation("constraint-degree|%d" % i, F.fns[new].loc(), "transition constraint %d has degree %s%d (trace columns + periodic columns) but %d + %d periodic is declared: the prover rejects (debug) or the proof does not verify"
                          % (i, "" if exact else "<= ", got, base, len(cycles)))
    ctx.analysed("%d of %d constraint polynomials exact, the rest bounded by support/degree abstraction" % (nexact, len(res)))
    # aux constraints
    aux = A.eval_aux()
    ad = deref(I2.call(F.fn(r"^miden_air::constraints::range::get_aux_transition_constraint_degrees$").id, [])).items
    ctx.inst(key="aux-degrees", nontrivial=True)
    ok = len(aux) == len(ad) and all((lambda p, d: (lambda td: td == d.items[0])(max([sum(e for v, e in m if not v.startswith("alpha")) for m in p.monomial_exps()] or [0])))(p, d) if hasattr(p, "monomial_exps") else True for p, d in zip(aux, ad))
    ctx.oblig(ok)
    if not ok:
        ctx.violation("aux-degrees", F.fns[new].loc(), "auxiliary constraint degrees differ from the declared %s" % [d.items for d in ad])
    # assertion counts
    C = lambda n: F.const(n)["val"] if isinstance(F.const(n), dict) else F.const(n)
    nmain = 2 + C(r"miden_air::constraints::stack::NUM_ASSERTIONS$") + C(r"miden_air::constraints::range::NUM_ASSERTIONS$")
    naux = C(r"miden_air::constraints::stack::NUM_AUX_ASSERTIONS$") + C(r"miden_air::constraints::range::NUM_AUX_ASSERTIONS$")
    air = F.adt(r"miden_air::ProcessorAir$")
    fields = [f["name"] for f in air["variants"][0]["fields"]]
    for shape in rules_c02.SHAPES:
        pub, names = rules_c02.sym_statement(F, *shape)
        selfv = Agg([{"stack_inputs": pub.items[1], "stack_outputs": pub.items[2]}.get(n, Opaque(n)) for n in fields], "adt", air["id"], "ProcessorAir")
        for name, want in (("get_assertions", nmain), ("get_aux_assertions", naux)):
            fid = [k for k in F.fns if re.search(r"ProcessorAir@Air::%s$" % name, strip_targs(k))][0]
            args = [Ptr([selfv], 0)] + ([Ptr([Opaque("rand")], 0)] if "aux" in name else [])
            try:
                r = rules_c02.interp(F).call(fid, args)
            except (Unanalysable, PanicReached) as e:
                ctx.violation("UNANALYSABLE|%s" % name, F.fns[fid].loc(), str(e)[:300])
                continue
            items = deref(r).items
            keys = {(a.items[0], repr(a.items[1])) for a in items}
            ctx.inst(key="assertion-count|%s|%s" % (name, shape), nontrivial=True)
            ok = len(items) == want == len(keys)
            ctx.oblig(ok)
            if not ok:
                ctx.violation("assertion-count|%s" % name, F.fns[fid].loc(), "%s returns %d assertions (%d distinct cells) for statement shape %s but ProcessorAir::new declares %d: proving panics" % (name, len(items), len(keys), shape, want))
    # the declared numbers in ProcessorAir::new are those sums; exemptions = NUM_RAND_ROWS + 1
    fn = F.fns[new]
    ex = fn.calls_to(r"set_num_transition_exemptions$")
    nr = C(r"^miden_processor::trace::NUM_RAND_ROWS$")
    ctx.inst(key="exemptions", nontrivial=True)
    ok = len(ex) == 1 and fn.const_of(ex[0][2]["args"][1]) == nr + 1
    ctx.oblig(ok)
    if not ok:
        ctx.violation("exemptions", fn.loc(), "ProcessorAir::new must exempt NUM_RAND_ROWS + 1 = %d rows from transition constraints" % (nr + 1))
    mk = fn.calls_to(r"AirContext::new_multi_segment$")
    ok = len(mk) == 1
    if ok:
        a = mk[0][2]["args"]
        v3, v4 = const_through(fn, a[3]), const_through(fn, a[4])
        ok = (v3, v4) == (nmain, naux)
    ctx.inst(key="declared-assertion-counts", nontrivial=True)
    ctx.oblig(ok)
    if not ok:
        ctx.violation("declared-assertion-counts", fn.loc(), "AirContext::new_multi_segment receives assertion counts %s, expected (%d, %d)" % ((v3, v4) if mk else None, nmain, naux))


def r6_overflow_boundaries(ctx, F):
    """deep inputs/outputs: the boundary values the AIR asserts for the stack overflow table column equal what the processor's
    table contains - initially (OverflowTable::new_with_inputs vs get_overflow_table_init) and finally (rows left in the table,
    reported through append_into / get_addrs / StackOutputs::from_elements, vs get_overflow_table_final); and the initial
    depth / overflow address of Stack::new equal the first-step assertions"""
    from . import rules_c02
    ot = F.adt(r"^miden_processor::stack::overflow::OverflowTable$")
    row = F.adt(r"^miden_processor::stack::overflow::OverflowTableRow$")
    of = [f["name"] for f in ot["variants"][0]["fields"]]
    rf = [f["name"] for f in row["variants"][0]["fields"]]
    tv = F.fn(r"OverflowTableRow::to_value$")
    al = lambda: SlicePtr([Poly.var("alpha%d" % i) for i in range(16)], 0, 16)
    for n in (1, 2, 5):
        ctx.inst(key="init|%d-overflow-inputs" % n, nontrivial=True)
        try:
            I = rules_c02.interp(F)
            ins = [Poly.var("in%d" % i) for i in range(16, 16 + n)]
            t = I.call(F.fn(r"OverflowTable::new_with_inputs$").id, [False, SlicePtr(ins, 0, n)])
            d = dict(zip(of, t.items))
            prod = Poly.const(1)
            for r in d["all_rows"].items:
                prod = prod * I.call(tv.id, [Ptr([r], 0), al()])
            air = I.call(F.fn(r"constraints::stack::get_overflow_table_init$").id, [al(), SlicePtr(ins, 0, n)])
        except (Unanalysable, PanicReached) as e:
            ctx.violation("UNANALYSABLE|overflow-init", "processor/src/stack/overflow.rs", str(e)[:300])
            continue
        ok = prod == air and d["num_init_rows"] == n and d["last_row_addr"] == Poly.const(-1)
        ctx.oblig(ok)
        if len(ctx.samples) < 3:
            ctx.sample({"overflow_inputs": n, "processor_rows(val,clk,prev)": [[str(x) for x in r.items] for r in d["all_rows"].items], "equal_to_air_init": bool(prod == air)})
        if not ok:
            ctx.violation("overflow-init|%d" % n, "processor/src/stack/overflow.rs", "with %d stack inputs below position 15 the processor's overflow table starts as %s (last address %s) but the AIR asserts the column starts at %s: proving a successful execution fails"
                          % (n, [[str(x) for x in r.items] for r in d["all_rows"].items], d["last_row_addr"], str(air)[:200]))
    for n in (1, 3):
        ctx.inst(key="final|%d-overflow-outputs" % n, nontrivial=True)
        try:
            I = rules_c02.interp(F)
            procmodel_install(I)
            rows = [Agg([{"val": Poly.var("v%d" % i), "clk": Poly.var("c%d" % i), "prev": Poly.var("c%d" % (i - 1)) if i else Poly.var("p0")}[x] for x in rf], "adt", row["id"], row["variants"][0]["name"]) for i in range(n)]
            tab = Agg([{"all_rows": Agg(rows, "vec"), "active_rows": Agg(list(range(n)), "vec"), "trace": Agg([], "btreemap"), "trace_enabled": False, "num_init_rows": 0,
                        "last_row_addr": Poly.var("c%d" % (n - 1))}[x] for x in of], "adt", ot["id"], ot["variants"][0]["name"])
            tgt = Agg([Poly.var("t%d" % i) for i in range(16)], "vec")
            I.call(F.fn(r"OverflowTable::append_into$").id, [Ptr([tab], 0), Ptr([tgt], 0)])
            addrs = I.call(F.fn(r"OverflowTable::get_addrs$").id, [Ptr([tab], 0)])
            so = I.call(F.fn(r"StackOutputs::from_elements$").id, [tgt, addrs])
            if not (isinstance(so, Agg) and so.variant == "Ok"):
                raise Unanalysable("StackOutputs::from_elements rejects the processor's own outputs: %s" % (so,))
            air = I.call(F.fn(r"constraints::stack::get_overflow_table_final$").id, [al(), Ptr([so.items[0]], 0)])
            prod = Poly.const(1)
            for r in rows:
                prod = prod * I.call(tv.id, [Ptr([r], 0), al()])
        except (Unanalysable, PanicReached) as e:
            ctx.violation("UNANALYSABLE|overflow-final", "processor/src/stack/overflow.rs", str(e)[:300])
            continue
        ok = isinstance(air, Poly) and air == prod
        ctx.oblig(ok)
        if not ok:
            ctx.violation("overflow-final|%d" % n, "air/src/constraints/stack/mod.rs", "with %d rows left in the overflow table the AIR asserts the final column value %s but the table holds %s: outputs deeper than 16 elements cannot be proven"
                          % (n, str(air)[:200], str(prod)[:200]))


def procmodel_install(I):
    from . import procmodel
    procmodel.install_field(I)


def const_through(fn, o):
    """evaluate an operand that is a constant or a sum of constants (checked adds)"""
    v = fn.const_of(o)
    if isinstance(v, int):
        return v
    o = resolve_copy(fn, o)
    if "l" not in o:
        return None
    ds = fn.defs().get(o["l"], ())
    if len(ds) != 1 or ds[0][0] != "s":
        return None
    r = ds[0][2]["r"]
    if r["k"] == "use" and r["o"].get("p"):
        # field 0 of a checked-add tuple
        return const_through(fn, {"l": r["o"]["l"]})
    if r["k"] == "bin" and r["op"] in ("+", "+?", "Add", "AddWithOverflow", "AddUnchecked"):
        a, b = const_through(fn, r["a"]), const_through(fn, r["b"])
        if a is None or b is None:
            return None
        return a + b
    return None


def run(ctx, F):
    ctx.trusted += ["rustc MIR via mirfacts", "mirsym, AirModel", "winterfell prover/verifier (external): rejects a proof whose options are outside AcceptableOptions, panics/rejects on degree or assertion-count mismatch",
                    "collision resistance of the hash functions (miden-crypto constants, listed in HASHERS)"]
    ctx.assumptions += ["that every accepted trace satisfies the constraints is the subject of C03/C04/C12; this check decides the configuration-level and plumbing conditions of completeness, not completeness itself"]
    ctx.run_rule("C01-R1", "every preset option set is accepted by verify() for its hash function; verify() accepts exactly the documented sets", r1_presets, F)
    ctx.run_rule("C01-R2", "conjectured security of each preset (queries, field, hash) is at least the configured level; reported level uses the proof's hasher", r2_security, F)
    ctx.run_rule("C01-R3", "prover and verifier use the same hasher/coin per hash tag; the proof is tagged with options.hash_fn()", r3_dispatch, F)
    ctx.run_rule("C01-R4", "the statement given to the prover is the executed one: inputs, outputs and program info of the trace", r4_statement, F)
    ctx.run_rule("C01-R6", "stack overflow table boundary values: processor's initial table / final rows and reported outputs equal the AIR's init / final products (deep inputs and outputs)", r6_overflow_boundaries, F)
    ctx.run_rule("C01-R5", "declared transition-constraint degrees/counts equal the constraint polynomials'; assertion counts equal the declared ones for every statement shape; exemptions = random rows + 1", r5_degrees, F)
    # completeness of the rows an honest execution produces (shared with C03 / C04 / C12, whose rule ids are kept in the keys):
    # an honest trace that violates a transition constraint, or an auxiliary column that misses its terminal value, makes
    # proving fail (debug) or the proof fail to verify
    from . import rules_c03, rules_c04, rules_c12
    M3 = rules_c03.models(F)
    ctx.run_rule("C01-R7a", "honest stack rows satisfy the stack constraints: each handler path's next row substituted into the constraints of its operation gives zero (= C03-R3)", rules_c03.r3_substitution, F, M3)
    ctx.run_rule("C01-R7b", "stack depth / overflow bookkeeping constraints in canonical form per shift class, control-flow operations included (= C04-R4)", rules_c04.r4_overflow, F)
    ctx.run_rule("C01-R7c", "honest chiplet rows satisfy the bitwise, memory and hasher constraints (= C03-R8/R9/R10)", lambda c, f: (rules_c03.r8_bitwise_chiplet(c, f), rules_c03.r9_memory_chiplet(c, f), rules_c03.r10_hasher_chiplet(c, f)), F)
    ctx.run_rule("C01-R7d", "the auxiliary-column builders agree with the operations' stack effects and documented table rows, so every running product returns to its terminal value (= C12-R4a, R4c)", lambda c, f: (rules_c12.r4a_decoder_tables(c, f), rules_c12.r4c_shift_predicates(c, f)), F)

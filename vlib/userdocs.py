"""Run-time parser of the instruction reference (docs/src/user_docs/assembly/*.md): per table row the instruction
forms, the Stack_input / Stack_output patterns and the formulas in the Notes column."""
import os, re
from . import extract
from .mirsym import Poly, P
from . import docspec

DIR = os.path.join(extract.REPO, "docs/src/user_docs/assembly")
FILES = ["field_operations.md", "u32_operations.md", "stack_manipulation.md", "io_operations.md", "cryptographic_operations.md"]


class Row:
    def __init__(self):
        self.file = self.line = None
        self.forms = []      # instruction texts, e.g. "add", "add.*b*"
        self.inp = []        # list of input patterns (token lists)
        self.out = []
        self.notes = ""


def split_pattern(s):
    s = s.strip()
    m = re.match(r"^\[(.*)\]$", s)
    if not m:
        return None
    inner = m.group(1).replace("...", " ... ").replace(",", " ")
    toks = [t for t in inner.split() if t]
    return toks


def rows():
    out = []
    for fn in FILES:
        p = os.path.join(DIR, fn)
        if not os.path.exists(p):
            continue
        for i, l in enumerate(open(p).read().split("\n")):
            if not l.startswith("|") or re.match(r"^\|\s*-", l) or re.match(r"^\|\s*Instruction", l):
                continue
            cells = [c.strip() for c in l.strip().strip("|").split("|")]
            if len(cells) < 4:
                continue
            r = Row()
            r.file, r.line = "docs/src/user_docs/assembly/" + fn, i + 1
            forms = [x.strip() for x in cells[0].split("<br>")]
            r.forms = [f for f in forms if f and not f.startswith("-")]
            r.inp = [split_pattern(x) for x in cells[1].split("<br>")]
            r.out = [split_pattern(x) for x in cells[2].split("<br>")]
            r.notes = "|".join(cells[3:])
            out.append(r)
    return out


def form_key(form):
    """'add.*b*' -> ('add', True); 'u32checked_add' -> ('u32checkedadd', False)"""
    f = form.replace("`", "").strip()
    imm = bool(re.search(r"\.\*?\w+\*?$", f)) and "." in f
    base = f.split(".")[0] if imm and not f.startswith("adv.") else f
    if f.startswith("adv."):
        base, imm = f, False
    return re.sub(r"[_\.\*]", "", base).lower(), imm


def variant_index(variants):
    idx = {}
    for v in variants:
        idx[v["name"].lower()] = v["name"]
    return idx


def formulas(notes, var):
    """name -> Poly for formulas `x \\leftarrow expr` (or `x = expr`) that parse as polynomials"""
    out = {}
    for m in re.finditer(r"\$([^$]*)\$", notes):
        txt = m.group(1)
        mm = re.match(r"^\s*([A-Za-z])(?:'|)\s*\\leftarrow\s*(.*)$", txt)
        if not mm:
            continue
        name, rhs = mm.group(1), mm.group(2)
        rhs = re.sub(r"\\mod\s*p", "", rhs).strip()
        rhs = rhs.replace("^{-1}", "^{0-1}")
        if "\\begin" in rhs or "\\lfloor" in rhs or "\\text" in rhs or "(" in rhs and re.search(r"[a-z_\\]+\(", rhs):
            continue
        try:
            p = parse_expr(rhs, var)
        except docspec.LatexError:
            continue
        out[name] = p
    return out


class ExprParser(docspec.LatexParser):
    def factor(self):
        b = self.atom()
        if self.peek() == "^":
            self.eat()
            if self.peek() == "{":
                self.eat("{")
                toks = []
                while self.peek() != "}":
                    toks.append(self.eat())
                self.eat("}")
                txt = "".join(toks)
            else:
                txt = self.eat()
            if txt in ("0-1", "-1"):
                from .mirsym import inv_var
                return inv_var(b)
            if txt.isdigit():
                r = Poly.const(1)
                for _ in range(int(txt)):
                    r = r * b
                return r
            raise docspec.LatexError("exponent %r" % txt)
        return b


def parse_expr(s, var):
    toks = docspec.tokenize(s)
    pr = ExprParser(toks, lambda name, idx, primed: var(name, idx), {})
    v = pr.expr()
    if pr.peek() is not None:
        raise docspec.LatexError("trailing %r" % pr.t[pr.i:])
    return v

"""Reusable MIR queries used by the rule modules."""
import re, collections

CMP = {"==", "!=", "<", "<=", ">", ">="}
INF = float("inf")


def place_fields(p):
    return [x for x in p.get("p", ()) if isinstance(x, dict) and "f" in x]


def place_ends_with_field(p, adt_pat, field):
    fs = p.get("p", ())
    if not fs:
        return False
    last = fs[-1]
    return isinstance(last, dict) and last.get("f") == field and re.search(adt_pat, last.get("of", "")) is not None


def place_mentions_field(p, adt_pat, field):
    return any(x.get("f") == field and re.search(adt_pat, x.get("of", "")) for x in place_fields(p))


def field_writes(F, adt_pat, field):
    """direct assignments to <adt>.<field> (or into it) and &mut borrows of it, over all workspace fns"""
    out = []
    for fn in F.fns.values():
        for bi, b in enumerate(fn.blocks):
            for s in b["s"]:
                if place_mentions_field(s["d"], adt_pat, field):
                    out.append((fn, bi, s, "assign"))
                r = s["r"]
                if r["k"] in ("ref", "rawptr") and r.get("mut", True) and place_mentions_field(r["p"], adt_pat, field):
                    out.append((fn, bi, s, "borrow_mut"))
            t = b["t"]
            if t["k"] == "call" and place_mentions_field(t["d"], adt_pat, field):
                out.append((fn, bi, t, "assign"))
    return out


def field_reads(F, adt_pat, field, fns=None):
    out = []
    for fn in (fns if fns is not None else F.fns.values()):
        for bi, b in enumerate(fn.blocks):
            for s in b["s"]:
                for o in fn.rvalue_operands(s["r"]):
                    if "l" in o and place_mentions_field(o, adt_pat, field):
                        out.append((fn, bi, s))
            t = b["t"]
            if t["k"] == "call":
                for o in t["args"]:
                    if "l" in o and place_mentions_field(o, adt_pat, field):
                        out.append((fn, bi, t))
    return out


def resolve_copy(fn, o, depth=12):
    """follow single-definition copy/move/cast chains of a local operand; returns the final operand"""
    while depth > 0 and o is not None and "l" in o and not o.get("p"):
        ds = fn.defs().get(o["l"], ())
        if len(ds) != 1 or ds[0][0] != "s":
            break
        r = ds[0][2]["r"]
        if r["k"] == "use":
            o = r["o"]
        elif r["k"] == "cast" and r.get("ck") in ("IntToInt",):
            o = r["o"]
        else:
            break
        depth -= 1
    return o


def def_rvalue(fn, o):
    """the rvalue defining local operand o if it has exactly one statement definition"""
    o = resolve_copy(fn, o)
    if o is None or "l" not in o or o.get("p"):
        return None
    ds = fn.defs().get(o["l"], ())
    if len(ds) == 1 and ds[0][0] == "s":
        return ds[0][2]["r"]
    return None


def def_call(fn, o):
    """the call terminator defining local operand o (through copies), else None"""
    o = resolve_copy(fn, o)
    if o is None or "l" not in o:
        return None
    if o.get("p"):
        # e.g. (_5 as Continue).0 -> def of _5 is Try::branch(call result)
        pass
    ds = fn.defs().get(o["l"], ())
    cs = [d for d in ds if d[0] == "c"]
    if len(cs) == 1 and len(ds) == 1:
        return cs[0]
    return None


def through_try(fn, o, depth=6):
    """strip `?`: if o is (x as Continue).0 with x = Try::branch(y) return y (the Result operand)."""
    while depth > 0:
        depth -= 1
        o2 = resolve_copy(fn, o)
        if o2 is None or "l" not in o2:
            return o2
        ps = o2.get("p") or []
        if len(ps) == 2 and isinstance(ps[0], dict) and ps[0].get("as") == "Continue":
            ds = fn.defs().get(o2["l"], ())
            if len(ds) == 1 and ds[0][0] == "c" and ds[0][2]["f"].get("fn", "").endswith("Try::branch"):
                o = ds[0][2]["args"][0]
                continue
        return o2
    return o


def mirrored(c):
    """the same branch with the comparison written the other way round (`a > b` as `b < a`); None for non-binary tests"""
    flip = {"<": ">", ">": "<", "<=": ">=", ">=": "<=", "==": "==", "!=": "!="}
    if c.get("op") not in flip or "a" not in c:
        return None
    d = dict(c)
    d["op"], d["a"], d["b"] = flip[c["op"]], c["b"], c["a"]
    return d


def cmp_branches(fn):
    """comparisons that select a branch: list of dict(block, op, a, b, true, false, ln, neg)"""
    out = []
    for bi, b in enumerate(fn.blocks):
        t = b["t"]
        if t["k"] != "switch":
            continue
        neg = False
        o = t["o"]
        r = def_rvalue(fn, o)
        while r is not None and r["k"] == "un" and r["op"] == "Not":
            neg = not neg
            r = def_rvalue(fn, r["o"])
        if r is None:
            continue
        arms = dict((a[0], a[1]) for a in t["arms"])
        if 0 not in arms:
            continue
        f_t, t_t = arms[0], t["else"]
        if neg:
            f_t, t_t = t_t, f_t
        if r["k"] == "bin" and r["op"] in CMP:
            out.append({"block": bi, "op": r["op"], "a": r["a"], "b": r["b"], "true": t_t, "false": f_t, "ln": t["ln"], "kind": "bin"})
        else:
            out.append({"block": bi, "op": None, "rv": r, "true": t_t, "false": f_t, "ln": t["ln"], "kind": "other"})
    # comparisons done by PartialEq::eq / ne calls
    for bi, b in enumerate(fn.blocks):
        t = b["t"]
        if t["k"] != "switch":
            continue
        o = resolve_copy(fn, t["o"])
        if o is None or "l" not in o:
            continue
        ds = fn.defs().get(o["l"], ())
        if len(ds) == 1 and ds[0][0] == "c":
            ct = ds[0][2]
            cal = ct["f"].get("fn", "")
            decl = ct["f"].get("decl", "")
            if decl.endswith("PartialEq::eq") or decl.endswith("PartialEq::ne") or decl.endswith("PartialOrd::lt") or \
                    decl.endswith("PartialOrd::gt") or decl.endswith("PartialOrd::le") or decl.endswith("PartialOrd::ge"):
                op = {"eq": "==", "ne": "!=", "lt": "<", "gt": ">", "le": "<=", "ge": ">="}[decl.rsplit("::", 1)[1]]
                arms = dict((a[0], a[1]) for a in t["arms"])
                if 0 in arms:
                    out.append({"block": bi, "op": op, "a": ct["args"][0], "b": ct["args"][1], "true": t["else"],
                                "false": arms[0], "ln": t["ln"], "kind": "call", "callee": cal})
    return out


def deref_source(fn, o, depth=8):
    """for an operand that is a reference temp (`&x`), return the place it borrows (through copies)"""
    while depth > 0 and o is not None and "l" in o:
        depth -= 1
        o = resolve_copy(fn, o)
        if "l" not in o or o.get("p"):
            return o
        ds = fn.defs().get(o["l"], ())
        if len(ds) == 1 and ds[0][0] == "s" and ds[0][2]["r"]["k"] == "ref":
            o = ds[0][2]["r"]["p"]
            if o.get("p") == ["*"]:
                o = {"l": o["l"]}
                continue
            return o
        return o
    return o


def err_blocks(fn):
    """blocks on which the function is committed to returning Err / propagating with `?`"""
    out = set()
    for bi, b in enumerate(fn.blocks):
        for s in b["s"]:
            r = s["r"]
            if s["d"]["l"] == 0 and not s["d"].get("p") and r["k"] == "agg" and r.get("adt", "").endswith("result::Result") and r.get("variant") == "Err":
                out.add(bi)
        t = b["t"]
        if t["k"] == "call" and t["f"].get("decl", "").endswith("FromResidual::from_residual"):
            out.add(bi)
    return out


def return_blocks(fn):
    return [i for i, b in enumerate(fn.blocks) if b["t"]["k"] == "return"]


def panic_blocks(fn):
    out = set()
    for bi, b in enumerate(fn.blocks):
        t = b["t"]
        if t["k"] == "call" and t["to"] is None:
            out.add(bi)
    return out


def sccs(nodes, succ):
    index, low, on, st, res = {}, {}, set(), [], []
    counter = [0]
    import sys
    sys.setrecursionlimit(10000)

    def visit(v):
        index[v] = low[v] = counter[0]
        counter[0] += 1
        st.append(v)
        on.add(v)
        for w in succ(v):
            if w not in nodes:
                continue
            if w not in index:
                visit(w)
                low[v] = min(low[v], low[w])
            elif w in on:
                low[v] = min(low[v], index[w])
        if low[v] == index[v]:
            comp = []
            while True:
                w = st.pop()
                on.discard(w)
                comp.append(w)
                if w == v:
                    break
            res.append(comp)

    for v in nodes:
        if v not in index:
            visit(v)
    return res


def count_on_paths(fn, weight, start=0, ends=None, avoid=()):
    """(min, max) of sum(weight(block)) over all paths start -> any end block, avoiding `avoid` blocks
    (e.g. error blocks). Loops containing weight>0 give max = inf. Returns None if no path."""
    ends = set(ends if ends is not None else return_blocks(fn))
    avoid = set(avoid)
    nodes = fn.reachable_blocks(start, avoid=avoid)
    # keep only nodes that can reach an end
    preds = collections.defaultdict(list)
    for n in nodes:
        for s in fn.succs(n):
            if s in nodes:
                preds[s].append(n)
    can = set()
    st = [e for e in ends if e in nodes]
    while st:
        n = st.pop()
        if n in can:
            continue
        can.add(n)
        st.extend(preds[n])
    nodes = nodes & can
    if start not in nodes:
        return None
    comps = sccs(nodes, lambda v: [s for s in fn.succs(v) if s in nodes])
    comp_of = {}
    for ci, c in enumerate(comps):
        for v in c:
            comp_of[v] = ci
    # tarjan returns reverse topological order (sinks first)
    mn, mx = {}, {}
    for ci, c in enumerate(comps):
        cyc = len(c) > 1 or any(c[0] in fn.succs(c[0]) for _ in [0])
        w = sum(weight(v) for v in c)
        wmin = min(weight(v) for v in c) if not cyc else 0
        outs = set()
        for v in c:
            for s in fn.succs(v):
                if s in nodes and comp_of[s] != ci:
                    outs.add(comp_of[s])
        is_end = any(v in ends for v in c)
        cand_min = [mn[o] for o in outs if o in mn]
        cand_max = [mx[o] for o in outs if o in mx]
        if is_end:
            cand_min.append(0)
            cand_max.append(0)
        if not cand_min:
            continue
        if cyc:
            # a cycle: min path may pass through only some nodes; conservatively min adds 0 unless single entry
            mn[ci] = min(cand_min) + (0 if len(c) > 1 else weight(c[0]))
            mx[ci] = INF if w > 0 else max(cand_max)
        else:
            mn[ci] = min(cand_min) + weight(c[0])
            mx[ci] = max(cand_max) + weight(c[0])
    ci = comp_of[start]
    if ci not in mn:
        return None
    return (mn[ci], mx[ci])


def call_weight(fn, pat):
    r = re.compile(pat)
    w = collections.Counter()
    for bi, callee, t in fn.calls():
        if r.search(callee):
            w[bi] += 1
    return lambda b: w.get(b, 0)


def blocks_calling(fn, pat):
    r = re.compile(pat)
    return [bi for bi, callee, t in fn.calls() if r.search(callee)]


def arg_const(fn, t, i):
    a = t["args"][i]
    return fn.const_of(a)


def short(fid):
    parts = fid.split("::")
    return "::".join(parts[-2:])


def family(F, fn, depth=2):
    """fn, its closures, and the functions of the same source file it calls (transitively, up to `depth`): the unit a
    maintainer may split a function into (private helpers) without changing what it does"""
    out, seen = [], set()
    frontier = [(fn.id, 0)]
    while frontier:
        fid, d = frontier.pop()
        if fid in seen or fid not in F.fns:
            continue
        g = F.fns[fid]
        if g.file != fn.file:
            continue
        seen.add(fid)
        out.append(g)
        if d < depth or "{closure" in fid:
            for c in F.callees(fid):
                frontier.append((c, d + (0 if "{closure" in c else 1)))
    return out


def summary_weight(F, fn, pat, depth=3, _memo=None):
    """like call_weight, but a call to a function of the same source file that does not itself match `pat` contributes the
    number of matching calls that function makes on each of its successful paths (its summary), provided that number is the
    same on all of them; so splitting a function into private helpers does not change the count"""
    memo = _memo if _memo is not None else {}
    r = re.compile(pat)
    w = collections.Counter()
    for bi, callee, t in fn.calls():
        if r.search(callee):
            w[bi] += 1
            continue
        fx = t["f"].get("fnx", t["f"].get("fn"))
        g = F.fns.get(fx)
        if g is None or g.file != fn.file or depth <= 0 or g.id == fn.id:
            continue
        if g.id not in memo:
            memo[g.id] = None       # recursion guard
            memo[g.id] = count_on_paths(g, summary_weight(F, g, pat, depth - 1, memo), avoid=err_blocks(g) | panic_blocks(g))
        mm = memo[g.id]
        if mm and mm[0] == mm[1] and mm[0] != INF:
            w[bi] += mm[0]
    return lambda b: w.get(b, 0)

"""masmx — a static analyser for Miden assembly sources (stdlib/asm): parser + symbolic executor over the integers.

Values are integer polynomials (ZP) in the procedure's inputs, advice values and *carry variables* introduced by the u32
instructions, each with a known range. A u32 instruction is modelled by its defining identity over the integers
(docs/src/user_docs/assembly/u32_operations.md), e.g. u32overflowing_add on a, b < 2^32 introduces k in {0,1} and yields
sum := a + b - 2^32*k (a value in [0, 2^32) by the instruction's contract) and carry := k. Assertions add equations.
Proving `c = (a + b) mod 2^64` is then a polynomial identity check: (c_lo + 2^32*c_hi) - (a + b) has all coefficients
divisible by 2^64 and the output limbs are in u32 range. Nothing is executed; no solver is used (substitution, polynomial
normal forms, finite enumeration of order relations between limbs)."""
import re, itertools

P = 2**64 - 2**32 + 1
U32 = 2**32


class MasmError(Exception):
    pass


class Undecided(Exception):
    """the procedure uses a construct the integer model does not cover"""
    pass


# ---------------------------------------------------------------------------------------------------------------
# integer polynomials

class ZP:
    __slots__ = ("t",)

    def __init__(self, t=None):
        self.t = {k: v for k, v in (t or {}).items() if v}

    @staticmethod
    def const(c):
        return ZP({(): c})

    @staticmethod
    def var(n):
        return ZP({((n, 1),): 1})

    def __add__(self, o):
        o = zp(o)
        r = dict(self.t)
        for m, c in o.t.items():
            r[m] = r.get(m, 0) + c
        return ZP(r)

    def __neg__(self):
        return ZP({m: -c for m, c in self.t.items()})

    def __sub__(self, o):
        return self + (-zp(o))

    def __mul__(self, o):
        o = zp(o)
        r = {}
        for m1, c1 in self.t.items():
            for m2, c2 in o.t.items():
                d = dict(m1)
                for v, e in m2:
                    d[v] = d.get(v, 0) + e
                m = tuple(sorted(d.items()))
                r[m] = r.get(m, 0) + c1 * c2
        return ZP(r)

    __radd__ = __add__
    __rmul__ = __mul__

    def __eq__(self, o):
        return isinstance(o, ZP) and self.t == o.t

    def __hash__(self):
        return hash(frozenset(self.t.items()))

    def is_zero(self):
        return not self.t

    def const_value(self):
        if not self.t:
            return 0
        if list(self.t.keys()) == [()]:
            return self.t[()]
        return None

    def vars(self):
        return {v for m in self.t for v, e in m}

    def subst(self, env):
        if not (self.vars() & set(env)):
            return self
        res = ZP()
        for m, c in self.t.items():
            term = ZP.const(c)
            for v, e in m:
                x = zp(env[v]) if v in env else ZP.var(v)
                for _ in range(e):
                    term = term * x
            res = res + term
        return res

    def linear_in(self, v):
        """(coefficient, rest) if v occurs only in the monomial v^1 with an integer coefficient, else None"""
        coef, rest = 0, {}
        for m, c in self.t.items():
            d = dict(m)
            if v in d:
                if m != ((v, 1),):
                    return None
                coef = c
            else:
                rest[m] = c
        return (coef, ZP(rest)) if coef else None

    def divisible_by(self, n):
        return all(c % n == 0 for c in self.t.values())

    def __repr__(self):
        if not self.t:
            return "0"
        out = []
        for m, c in sorted(self.t.items(), key=lambda kv: (len(kv[0]), kv[0])):
            vs = "*".join(v if e == 1 else "%s^%d" % (v, e) for v, e in m)
            if not vs:
                out.append(str(c))
            elif c == 1:
                out.append(vs)
            elif c == -1:
                out.append("-" + vs)
            else:
                out.append("%d*%s" % (c, vs))
        return " + ".join(out).replace("+ -", "- ")


def zp(x):
    return x if isinstance(x, ZP) else ZP.const(int(x))


# ---------------------------------------------------------------------------------------------------------------
# parser

P_FIELD = 2**64 - 2**32 + 1


def eval_const_expr(expr, consts):
    """value of a Miden assembly constant expression (+ - * / // and parentheses over decimal numbers and earlier constants),
    in the field, with the usual precedence and left associativity"""
    toks = re.findall(r"//|[-+*/()]|0x[0-9a-fA-F]+|\d+|[A-Za-z_]\w*", expr)
    if "".join(toks) != expr:
        raise ValueError("cannot tokenise %r" % expr)
    pos = [0]

    def atom():
        t = toks[pos[0]]
        pos[0] += 1
        if t == "(":
            v = parse(1)
            pos[0] += 1
            return v
        if t[0].isdigit():
            return int(t, 0) % P_FIELD
        return consts[t]

    def parse(minp):
        lhs = atom()
        while pos[0] < len(toks) and toks[pos[0]] in ("+", "-", "*", "/", "//"):
            o = toks[pos[0]]
            pr = 1 if o in "+-" else 2
            if pr < minp:
                break
            pos[0] += 1
            rhs = parse(pr + 1)
            if o == "+":
                lhs = (lhs + rhs) % P_FIELD
            elif o == "-":
                lhs = (lhs - rhs) % P_FIELD
            elif o == "*":
                lhs = (lhs * rhs) % P_FIELD
            elif o == "//":
                lhs = lhs // rhs
            else:
                lhs = lhs * pow(rhs, P_FIELD - 2, P_FIELD) % P_FIELD
        return lhs
    return parse(1)


def expand(module, body, inline=True):
    """the same block with `repeat.n` written out as n copies and `exec.<local procedure without locals>` replaced by the
    procedure's body (both are exact by the language definition); nested blocks are expanded by the recursive calls"""
    out = []
    for node in body:
        if node[0] == "repeat":
            for _ in range(node[1]):
                out += expand(module, node[2], inline)
        elif node[0] == "if":
            out.append(("if", expand(module, node[1], inline), expand(module, node[2], inline), node[3]))
        elif node[0] == "while":
            out.append(("while", expand(module, node[1], inline), node[2]))
        elif inline and node[0] == "ins" and node[1].startswith("exec.") and "::" not in node[1] and \
                node[1][5:] in module.procs and module.procs[node[1][5:]].nlocals == 0 and not module.procs[node[1][5:]].exported:
            out += expand(module, module.procs[node[1][5:]].body, inline)
        else:
            out.append(node)
    return out


class Proc:
    def __init__(self, name, exported, nlocals, body, doc, line):
        self.name, self.exported, self.nlocals, self.body, self.doc, self.line = name, exported, nlocals, body, doc, line


class Module:
    def __init__(self, path):
        self.path = path
        self.procs = {}
        self.order = []
        self.imports = {}
        self.consts = {}
        self.parse(open(path).read())

    def parse(self, text):
        toks = []      # (token, line)
        docs = {}
        pending = []
        for ln, raw in enumerate(text.split("\n"), 1):
            s = raw.strip()
            if s.startswith("#!"):
                pending.append(s[2:].strip())
                continue
            s = s.split("#")[0].strip()
            if not s:
                if not raw.strip():
                    pass
                continue
            for t in s.split():
                if t.startswith("const.") and "=" in t:
                    name, expr = t[6:].split("=", 1)
                    try:
                        self.consts[name] = eval_const_expr(expr, self.consts)
                    except Exception as e:
                        raise MasmError("%s:%d: constant %s: %s" % (self.path, ln, name, e))
                elif self.consts and "." in t and not t.startswith(("use.", "export.", "proc.", "exec.", "call.", "syscall.", "procref.")):
                    parts = t.split(".")
                    t = ".".join([parts[0]] + [str(self.consts[x]) if x in self.consts else x for x in parts[1:]])
                if re.match(r"^(proc|export)\.", t) and pending:
                    docs[len(toks)] = pending
                if re.match(r"^(proc|export)\.", t):
                    pending_used = True
                toks.append((t, ln))
            if re.match(r"^(proc|export)\.", s.split()[0]):
                pending = []
            elif not s.startswith(("proc.", "export.")):
                pending = [] if not raw.strip().startswith("#!") else pending
        self.toks = toks
        i = 0

        def block(i, enders):
            body = []
            while i < len(toks):
                t, ln = toks[i]
                if t in enders:
                    return body, i
                if t == "if.true":
                    th, j = block(i + 1, ("else", "end"))
                    el = []
                    if toks[j][0] == "else":
                        el, j = block(j + 1, ("end",))
                    body.append(("if", th, el, ln))
                    i = j + 1
                elif t == "while.true":
                    b, j = block(i + 1, ("end",))
                    body.append(("while", b, ln))
                    i = j + 1
                elif t.startswith("repeat."):
                    b, j = block(i + 1, ("end",))
                    body.append(("repeat", int(t.split(".")[1]), b, ln))
                    i = j + 1
                else:
                    body.append(("ins", t, ln))
                    i += 1
            raise MasmError("unterminated block in %s" % self.path)
        while i < len(toks):
            t, ln = toks[i]
            m = re.match(r"^(proc|export)\.([A-Za-z_][\w]*)(?:\.(\d+))?$", t)
            if m:
                body, j = block(i + 1, ("end",))
                p = Proc(m.group(2), m.group(1) == "export", int(m.group(3) or 0), body, docs.get(i, []), ln)
                self.procs[p.name] = p
                self.order.append(p.name)
                i = j + 1
            elif t.startswith("use."):
                path = t[4:]
                alias = path.split("::")[-1]
                if i + 1 < len(toks) and toks[i + 1][0].startswith("->"):
                    alias = toks[i + 1][0][2:]
                    i += 1
                self.imports[alias] = path
                i += 1
            elif t == "begin":
                body, j = block(i + 1, ("end",))
                i = j + 1
            elif re.match(r"^export\.[\w:]+(->\w+)?$", t) or t.startswith("const."):
                i += 1
            else:
                raise MasmError("%s:%d: unexpected token %r at top level" % (self.path, ln, t))


# ---------------------------------------------------------------------------------------------------------------
# values and state

class Val:
    __slots__ = ("z", "ub", "b", "wrapped", "tag")

    def __init__(self, z, ub, b=None, wrapped=False, tag=None):
        self.z = zp(z)
        self.ub = ub            # inclusive upper bound of the integer value (lower bound 0)
        self.b = b              # boolean formula when the value is a flag
        self.wrapped = wrapped  # value is z mod p, z may exceed p
        self.tag = tag          # uninterpreted function application: (fname, args...) for u32and / clz etc.

    def __repr__(self):
        return "%r" % (self.z,)


def const(c):
    return Val(ZP.const(c), c, b=("const", c) if c in (0, 1) else None)


class State:
    def __init__(self):
        self.stack = []
        self.fresh = 0
        self.ranges = {}        # variable -> inclusive upper bound
        self.meaning = {}       # carry variable -> boolean formula (atom)
        self.eqs = []           # ZP = 0 facts from assertions
        self.asserted = []      # boolean formulas asserted true
        self.path = []          # (formula, truth) decisions at if.true
        self.adv = []           # advice variables popped, in order
        self.injected = []      # advice injectors seen
        self.notes = []
        self.mem = {}           # local index -> Val (word element granularity: (idx, k))
        self.defs = {}          # fresh variable -> (kind, operands)
        self.case = {}          # case assumptions chosen by the rule (e.g. {"pow2": "lo"})
        self.pow2 = {}          # D -> E with D * E = 2^32 (D a power of two below 2^32)
        self.rems = []          # (remainder expression, divisor expression): 0 <= remainder < divisor
        self.lows = []          # polynomials known to be in [0, 2^32) (low limbs produced by u32 instructions)

    def new(self, prefix, ub):
        self.fresh += 1
        n = "%s%d" % (prefix, self.fresh)
        self.ranges[n] = ub
        return n

    def clone(self):
        s = State()
        s.stack = list(self.stack)
        s.fresh = self.fresh
        s.ranges = dict(self.ranges)
        s.meaning = dict(self.meaning)
        s.eqs = list(self.eqs)
        s.asserted = list(self.asserted)
        s.path = list(self.path)
        s.adv = list(self.adv)
        s.injected = list(self.injected)
        s.notes = list(self.notes)
        s.mem = dict(self.mem)
        s.defs = dict(self.defs)
        s.case = dict(self.case)
        s.pow2 = dict(self.pow2)
        s.rems = list(self.rems)
        s.lows = list(self.lows)
        return s


def is_u32(v):
    return v.ub < U32 and not v.wrapped


def f_not(f):
    if f[0] == "const":
        return ("const", 1 - f[1])
    if f[0] == "not":
        return f[1]
    return ("not", f)


def f_and(a, b):
    return ("and", a, b)


def f_or(a, b):
    return ("or", a, b)


# ---------------------------------------------------------------------------------------------------------------
# executor

class Exec:
    def __init__(self, module, family_expected=None, depth=64):
        self.m = module
        self.family = family_expected
        self.depth = depth

    # --- helpers
    def need(self, st, n, ins):
        if len(st.stack) < n:
            raise Undecided("%s needs %d stack items" % (ins, n))

    def pop(self, st):
        return st.stack.pop(0)

    def push(self, st, v):
        st.stack.insert(0, v)

    def refine_ub(self, st, z, ub):
        """a low limb L = T - 2^32 * S >= 0 bounds S by ub(T) >> 32 (e.g. hi + carry of  a*b + p + k  never exceeds 2^32 - 1
        although hi <= 2^32 - 1 and carry <= 1 separately); facts (L, S, ub(T)) are recorded by the u32 instructions and chained
        when a low limb is an operand of the next one"""
        if ub < U32 or z.const_value() is not None:
            return ub
        for L, S, tub in st.lows:
            if S == z:
                ub = min(ub, tub >> 32)
        return ub

    def low_fact(self, st, L, carry, parts):
        """record L = (sum of parts) - 2^32 * carry; parts = [(polynomial or None, upper bound)]"""
        st.lows.append((L, carry, sum(u for z, u in parts)))
        for i, (z, u) in enumerate(parts):
            if z is None:
                continue
            for L0, S0, t0 in list(st.lows):
                if L0 == z:
                    st.lows.append((L, S0 + carry, t0 + sum(u2 for j, (z2, u2) in enumerate(parts) if j != i)))

    def u32_operand(self, st, v, ins, ln):
        if not is_u32(v):
            raise Undecided("%s:%d: operand of %s is not known to be a u32 value (%r, bound %s)" % (self.m.path, ln, ins, v.z, v.ub))

    def data_movement(self, st, name):
        """apply a data-movement instruction through the table validated by C05 (rules_c05.family_expected)"""
        from .mirsym import Poly
        exp = self.family(name)
        if exp is None or "ok" not in exp:
            return False
        n = 32
        if len(st.stack) < n:
            raise Undecided("stack model exhausted")
        new = []
        for x in exp["ok"]:
            if x.const_value() == 0:
                new.append(const(0))
            else:
                (vname,) = x.vars()
                new.append(st.stack[int(vname[1:])])
        # family tables describe the first 32 cells; deeper cells keep their relative order
        delta = len(new) - n
        st.stack = new + st.stack[n:] if delta >= 0 else new + st.stack[n:]
        return True

    def run_block(self, st, body, out, budget):
        """execute a block on one state; appends finished states to `out`"""
        states = [st]
        for node in body:
            nxt = []
            for s in states:
                if node[0] == "ins":
                    self.step(s, node[1], node[2], budget)
                    nxt.append(s)
                elif node[0] == "if":
                    c = self.pop(s)
                    if c.b is None:
                        raise Undecided("%s:%d: if.true on a value that is not a known flag" % (self.m.path, node[3]))
                    for truth, blk in ((1, node[1]), (0, node[2])):
                        s2 = s.clone()
                        s2.path.append((c.b, truth))
                        s2.eqs.append(c.z - ZP.const(truth))
                        sub = []
                        self.run_block(s2, blk, sub, budget)
                        nxt.extend(sub)
                elif node[0] == "repeat":
                    cur = [s]
                    for _ in range(node[1]):
                        n2 = []
                        for s3 in cur:
                            sub = []
                            self.run_block(s3, node[2], sub, budget)
                            n2.extend(sub)
                        cur = n2
                    nxt.extend(cur)
                elif node[0] == "while":
                    raise Undecided("%s:%d: while.true loops are not unrolled" % (self.m.path, node[2]))
            states = nxt
            if len(states) > 64:
                raise Undecided("too many paths")
        out.extend(states)

    def step(self, st, ins, ln, budget):
        budget[0] -= 1
        if budget[0] < 0:
            raise Undecided("instruction budget exhausted")
        parts = ins.split(".")
        op = parts[0]
        imm = parts[1:]
        # ---- procedure calls (inlined)
        if op == "exec":
            name = ".".join(imm)
            if "::" in name:
                raise Undecided("%s:%d: exec of an imported procedure %s" % (self.m.path, ln, name))
            if name not in self.m.procs:
                raise MasmError("%s:%d: unknown procedure %s" % (self.m.path, ln, name))
            sub = []
            self.run_block(st, self.m.procs[name].body, sub, budget)
            if len(sub) != 1 or sub[0] is not st:
                raise Undecided("%s:%d: exec.%s forks" % (self.m.path, ln, name))
            return
        # ---- data movement (C05-validated table)
        dm = {"drop": "Drop", "dropw": "DropW", "padw": "PadW", "swapdw": "SwapDw", "cswap": None, "cdrop": None}
        name = None
        if op in ("dup", "swap", "movup", "movdn", "dupw", "swapw", "movupw", "movdnw"):
            default = {"dup": 0, "swap": 1, "dupw": 0, "swapw": 1}.get(op)
            n = int(imm[0]) if imm else default
            fam = {"dup": "Dup", "swap": "Swap", "movup": "MovUp", "movdn": "MovDn", "dupw": "DupW", "swapw": "SwapW", "movupw": "MovUpW", "movdnw": "MovDnW"}[op]
            name = "%s%d" % (fam, n)
        elif op in dm and dm[op]:
            name = dm[op]
        if name:
            if not self.data_movement(st, name):
                raise Undecided("%s:%d: no data-movement model for %s" % (self.m.path, ln, ins))
            return
        # ---- constants
        if op == "push":
            for x in imm:
                v = int(x, 16) if x.startswith("0x") else int(x)
                self.push(st, const(v))
            return
        # ---- field arithmetic on small values
        if op in ("add", "sub", "mul") :
            if imm:
                b = const(int(imm[0]))
            else:
                b = self.pop(st)
            a = self.pop(st)
            if op == "add":
                z, ub = a.z + b.z, a.ub + b.ub
                ub = self.refine_ub(st, z, ub)
            elif op == "mul":
                z, ub = a.z * b.z, a.ub * b.ub
            else:
                # field subtraction a - b: an integer only when b <= a is known; keep as wrapped unless b is a constant <= lower bound (unknown) -> wrapped
                z, ub = a.z - b.z, a.ub
                self.push(st, Val(z, P - 1, wrapped=True))
                return
            wrapped = a.wrapped or b.wrapped or ub >= P
            self.push(st, Val(z, ub if not wrapped else P - 1, wrapped=wrapped))
            return
        if op in ("eq", "neq"):
            if imm:
                b = const(int(imm[0]))
            else:
                b = self.pop(st)
            a = self.pop(st)
            d = a.z - b.z
            dv = d.vars()
            if len(dv) == 1 and d == ZP.var(next(iter(dv))) and next(iter(dv)) in st.pow2:
                d = ZP.const(1)         # a power of two is not zero
            if d.const_value() is not None and not (a.wrapped or b.wrapped):
                r = 1 if d.const_value() == 0 else 0
                if op == "neq":
                    r = 1 - r
                self.push(st, const(r))
                return
            if (a.wrapped or b.wrapped) and not self.zero_test_ok(a, b):
                raise Undecided("%s:%d: equality test on a value that may have wrapped around the field modulus" % (self.m.path, ln))
            e = st.new("e", 1)
            atom = ("eq0", d)
            st.meaning[e] = atom
            st.defs[e] = ("eq0", d)
            v = Val(ZP.var(e), 1, b=atom)
            if op == "neq":
                v = Val(ZP.const(1) - ZP.var(e), 1, b=f_not(atom))
            self.push(st, v)
            return
        if op == "eqw":
            self.need(st, 8, ins)
            f = None
            zz = ZP.const(1)
            for i in range(4):
                a, b = st.stack[i], st.stack[4 + i]
                if a.wrapped or b.wrapped:
                    raise Undecided("%s:%d: eqw on wrapped values" % (self.m.path, ln))
                e = st.new("e", 1)
                atom = ("eq0", a.z - b.z)
                st.meaning[e] = atom
                st.defs[e] = atom
                f = atom if f is None else f_and(f, atom)
                zz = zz * ZP.var(e)
            self.push(st, Val(zz, 1, b=f))
            return
        if op == "not":
            a = self.pop(st)
            self.flag(a, ins, ln)
            self.push(st, Val(ZP.const(1) - a.z, 1, b=f_not(a.b)))
            return
        if op in ("and", "or"):
            b = self.pop(st); a = self.pop(st)
            self.flag(a, ins, ln); self.flag(b, ins, ln)
            if op == "and":
                self.push(st, Val(a.z * b.z, 1, b=f_and(a.b, b.b)))
            else:
                self.push(st, Val(a.z + b.z - a.z * b.z, 1, b=f_or(a.b, b.b)))
            return
        if op == "assert" or op == "assertz":
            a = self.pop(st)
            want = 1 if op == "assert" else 0
            st.eqs.append(a.z - ZP.const(want))
            if a.b is not None:
                st.asserted.append(a.b if want else f_not(a.b))
                if want and a.b[0] == "eq0":
                    st.eqs.append(a.b[1])       # an asserted zero test is the equation itself
            return
        if op == "assert_eq":
            b = self.pop(st); a = self.pop(st)
            if a.wrapped or b.wrapped:
                raise Undecided("%s:%d: assert_eq on wrapped values" % (self.m.path, ln))
            st.eqs.append(a.z - b.z)
            return
        if op in ("cdrop", "cswap"):
            c = self.pop(st); b = self.pop(st); a = self.pop(st)
            self.flag(c, ins, ln)
            # docs: cdrop [c, b, a] -> b if c = 1 else a ; cswap [c, b, a] -> [b, a] if c = 0 ... [a, b] if c = 1
            cv = c.z.const_value()
            if cv in (0, 1):
                sel = (lambda x, y: x) if cv == 1 else (lambda x, y: y)
            else:
                sel = lambda x, y: Val(c.z * x.z + (ZP.const(1) - c.z) * y.z, max(x.ub, y.ub), tag=("ite", c.b, x, y))
            if op == "cdrop":
                self.push(st, sel(b, a))
            else:
                self.push(st, sel(b, a))      # below: element that is `b` when swapped
                self.push(st, sel(a, b))      # top: `a` when c = 1, `b` when c = 0
            return
        # ---- u32 instructions (integer identities of docs/src/user_docs/assembly/u32_operations.md)
        if op == "u32assert2" or op == "u32assert" or op == "u32assertw":
            n = {"u32assert": 1, "u32assert2": 2, "u32assertw": 4}[op]
            for i in range(n):
                v = st.stack[i]
                if v.wrapped:
                    raise Undecided("%s:%d: u32assert on wrapped value" % (self.m.path, ln))
                vs = v.z.vars()
                if len(vs) == 1 and v.z == ZP.var(next(iter(vs))):
                    st.ranges[next(iter(vs))] = min(st.ranges.get(next(iter(vs)), P - 1), U32 - 1)
                    st.stack[i] = Val(v.z, min(v.ub, U32 - 1), b=v.b, tag=v.tag)
                else:
                    st.stack[i] = Val(v.z, min(v.ub, U32 - 1), b=v.b, tag=v.tag)
            return
        if op in ("u32overflowing_add", "u32wrapping_add"):
            b = self.pop(st) if not imm else const(int(imm[0])); a = self.pop(st)
            self.u32_operand(st, a, ins, ln); self.u32_operand(st, b, ins, ln)
            k = st.new("k", 1)
            st.defs[k] = ("carry", a.z + b.z)
            s = Val(a.z + b.z - ZP.const(U32) * ZP.var(k), U32 - 1)
            self.low_fact(st, s.z, ZP.var(k), [(a.z, a.ub), (b.z, b.ub)])
            self.push(st, s)
            if op.startswith("u32overflowing"):
                st.meaning[k] = ("ge", a.z + b.z, ZP.const(U32))
                self.push(st, Val(ZP.var(k), 1, b=("ge", a.z + b.z, ZP.const(U32))))
            return
        if op in ("u32overflowing_add3", "u32wrapping_add3"):
            c = self.pop(st); b = self.pop(st); a = self.pop(st)
            for x in (a, b, c):
                self.u32_operand(st, x, ins, ln)
            k = st.new("k", (a.ub + b.ub + c.ub) // U32)
            st.defs[k] = ("carry", a.z + b.z + c.z)
            self.push(st, Val(a.z + b.z + c.z - ZP.const(U32) * ZP.var(k), U32 - 1))
            if op.startswith("u32overflowing"):
                self.push(st, Val(ZP.var(k), st.ranges[k]))
            return
        if op in ("u32overflowing_sub", "u32wrapping_sub"):
            b = self.pop(st) if not imm else const(int(imm[0])); a = self.pop(st)
            self.u32_operand(st, a, ins, ln); self.u32_operand(st, b, ins, ln)
            if b.z.const_value() == 0:
                self.push(st, a)
                if op.startswith("u32overflowing"):
                    self.push(st, const(0))
                return
            if a.z.const_value() is not None and b.z.const_value() is not None:
                av, bv = a.z.const_value(), b.z.const_value()
                self.push(st, const((av - bv) % U32))
                if op.startswith("u32overflowing"):
                    self.push(st, const(1 if av < bv else 0))
                return
            k = st.new("k", 1)
            atom = ("lt", a.z, b.z)
            st.meaning[k] = atom
            st.defs[k] = ("borrow", a.z, b.z)
            self.push(st, Val(a.z - b.z + ZP.const(U32) * ZP.var(k), U32 - 1))
            if op.startswith("u32overflowing"):
                self.push(st, Val(ZP.var(k), 1, b=atom))
            return
        if op in ("u32overflowing_mul", "u32wrapping_mul"):
            b = self.pop(st) if not imm else const(int(imm[0])); a = self.pop(st)
            self.u32_operand(st, a, ins, ln); self.u32_operand(st, b, ins, ln)
            hub = (a.ub * b.ub) >> 32
            h = st.new("h", hub)
            st.defs[h] = ("mulhi", a.z * b.z)
            lub = U32 - 1
            for x in (a, b):
                cv = x.z.const_value()
                if cv and cv & (cv - 1) == 0 and cv < U32:
                    lub = U32 - cv          # (y * 2^s) mod 2^32 is a multiple of 2^s
            self.push(st, Val(a.z * b.z - ZP.const(U32) * ZP.var(h), lub))
            if op.startswith("u32overflowing"):
                self.push(st, Val(ZP.var(h), hub))
            return
        if op in ("u32overflowing_madd", "u32wrapping_madd"):
            # docs: [b, a, c, ...] -> [hi, lo]: a * b + c
            b = self.pop(st); a = self.pop(st); c = self.pop(st)
            for x in (a, b, c):
                self.u32_operand(st, x, ins, ln)
            hub = (a.ub * b.ub + c.ub) >> 32
            h = st.new("h", hub)
            st.defs[h] = ("mulhi", a.z * b.z + c.z)
            self.low_fact(st, a.z * b.z + c.z - ZP.const(U32) * ZP.var(h), ZP.var(h), [(None, a.ub * b.ub), (c.z, c.ub)])
            self.push(st, Val(a.z * b.z + c.z - ZP.const(U32) * ZP.var(h), U32 - 1))
            if op.startswith("u32overflowing"):
                self.push(st, Val(ZP.var(h), hub))
            return
        if op in ("u32and", "u32or", "u32xor"):
            b = self.pop(st); a = self.pop(st)
            self.u32_operand(st, a, ins, ln); self.u32_operand(st, b, ins, ln)
            ub_ = U32 - 1
            if op == "u32and":
                for x in (a, b):
                    if x.z.const_value() is not None:
                        ub_ = min(ub_, x.z.const_value())
            n = st.new("w", ub_)
            st.defs[n] = (op, a, b)
            self.push(st, Val(ZP.var(n), ub_, tag=(op, a, b)))
            return
        if op in ("u32clz", "u32ctz", "u32clo", "u32cto", "u32popcnt"):
            a = self.pop(st)
            self.u32_operand(st, a, ins, ln)
            n = st.new("c", 32)
            st.defs[n] = (op, a)
            self.push(st, Val(ZP.var(n), 32, tag=(op, a)))
            return
        # ---- memory, locals, depth (C18): words are kept positionally; loads produce fresh words recorded with their address
        if op == "neg":
            a = self.pop(st)
            self.push(st, Val(ZP.const(0) - a.z, P - 1, wrapped=True))
            return
        if op == "sdepth":
            self.push(st, Val(ZP.var("depth@%d" % len(st.notes)), U32 - 1, tag=("sdepth",)))
            st.notes.append(("sdepth", ln))
            return
        if op == "loc_storew":
            st.mem[("loc", int(imm[0]))] = list(st.stack[:4])
            st.notes.append(("loc_storew", int(imm[0]), ln))
            return
        if op == "loc_loadw":
            k = ("loc", int(imm[0]))
            if k not in st.mem:
                raise Undecided("%s:%d: loc_loadw.%s before any store" % (self.m.path, ln, imm[0]))
            st.stack[:4] = list(st.mem[k])
            st.notes.append(("loc_loadw", int(imm[0]), ln))
            return
        if op == "mem_loadw":
            a = self.pop(st) if not imm else const(int(imm[0]))
            w = []
            for i in range(4):
                n = st.new("ld", P - 1)
                w.append(Val(ZP.var(n), P - 1))
            st.stack[:4] = w
            st.notes.append(("mem_loadw", a.z, [x.z for x in w], ln))
            return
        if op == "mem_storew":
            a = self.pop(st) if not imm else const(int(imm[0]))
            st.notes.append(("mem_storew", a.z, [x.z for x in st.stack[:4]], ln))
            return
        if op == "adv_pipe":
            ptr = st.stack[12]
            w = []
            for i in range(8):
                n = st.new("adv", P - 1)
                st.adv.append(n)
                w.append(Val(ZP.var(n), P - 1))
            st.stack[:8] = w
            st.stack[12] = Val(ptr.z + ZP.const(2), P - 1, wrapped=ptr.wrapped)
            st.notes.append(("adv_pipe", ptr.z, [x.z for x in w], ln))
            return
        if op == "hperm":
            ins_ = [x.z for x in st.stack[:12]]
            w = []
            for i in range(12):
                n = st.new("hp", P - 1)
                w.append(Val(ZP.var(n), P - 1))
            st.stack[:12] = w
            st.notes.append(("hperm", ins_, [x.z for x in w], ln))
            return
        # ---- powers of two, splitting and division (shifts)
        if op == "pow2":
            a = self.pop(st)
            mode = st.case.get("pow2", "opaque")
            if mode == "concrete":
                self.push(st, const(st.case["pow2_value"]))
                st.notes.append(("pow2", a.z, a.tag))
                return
            if mode == "opaque":
                t = st.new("T", 2 ** 63)
                st.defs[t] = ("pow2", a)
                self.push(st, Val(ZP.var(t), 2 ** 63, tag=("pow2", a)))
            else:
                d, e = st.new("D", 2 ** 31), st.new("E", 2 ** 32)
                st.pow2[d] = e
                st.defs[d] = ("pow2-part", a, mode)
                self.push(st, Val(ZP.var(d), 2 ** 31) if mode == "lo" else Val(ZP.var(d) * ZP.const(U32), 2 ** 63))
            return
        if op == "u32split":
            a = self.pop(st)
            if a.wrapped:
                raise Undecided("%s:%d: u32split of a wrapped value" % (self.m.path, ln))
            if a.ub < U32:
                hi, lo = const(0), a
            elif a.z.divisible_by(U32) and (a.ub >> 32) < U32 and not (a.z.const_value() is not None and False):
                hi, lo = Val(ZP({m_: c // U32 for m_, c in a.z.t.items()}), a.ub >> 32), const(0)
            else:
                h = st.new("H", a.ub >> 32)
                st.defs[h] = ("split-hi", a.z)
                hi, lo = Val(ZP.var(h), a.ub >> 32), Val(a.z - ZP.const(U32) * ZP.var(h), U32 - 1)
            self.push(st, lo)
            self.push(st, hi)
            return
        if op == "u32divmod":
            b = self.pop(st) if not imm else const(int(imm[0])); a = self.pop(st)
            self.u32_operand(st, a, ins, ln); self.u32_operand(st, b, ins, ln)
            if a.z.const_value() is not None and b.z.const_value() not in (None, 0):
                self.push(st, const(a.z.const_value() // b.z.const_value()))
                self.push(st, const(a.z.const_value() % b.z.const_value()))
                return
            q = st.new("q", a.ub)
            st.defs[q] = ("quot", a.z, b.z)
            r = Val(a.z - ZP.var(q) * b.z, max(b.ub - 1, 0))
            st.rems.append((r.z, b.z, q))
            self.push(st, Val(ZP.var(q), a.ub))
            self.push(st, r)
            return
        if op == "div":
            b = self.pop(st) if not imm else const(int(imm[0])); a = self.pop(st)
            if a.z.is_zero():
                self.push(st, const(0))
                return
            bv = b.z.const_value()
            if bv not in (None, 0) and a.z.divisible_by(bv) and not a.wrapped:
                self.push(st, Val(ZP({m_: c // bv for m_, c in a.z.t.items()}), a.ub // bv))
                return
            vs = b.z.vars()
            if len(vs) == 1 and b.z == ZP.var(next(iter(vs))) and next(iter(vs)) in st.pow2 and a.z.divisible_by(U32) and not a.wrapped:
                e = st.pow2[next(iter(vs))]
                self.push(st, Val(ZP({m_: c // U32 for m_, c in a.z.t.items()}) * ZP.var(e), (a.ub >> 32) * (2 ** 32)))
                return
            raise Undecided("%s:%d: field division %r / %r is outside the integer model" % (self.m.path, ln, a.z, b.z))
        # ---- advice
        if op == "adv_push":
            n = int(imm[0])
            for _ in range(n):
                a = st.new("adv", P - 1)
                st.adv.append(a)
                self.push(st, Val(ZP.var(a), P - 1))
            return
        if op.startswith("adv") and op != "adv_push" and op not in ("adv_loadw", "adv_pipe"):
            # advice injector (decorator): no effect on the stack
            st.injected.append(ins)
            return
        if op in ("loc_store", "loc_load", "mem_load", "mem_store", "locaddr",
                  "u32div", "u32mod", "inv", "exp", "u32shl", "u32shr", "u32rotl", "u32rotr", "u32lt", "u32gt",
                  "u32lte", "u32gte", "u32min", "u32max", "ext2mul", "hmerge", "hash", "mtree_get", "mtree_set", "mtree_merge", "mtree_verify",
                  "adv_loadw", "mem_stream", "caller", "clk", "call", "syscall", "dynexec", "dyncall", "procref", "u32cast", "u32test", "u32testw",
                  "ilog2", "is_odd", "lt", "gt", "lte", "gte", "eqw", "assert_eqw", "assertz", "cswapw", "cdropw", "fri_ext2fold4", "rcomb_base", "ext2add", "ext2sub",
                  "ext2neg", "ext2inv", "ext2div", "ext2conj", "emit", "trace", "debug", "breakpoint", "nop"):
            raise Undecided("%s:%d: instruction %s is outside the integer model" % (self.m.path, ln, ins))
        raise MasmError("%s:%d: unknown instruction %s" % (self.m.path, ln, ins))

    def flag(self, v, ins, ln):
        if v.b is None:
            if v.ub <= 1 and not v.wrapped:
                v.b = ("var", repr(v.z))
                return
            raise Undecided("%s:%d: operand of %s is not a known flag" % (self.m.path, ln, ins))

    def zero_test_ok(self, a, b):
        # x*y mod p == 0 iff x*y == 0 over the integers when x, y < p (p prime): products of in-range values may be zero-tested
        return b.z.is_zero()

    def run_proc(self, name, inputs, budget=4000):
        st = State()
        st.stack = list(inputs) + [Val(ZP.var("deep%d" % i), P - 1) for i in range(len(inputs), 64)]
        for v in inputs:
            vs = v.z.vars() if hasattr(v.z, "vars") else set()
            if len(vs) == 1 and v.z == ZP.var(next(iter(vs))):
                st.ranges.setdefault(next(iter(vs)), v.ub)
        out = []
        self.run_block(st, self.m.procs[name].body, out, [budget])
        return out

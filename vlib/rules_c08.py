"""C08 — the program commitment is the specified MAST hash: block domains and child order (constructor vs decoder),
opcode table, the batching automaton (exhaustive), decorators / debug mode outside the hash, recorded hash."""
import re
from .mirutil import *
from .mirsym import Interp, Agg, Poly, Term, Ptr, Opaque, P, R_INV
from . import opmodel, batching, lowering

LEVEL = "model_checking"
BLK = r"^miden_core::program::blocks::"


def r1_domains(ctx, F):
    ops = opmodel.opcode_table(F)
    want = {"Join::DOMAIN": ("join_block::Join::DOMAIN", "Join"), "Split::DOMAIN": ("split_block::Split::DOMAIN", "Split"),
            "Loop::DOMAIN": ("loop_block::Loop::DOMAIN", "Loop"), "Call::CALL_DOMAIN": ("call_block::Call::CALL_DOMAIN", "Call"),
            "Call::SYSCALL_DOMAIN": ("call_block::Call::SYSCALL_DOMAIN", "SysCall"), "Dyn::DOMAIN": ("dyn_block::Dyn::DOMAIN", "Dyn")}
    vals = {}
    for name, (cid, op) in want.items():
        raw = F.const(BLK + re.escape(cid) + "$")
        v = int(raw) * R_INV % P
        vals[name] = v
        ctx.inst(key=name, nontrivial=True)
        ctx.oblig(v == ops[op])
        if v != ops[op]:
            ctx.violation("domain-value|%s" % name, "core/src/program/blocks", "%s = %d but the opcode of %s is %d: the block hash is not domain-separated as specified" % (name, v, op, ops[op]))
    span = int(F.const(BLK + r"span_block::Span::DOMAIN$")) * R_INV % P
    ctx.sample({"domains": vals, "span_domain": span})
    if span != 0:
        ctx.violation("domain-value|Span::DOMAIN", "core/src/program/blocks/span_block.rs", "Span::DOMAIN must be 0")
    if len(set(vals.values())) != len(vals) or 0 in vals.values():
        ctx.violation("domains-not-distinct", "core/src/program/blocks", "control block domains must be pairwise distinct and non-zero: %s" % vals)
    # constructor side: merge_in_domain(children, DOMAIN) and decoder side: hash_control_block(c1, c2, DOMAIN, ..) name the same constant, children in the same order
    table = [
        ("Join", BLK + r"join_block::Join::new$", "Join::DOMAIN", r"^miden_processor::decoder::Process::start_join_block$", (r"Join::first$", r"Join::second$")),
        ("Split", BLK + r"split_block::Split::new$", "Split::DOMAIN", r"^miden_processor::decoder::Process::start_split_block$", (r"Split::on_true$", r"Split::on_false$")),
        ("Loop", BLK + r"loop_block::Loop::new$", "Loop::DOMAIN", r"^miden_processor::decoder::Process::start_loop_block$", (r"Loop::body$", None)),
        ("Dyn", None, "Dyn::DOMAIN", r"^miden_processor::decoder::Process::start_dyn_block$", (None, None)),
    ]
    def named_consts(fn, o):
        out = set()
        if "named" in o:
            out.add(o["named"])
        if "l" in o:
            for k in fn.backward_slice(o["l"])["consts"]:
                if "named" in k:
                    out.add(k["named"])
                if "promoted" in k:
                    pf = F.fns.get(k["promoted"])
                    if pf:
                        for b in pf.blocks:
                            for s in b["s"]:
                                for oo in pf.rvalue_operands(s["r"]):
                                    if isinstance(oo, dict) and "named" in oo:
                                        out.add(oo["named"])
        return out
    for name, ctor_pat, dom, dec_pat, kids in table:
        # Dyn's hash is a precomputed constant (pinned for every input by the existing test dyn_hash_is_correct): decoder side only
        ctor, dec = (F.fn(ctor_pat) if ctor_pat else None), F.fn(dec_pat)
        ctx.inst(key="pair|" + name, nontrivial=True)
        m = ctor.calls_to(r"hasher::merge_in_domain$") if ctor else [None]
        h = dec.calls_to(r"Chiplets::hash_control_block$")
        ok = len(m) == 1 and len(h) == 1
        if ok:
            dc = named_consts(ctor, m[0][2]["args"][1]) if ctor else {dom}
            dd = named_consts(dec, h[0][2]["args"][3])
            ok = any(x.endswith(dom) for x in dc) and any(x.endswith(dom) for x in dd)
            if not ok:
                ctx.violation("domain-constant|%s" % name, dec.loc(h[0][2]["ln"]), "%s: constructor hashes with %s, decoder with %s; both must use %s" % (name, sorted(dc), sorted(dd), dom))
            for i, kp in enumerate(kids):
                a = h[0][2]["args"][1 + i]
                sl = dec.backward_slice(a["l"]) if "l" in a else {"calls": []}
                srcs = [c for b2, c, t in sl["calls"] if c.startswith("miden_core::program::blocks")]
                if kp is None:
                    okk = not [c for c in srcs if re.search(r"::(first|second|on_true|on_false|body)$", c)]
                else:
                    okk = any(re.search(kp, c) for c in srcs) and not any(re.search(k2, c) for k2 in kids if k2 and k2 != kp for c in srcs)
                ctx.oblig(okk)
                if not okk:
                    ctx.violation("child-order|%s|%d" % (name, i), dec.loc(h[0][2]["ln"]), "%s: child %d passed to hash_control_block derives from %s (expected %s)" % (name, i + 1, sorted(short(c) for c in srcs), kp))
        else:
            ctx.violation("hash-sites|%s" % name, dec.loc(), "%s: expected one merge_in_domain in the constructor and one hash_control_block in the decoder" % name)
    # constructor child order by abstract interpretation
    for name, ctor_pat, nkids in (("Join", BLK + r"join_block::Join::new$", 2), ("Split", BLK + r"split_block::Split::new$", 2), ("Loop", BLK + r"loop_block::Loop::new$", 1)):
        rec = []
        I = Interp(F)
        I.havoc = True
        I.overrides.append((re.compile(r"blocks::CodeBlock::hash$"), lambda I, a, f: Term("hash", a[0].get().name if hasattr(a[0].get(), "name") else repr(a[0]))))
        I.overrides.append((re.compile(r"hasher::merge_in_domain$"), lambda I, a, f: (rec.append(a), Term("digest"))[1]))
        I.overrides.append((re.compile(r"Box::new$"), lambda I, a, f: a[0]))
        kids = [Opaque("child%d" % i) for i in range(nkids)]
        try:
            if name == "Join":
                I.call(F.fn(ctor_pat).id, [Agg(kids, "array")])
            else:
                I.call(F.fn(ctor_pat).id, kids)
        except Exception as e:
            ctx.violation("UNANALYSABLE|%s::new" % name, F.fn(ctor_pat).loc(), str(e)[:200])
            continue
        ctx.inst(key="ctor|" + name, nontrivial=True)
        got = [repr(x) for x in (rec[0][0].get().items if rec and isinstance(rec[0][0], Ptr) else [])]
        want_k = ["hash('child%d')" % i for i in range(nkids)]
        ok = got[:nkids] == want_k
        ctx.oblig(ok)
        if not ok:
            ctx.violation("ctor-child-order|%s" % name, F.fn(ctor_pat).loc(), "%s::new hashes %s; the specification hashes the children in order %s" % (name, got, want_k))


def r2_opcodes(ctx, F):
    ops = opmodel.opcode_table(F)
    ctx.floor("operations", len(ops), 89)
    inv = {}
    for n, oc in ops.items():
        ctx.inst(key=n)
        if oc in inv or not (0 <= oc < 128):
            ctx.violation("opcode|%s" % n, "core/src/operations/mod.rs", "opcode %d of %s collides with %s or exceeds 7 bits" % (oc, n, inv.get(oc)))
        inv[oc] = n
    I = Interp(F)
    fn = F.fn(r"^miden_core::operations::Operation::imm_value$")
    for v in opmodel.operation_variants(F):
        val = Agg([opmodel.dummy_payload(f["ty"]) for f in v["fields"]], "adt", opmodel.OPS, v["name"])
        r = I.call(fn.id, [Ptr([val], 0)])
        some = isinstance(r, Agg) and r.variant == "Some"
        if some != (v["name"] == "Push"):
            ctx.violation("imm-value|%s" % v["name"], fn.loc(), "imm_value() is %s for %s; only Push carries an immediate" % ("Some" if some else "None", v["name"]))
    ob = F.const(r"^miden_core::operations::Operation::OP_BITS$")
    gs = F.const(r"^miden_core::program::blocks::span_block::GROUP_SIZE$")
    bs = F.const(r"^miden_core::program::blocks::span_block::BATCH_SIZE$")
    ctx.inst(key="sizes", nontrivial=True)
    ok = ob == 7 and gs * ob <= 63 and gs == 9 and bs == 8
    ctx.oblig(ok)
    if not ok:
        ctx.violation("group-sizes", "core/src/program/blocks/span_block.rs", "OP_BITS=%s GROUP_SIZE=%s BATCH_SIZE=%s (specified: 7-bit opcodes, 9 per 64-bit group, 8 groups)" % (ob, gs, bs))


def r3_automaton(ctx, F):
    R = batching.explore(F)
    ctx.extra["states"] = R["states"]
    ctx.extra["transitions"] = R["transitions"]
    ctx.extra["traces_validated_against_impl"] = 0
    ctx.inst(n=R["transitions"])
    for st, b in R["finals"][:3]:
        ctx.sample({"history": "".join(c[0] for c in st.hist), "layout": [(s[0], "".join(x[0] for x in s[1])) if s and s[0] == "ops" else (s[0] if s else None) for s in st.shadow]})
    r = ctx.rules[ctx.cur]
    r["nontrivial"] |= {"state%d" % i for i in range(R["states"])}
    ctx.floor("accumulator-states", R["states"], 5000)
    seen = set()
    for kind, desc, msg in R["violations"]:
        if kind in seen:
            continue
        seen.add(kind)
        ctx.violation("batching|%s" % kind, "core/src/program/blocks/span_block.rs", "%s [first reached with %s]" % (msg, desc))
    ctx.oblig(not R["violations"], n=max(1, R["transitions"]))


def r4_decorators(ctx, F):
    L0 = lowering.lower_all(F, debug_mode=False)
    L1 = lowering.lower_all(F, debug_mode=True)
    n = 0
    for v in sorted(L0):
        a = [(p["outcome"], p["ops"]) for p in L0[v].paths if p["outcome"] == "ok"]
        b = [(p["outcome"], p["ops"]) for p in L1[v].paths if p["outcome"] == "ok"]
        ctx.inst(key=v, nontrivial=bool(L1[v].paths and any(p["effects"] for p in L1[v].paths)))
        n += 1
        if v == "Breakpoint":
            continue    # documented exception of the property (breakpoint emits a NOOP only in debug mode)
        ok = repr(a) == repr(b)
        ctx.oblig(ok)
        if not ok:
            ctx.violation("debug-mode-changes-ops|%s" % v, "assembly/src/assembler/instruction/mod.rs", "%s lowers to %s without and %s with debug mode: the MAST root would depend on debug mode"
                          % (v, [x[1] for x in a][:2], [x[1] for x in b][:2]))
    for v in ("AdvInject", "Debug", "Emit", "Trace"):
        for p in L0[v].paths:
            if p["outcome"] == "ok":
                ctx.oblig(not p["ops"])
                if p["ops"]:
                    ctx.violation("decorator-emits-ops|%s" % v, "assembly/src/assembler/instruction/mod.rs", "%s must lower to decorators only, but emits operations %s" % (v, p["ops"]))
    # Span::with_decorators: the hash flows from batch_ops(operations) only
    sw = F.fn(BLK + r"span_block::Span::with_decorators$")
    bo = sw.calls_to(r"span_block::batch_ops$")
    ctx.inst(key="with_decorators", nontrivial=True)
    ok = len(bo) == 1
    if ok:
        sl = sw.backward_slice(bo[0][2]["args"][0]["l"]) if "l" in bo[0][2]["args"][0] else {"args": set()}
        ok = sl["args"] == {1}
    ctx.oblig(ok)
    if not ok:
        ctx.violation("decorators-in-hash", sw.loc(), "Span::with_decorators must batch (and hash) only the operations argument")


def r5_recorded_hash(ctx, F):
    ex = F.fn(r"^miden_processor::execute$")
    ctx.inst(key="execute", nontrivial=True)
    ok = any(c.endswith("ExecutionTrace::program_hash") for bi, c, t in ex.calls()) and any(c.endswith("Program::hash") for bi, c, t in ex.calls())
    ctx.oblig(ok)
    if not ok:
        ctx.violation("hash-consistency-check", ex.loc(), "processor::execute no longer compares program.hash() with trace.program_hash()")
    tn = F.fn(r"^miden_processor::trace::ExecutionTrace::new$")
    pi = tn.calls_to(r"ProgramInfo::new$")
    ok = False
    for bi, c, t in pi:
        sl = tn.backward_slice(t["args"][0]["l"]) if "l" in t["args"][0] else {"calls": []}
        ok = ok or any(cc.endswith("Decoder::program_hash") or cc.endswith("program_hash") for b2, cc, tt in sl["calls"])
    ctx.inst(key="ExecutionTrace::new", nontrivial=True)
    ctx.oblig(ok)
    if not ok:
        ctx.violation("recorded-hash-source", tn.loc(), "ExecutionTrace::new must build ProgramInfo from the decoder's program hash")


def r6_span_builder(ctx, F):
    """the operation list handed to CodeBlock::new_span_with_decorators is exactly the builder's operations, whatever decorators
    the builder holds (the MAST root must not depend on decorators); decorator-adding methods leave the operations untouched"""
    from .mirsym import Interp, Agg, Term, Ptr, Opaque, deref, Unanalysable, PanicReached
    adt = F.adt(r"^miden_assembly::assembler::span_builder::SpanBuilder$")
    fields = [f["name"] for f in adt["variants"][0]["fields"]]
    ctx.floor("span-builder-fields", len([f for f in fields if f in ("ops", "decorators", "epilogue")]), 3)

    def builder(ops, decs, epi=()):
        vals = {"ops": Agg(list(ops), "vec"), "decorators": Agg([Agg([p_, Term(d)], "tuple") for p_, d in decs], "vec"), "epilogue": Agg(list(epi), "vec"), "last_asmop_pos": 0}
        return Agg([vals.get(n, Opaque(n)) for n in fields], "adt", adt["id"], adt["variants"][0]["name"])
    base_ops = [Term("op1"), Term("op2"), Term("op3")]
    for fname, by_value in (("extract_span_into", False), ("extract_final_span_into", True)):
        fn = F.fn(r"span_builder::SpanBuilder::%s$" % fname)
        epi = [Term("epi1")] if by_value else []
        want = [repr(x) for x in base_ops + epi]
        for decs in ([], [(3, "D")], [(0, "D")], [(1, "D"), (3, "E")], [(3 + len(epi), "D")]):
            key = "%s|decorators=%s" % (fname, [p_ for p_, d in decs])
            ctx.inst(key=key, nontrivial=bool(decs))
            got = {}

            def ns(I, a, f):
                got["ops"] = [repr(x) for x in deref(a[0]).items]
                got["decs"] = [repr(x) for x in deref(a[1]).items] if len(a) > 1 else []
                return Opaque("span")
            I = Interp(F)
            I.overrides.append((re.compile(r"CodeBlock::new_span_with_decorators$|CodeBlock::new_span$"), ns))
            sb = builder(base_ops, decs, epi)
            try:
                I.call(fn.id, [sb if by_value else Ptr([sb], 0), Ptr([Agg([], "vec")], 0)])
            except (Unanalysable, PanicReached) as e:
                ctx.violation("UNANALYSABLE|%s" % fname, fn.loc(), str(e)[:300])
                continue
            ok = got.get("ops") == want and len(got.get("decs", [])) == len(decs)
            ctx.oblig(ok)
            if not ok:
                ctx.violation("span-ops-depend-on-decorators|%s" % fname, fn.loc(), "%s with decorators at positions %s builds the span from operations %s instead of %s: the program hash would depend on decorators (or debug mode)"
                              % (fname, [p_ for p_, d in decs], got.get("ops"), want))
    for fname in ("push_decorator", "push_advice_injector"):
        fn = F.fn(r"span_builder::SpanBuilder::%s$" % fname)
        ctx.inst(key=fname, nontrivial=True)
        sb = builder(base_ops, [(1, "D")])
        try:
            Interp(F).call(fn.id, [Ptr([sb], 0), Opaque("decorator")])
        except (Unanalysable, PanicReached) as e:
            ctx.violation("UNANALYSABLE|%s" % fname, fn.loc(), str(e)[:300])
            continue
        d = dict(zip(fields, sb.items))
        ok = [repr(x) for x in d["ops"].items] == [repr(x) for x in base_ops] and len(d["decorators"].items) == 2 and d["decorators"].items[-1].items[0] == 3
        ctx.oblig(ok)
        if not ok:
            ctx.violation("decorator-api|%s" % fname, fn.loc(), "%s must leave the operations untouched and record the decorator at the current operation count: ops %s decorators %s" % (fname, d["ops"], d["decorators"]))


def run(ctx, F):
    ctx.trusted += ["rustc MIR via mirfacts", "mirsym (exact integer evaluation of the accumulator methods)", "docs/src/design/programs.md batching rules as specification"]
    ctx.assumptions += ["hash values themselves are not computed; the accumulator is explored exhaustively over its finite abstract state space with three input classes (NOOP, non-zero opcode, immediate-carrying)"]
    ctx.extra["exhaustive"] = True
    ctx.run_rule("C08-R1", "control-block domains equal the opcodes of the like-named operations, are distinct and non-zero; constructor and decoder hash with the same constant and child order", r1_domains, F)
    ctx.run_rule("C08-R2", "opcode table injective and 7-bit; only Push carries an immediate; OP_BITS/GROUP_SIZE/BATCH_SIZE as specified", r2_opcodes, F)
    ctx.run_rule("C08-R3", "operation-batch accumulator explored exhaustively as a finite-state machine: acceptance equals the documented rules, no out-of-range slot, no immediate-carrying op last in a group, immediates never reused as op groups, op_counts and group values of into_batch match the layout", r3_automaton, F)
    ctx.run_rule("C08-R4", "debug mode and decorator instructions leave the operation sequence unchanged; the span hash flows from the operations only", r4_decorators, F)
    ctx.run_rule("C08-R6", "SpanBuilder hands exactly its operations to the span constructor whatever decorators it holds; decorator-adding methods do not touch the operations", r6_span_builder, F)
    ctx.run_rule("C08-R5", "the hash recorded by an execution is the decoder's program hash and is compared with program.hash()", r5_recorded_hash, F)

"""Two small interpreters for stdlib/asm/collections/mmr.masm (C18-R4).

BitFlow   bit-cube interpretation of the loop helpers (u32unchecked_trailing_ones, trailing_ones, ilog2_checked): the input
          number is a vector of bit variables, every instruction is exact on (partially known) bit vectors, and an instruction
          that needs a concrete value forks on the lowest unknown bit it depends on.  Each path is therefore a cube of input
          bits with a concrete outcome (result cells or a VM failure); the cubes partition the input space.
TermFlow  term extraction for the loop-free parts (get, add's prologue / loop body / epilogue, num_leaves_to_num_peaks,
          num_peaks_to_message_size): stack cells are terms over the inputs, memory / Merkle instructions are recorded as
          events, calls to the loop helpers are replaced by their contracts (decided by BitFlow).  `tev` evaluates a term
          under an assignment of the inputs with the VM's field / u32 semantics."""
from .masm import Module, MasmError, Undecided
from . import rules_c05

P = 2 ** 64 - 2 ** 32 + 1
U32 = 2 ** 32
FAM = {"dup": "Dup", "swap": "Swap", "movup": "MovUp", "movdn": "MovDn", "dupw": "DupW", "swapw": "SwapW", "movupw": "MovUpW", "movdnw": "MovDnW"}
FAM_DEFAULT = {"dup": 0, "swap": 1, "dupw": 0, "swapw": 1}


class Fork(Exception):
    def __init__(self, var):
        self.var = var


class Fail(Exception):
    """the VM stops with an error on this path"""


class Diverge(Exception):
    pass


def move(stack, name):
    """apply a data-movement instruction through C05's validated table (stack of arbitrary python values)"""
    exp = rules_c05.family_expected(name)
    if exp is None or "ok" not in exp:
        raise Undecided("no data-movement model for %s" % name)
    while len(stack) < 40:
        stack.append(("deep", len(stack)))
    new = []
    for x in exp["ok"]:
        if x.const_value() == 0:
            new.append(0)
        else:
            (v,) = x.vars()
            new.append(stack[int(v[1:])])
    stack[:] = new + stack[32:]


def data_movement(stack, op, imm):
    if op in FAM:
        n = int(imm[0]) if imm else FAM_DEFAULT.get(op)
        if n is None:
            raise Undecided("%s without an index" % op)
        move(stack, "%s%d" % (FAM[op], n))
        return True
    if op in ("drop", "dropw", "padw"):
        move(stack, {"drop": "Drop", "dropw": "DropW", "padw": "PadW"}[op])
        return True
    return False


# ---- BitFlow -------------------------------------------------------------------------------------------------------------------

def is_word(x):
    return isinstance(x, tuple) and x and x[0] == "w"


def mk_word(entries):
    entries = tuple(entries)
    if all(isinstance(e, int) for e in entries):
        return sum(e << i for i, e in enumerate(entries))
    return ("w", entries)


def entries_of(x, width=32):
    if is_word(x):
        if len(x[1]) != width:
            raise Fail("operand wider than %d bits" % width)
        return x[1]
    if isinstance(x, int):
        if x >= 2 ** width:
            raise Fail("operand %d is not a %d-bit value" % (x, width))
        return tuple((x >> i) & 1 for i in range(width))
    raise Undecided("value %r in a bit operation" % (x,))


def conc(x):
    if isinstance(x, int):
        return x
    if is_word(x):
        for e in x[1]:
            if not isinstance(e, int):
                raise Fork(e[1])
    raise Undecided("value %r used as a number" % (x,))


class BitFlow:
    def __init__(self, module):
        self.m = module

    def run_block(self, body, st, depth):
        for node in body:
            if node[0] == "ins":
                self.step(node[1], node[2], st, depth)
            elif node[0] == "if":
                c = conc(st.pop(0))
                if c not in (0, 1):
                    raise Fail("non-binary condition")
                self.run_block(node[1] if c else node[2], st, depth)
            elif node[0] == "while":
                n = 0
                while True:
                    c = conc(st.pop(0))
                    if c not in (0, 1):
                        raise Fail("non-binary condition")
                    if not c:
                        break
                    n += 1
                    if n > 80:
                        raise Diverge("loop at line %d runs more than 80 times" % node[2])
                    self.run_block(node[1], st, depth)
            elif node[0] == "repeat":
                for _ in range(node[1]):
                    self.run_block(node[2], st, depth)
            else:
                raise Undecided("control flow %s" % node[0])

    def step(self, ins, ln, st, depth):
        parts = ins.split(".")
        op, imm = parts[0], parts[1:]
        while len(st) < 40:
            st.append(("deep", len(st)))
        if data_movement(st, op, imm):
            return
        if op == "exec":
            name = ".".join(imm)
            if name not in self.m.procs or depth > 6:
                raise Undecided("exec %s" % name)
            self.run_block(self.m.procs[name].body, st, depth + 1)
        elif op == "push":
            for x in imm:
                st.insert(0, int(x, 16) if x.startswith("0x") else int(x))
        elif op == "u32and":
            b, a = st.pop(0), st.pop(0)
            ea, eb = entries_of(a), entries_of(b)
            out = []
            for x, y in zip(ea, eb):
                if x == 0 or y == 0:
                    out.append(0)
                elif x == 1:
                    out.append(y)
                elif y == 1 or x == y:
                    out.append(x)
                else:
                    raise Fork(x[1])
            st.insert(0, mk_word(out))
        elif op == "u32div" and imm == ["2"]:
            e = entries_of(st.pop(0))
            st.insert(0, mk_word(e[1:] + (0,)))
        elif op == "u32split":
            a = st.pop(0)
            if is_word(a) and len(a[1]) == 64:
                lo, hi = mk_word(a[1][:32]), mk_word(a[1][32:])
            elif is_word(a):
                lo, hi = a, 0
            else:
                a = conc(a)
                lo, hi = a % U32, a >> 32
            st.insert(0, lo)
            st.insert(0, hi)
        elif op in ("add", "sub", "mul"):
            b = int(imm[0]) if imm else conc(st.pop(0))
            a = conc(st.pop(0))
            st.insert(0, {"add": a + b, "sub": a - b, "mul": a * b}[op] % P)
        elif op == "div":
            b = int(imm[0]) if imm else conc(st.pop(0))
            a = conc(st.pop(0))
            if b % P == 0:
                raise Fail("division by zero")
            st.insert(0, a * pow(b, P - 2, P) % P)
        elif op in ("eq", "neq"):
            if imm:
                k, a = int(imm[0]), st.pop(0)
            else:
                k, a = conc(st.pop(0)), st.pop(0)
            if is_word(a):
                ent = a[1]
                kb = [(k >> i) & 1 for i in range(len(ent))] if k < 2 ** len(ent) else None
                if kb is None or any(isinstance(e, int) and e != b for e, b in zip(ent, kb)):
                    r = 0           # a known bit already differs
                else:
                    r = None
                    for e in ent:
                        if not isinstance(e, int):
                            raise Fork(e[1])
                    r = 1
            else:
                r = int(conc(a) == k)
            st.insert(0, r if op == "eq" else 1 - r)
        elif op == "neg":
            st.insert(0, (-conc(st.pop(0))) % P)
        else:
            raise Undecided("%s:%d: instruction %s is outside the bit-cube model" % (self.m.path, ln, ins))


def bit_paths(module, proc, width):
    """all paths of `proc` on a `width`-bit symbolic top operand: list of (cube {bit: value}, kind, detail) with kind ok / fail /
    diverge; ok detail = the final stack (top cells down to the first untouched deep cell)"""
    X = BitFlow(module)
    out = []
    work = [{}]
    while work:
        a = work.pop()
        num = mk_word([a.get(i, ("v", i)) for i in range(width)])
        st = [num] + [("deep", i) for i in range(1, 40)]
        try:
            X.run_block(module.procs[proc].body, st, 0)
            out.append((a, "ok", st))
        except Fork as f:
            if f.var in a:
                raise Undecided("fork on an assigned bit")
            for bit in (0, 1):
                nb = dict(a)
                nb[f.var] = bit
                work.append(nb)
        except Fail as e:
            out.append((a, "fail", str(e)))
        except Diverge as e:
            out.append((a, "diverge", str(e)))
        if len(out) + len(work) > 4096:
            raise Undecided("too many paths")
    return out


def compatible(c1, c2):
    return all(c2.get(k, v) == v for k, v in c1.items())


# ---- TermFlow ------------------------------------------------------------------------------------------------------------------

def T(op, *args):
    return (op,) + args


def tev(t, env):
    """integer value of a term under env; raises Fail where the VM would stop"""
    if isinstance(t, int):
        return t % P
    op = t[0]
    if op == "in":
        return env[t[1]] % P
    if op == "f":
        return env.get(t, 0)
    a = [tev(x, env) for x in t[1:]]
    if op == "add":
        return (a[0] + a[1]) % P
    if op == "sub":
        return (a[0] - a[1]) % P
    if op == "neg":
        return (-a[0]) % P
    if op == "eq":
        return int(a[0] == a[1])
    if op == "neq":
        return int(a[0] != a[1])
    if op in ("and", "popcnt", "u32assert", "max", "u32div"):
        if any(x >= U32 for x in a):
            raise Fail("non-u32 operand of %s" % op)
        if op == "and":
            return a[0] & a[1]
        if op == "popcnt":
            return bin(a[0]).count("1")
        if op == "max":
            return max(a)
        if op == "u32div":
            if a[1] == 0:
                raise Fail("division by zero")
            return a[0] // a[1]
        return a[0]
    if op in ("u32gt", "u32xor"):
        if any(x >= U32 for x in a):
            raise Fail("non-u32 operand of %s" % op)
        return int(a[0] > a[1]) if op == "u32gt" else a[0] ^ a[1]
    if op == "hi32":
        return a[0] >> 32
    if op == "lo32":
        return a[0] % U32
    if op == "is_odd":
        return a[0] & 1
    if op == "ilog2":
        if a[0] == 0 or a[0] >= U32:
            raise Fail("ilog2_checked of %d" % a[0])
        return a[0].bit_length() - 1
    if op == "pow2ilog2":
        if a[0] == 0 or a[0] >= U32:
            raise Fail("ilog2_checked of %d" % a[0])
        return 1 << (a[0].bit_length() - 1)
    if op in ("tones32", "tones64"):
        w = 32 if op == "tones32" else 64
        if a[0] >= 2 ** w:
            raise Fail("trailing_ones operand")
        n = 0
        while n < w and (a[0] >> n) & 1:
            n += 1
        return n
    raise Undecided("term %r" % (t,))


class TermFlow:
    """straight-line / if.true term extraction; events are appended in program order"""
    CONTRACTS = {
        "ilog2_checked": lambda x: [T("ilog2", x), T("pow2ilog2", x)],
        "trailing_ones": lambda x: [T("tones64", x)],
        "u32unchecked_trailing_ones": lambda x: [T("tones32", x)],
    }

    def __init__(self, module, contracts=None):
        self.m = module
        self.n = 0
        self.contracts = dict(self.CONTRACTS if contracts is None else contracts)

    def fresh(self, tag):
        self.n += 1
        return [("f", self.n, tag, k) for k in range(4)]

    def run(self, body, stack, events, guards, depth=0):
        """list of (stack, events, guards) at the end of the block, one per path"""
        states = [(list(stack), list(events), list(guards))]
        from .masm import expand
        for node in expand(self.m, body, inline=False):
            nxt = []
            for st, ev, gd in states:
                if node[0] == "ins":
                    nxt += self.step(node[1], node[2], st, ev, gd, depth)
                elif node[0] == "if":
                    c = st.pop(0)
                    nxt += self.run(node[1], st, ev, gd + [(c, 1)], depth)
                    nxt += self.run(node[2], st, ev, gd + [(c, 0)], depth)
                else:
                    raise Undecided("%s:%d: control flow %s in a term-extracted region" % (self.m.path, node[-1], node[0]))
            states = nxt
            if len(states) > 64:
                raise Undecided("too many paths")
        return states

    def step(self, ins, ln, st, ev, gd, depth):
        parts = ins.split(".")
        op, imm = parts[0], parts[1:]
        while len(st) < 40:
            st.append(("deep", len(st)))
        if data_movement(st, op, imm):
            return [(st, ev, gd)]
        if op == "exec":
            name = ".".join(imm).split("::")[-1]
            if name in self.contracts:
                x = st.pop(0)
                st[:0] = self.contracts[name](x)
                return [(st, ev, gd)]
            if name not in self.m.procs or depth > 6 or "::" in ".".join(imm):
                raise Undecided("%s:%d: exec %s" % (self.m.path, ln, ".".join(imm)))
            return self.run(self.m.procs[name].body, st, ev, gd, depth + 1)
        if op == "push":
            for x in imm:
                st.insert(0, int(x, 16) if x.startswith("0x") else int(x))
        elif op in ("add", "sub"):
            b = int(imm[0]) if imm else st.pop(0)
            a = st.pop(0)
            st.insert(0, T(op, a, b))
        elif op == "neg":
            st.insert(0, T("neg", st.pop(0)))
        elif op in ("eq", "neq"):
            b = int(imm[0]) if imm else st.pop(0)
            a = st.pop(0)
            st.insert(0, T(op, a, b))
        elif op == "u32and":
            b, a = st.pop(0), st.pop(0)
            st.insert(0, T("and", a, b))
        elif op == "u32popcnt":
            st.insert(0, T("popcnt", st.pop(0)))
        elif op == "u32assert":
            st.insert(0, T("u32assert", st.pop(0)))
        elif op == "u32max":
            b, a = st.pop(0), st.pop(0)
            st.insert(0, T("max", a, b))
        elif op == "u32split":
            a = st.pop(0)
            st.insert(0, T("lo32", a))
            st.insert(0, T("hi32", a))
        elif op == "is_odd":
            st.insert(0, T("is_odd", st.pop(0)))
        elif op in ("assert", "assertz"):
            ev.append(("assert", ln, st.pop(0), 1 if op == "assert" else 0))       # the path completes only if term == want
        elif op == "mem_load":
            a = st.pop(0)
            v = ("f", self._id(), "mem_load", 0)
            ev.append(("mem_load", ln, a, v))
            st.insert(0, v)
        elif op == "mem_store":
            a, v = st.pop(0), st.pop(0)
            ev.append(("mem_store", ln, a, v))
        elif op == "mem_loadw":
            a = st.pop(0)
            del st[:4]
            w = self.fresh("mem_loadw")
            ev.append(("mem_loadw", ln, a, tuple(w)))
            st[:0] = w
        elif op == "mem_storew":
            a = st.pop(0)
            ev.append(("mem_storew", ln, a, tuple(st[:4])))
        elif op == "mtree_get":
            d, i, root = st[0], st[1], tuple(st[2:6])
            del st[:2]
            w = self.fresh("mtree_get")
            ev.append(("mtree_get", ln, d, i, root, tuple(w)))
            st[:0] = w
        elif op == "mtree_merge":
            r, l = tuple(st[0:4]), tuple(st[4:8])
            del st[:8]
            w = self.fresh("mtree_merge")
            ev.append(("mtree_merge", ln, l, r, tuple(w)))
            st[:0] = w
        else:
            raise Undecided("%s:%d: instruction %s is outside the MMR term model" % (self.m.path, ln, ins))
        return [(st, ev, gd)]

    def _id(self):
        self.n += 1
        return self.n


# ---- PipeFlow: TermFlow + hasher / advice instructions, cross-module exec ------------------------------------------------------

STD = "/repo/stdlib/asm/"


class PipeFlow(TermFlow):
    """adds adv_pipe / mem_stream / hperm / adv_loadw / adv_push / assert_eqw / advice injectors; `exec.alias::name` is resolved
    through the module's `use` lines; procedures named in `loops` are replaced by the loop contracts the rule has decided:
      pipe_double_words_to_memory  [S(12), wp, ep, ..] -> [S'(12), ep, ..]      event ("pipe_loop", S, wp, ep, S')
      hash_memory_even             [S(12), sa, ea, ..] -> [S'(12), ea, ea, ..]  event ("hash_loop", S, sa, ea, S')"""
    def __init__(self, module, contracts=None, loops=()):
        TermFlow.__init__(self, module, contracts)
        self.loops = set(loops)
        self.mods = {}

    def module_of(self, alias):
        path = self.m.imports.get(alias)
        if path is None or not path.startswith("std::"):
            raise Undecided("unknown module alias %s" % alias)
        f = STD + path[5:].replace("::", "/") + ".masm"
        if f not in self.mods:
            self.mods[f] = Module(f)
        return self.mods[f]

    def step(self, ins, ln, st, ev, gd, depth):
        parts = ins.split(".")
        op, imm = parts[0], parts[1:]
        while len(st) < 40:
            st.append(("deep", len(st)))
        if op == "exec":
            target = ".".join(imm)
            name = target.split("::")[-1]
            if name in self.loops:
                S_in = tuple(st[:12])
                a, b = st[12], st[13]
                out = [("f", self._id(), name, k) for k in range(12)]
                ident = out[0][1]
                out = [("f", ident, name, k) for k in range(12)]
                if name == "pipe_double_words_to_memory":
                    ev.append(("pipe_loop", ln, S_in, a, b, tuple(out)))
                    st[:14] = out + [b]
                else:
                    ev.append(("hash_loop", ln, S_in, a, b, tuple(out)))
                    st[:14] = out + [b, b]
                return [(st, ev, gd)]
            if "::" in target:
                mod = self.module_of(target.split("::")[0])
                if name not in mod.procs or depth > 6:
                    raise Undecided("%s:%d: exec %s" % (self.m.path, ln, target))
                saved = self.m
                self.m = mod
                try:
                    return self.run(mod.procs[name].body, st, ev, gd, depth + 1)
                finally:
                    self.m = saved
            return TermFlow.step(self, ins, ln, st, ev, gd, depth)
        if op == "hperm":
            S_in = tuple(st[:12])
            ident = self._id()
            out = [("f", ident, "hperm", k) for k in range(12)]
            ev.append(("hperm", ln, S_in, tuple(out)))
            st[:12] = out
        elif op in ("adv_pipe", "mem_stream"):
            a = st[12]
            ident = self._id()
            w = [("f", ident, op, k) for k in range(8)]
            ev.append((op, ln, a, tuple(w)))
            st[:8] = w
            st[12] = T("add", a, 2)
        elif op == "adv_loadw":
            ident = self._id()
            w = [("f", ident, "adv_loadw", k) for k in range(4)]
            ev.append(("adv_loadw", ln, tuple(w)))
            st[:4] = w
        elif op == "adv_push":
            for _ in range(int(imm[0])):
                v = ("f", self._id(), "adv_push", 0)
                ev.append(("adv_push", ln, v))
                st.insert(0, v)
        elif op == "assert_eqw":
            ev.append(("assert_eqw", ln, tuple(st[:4]), tuple(st[4:8])))
            del st[:8]
        elif op == "adv":
            ev.append(("adv." + ".".join(imm), ln, tuple(st[:4]), st[4], st[5]))
        elif op == "neq" and not imm:
            b, a = st.pop(0), st.pop(0)
            st.insert(0, T("neq", a, b))
        elif op == "u32assert2":
            ev.append(("u32assert2", ln, st[0], st[1]))
        elif op in ("u32gt", "u32xor"):
            b, a = st.pop(0), st.pop(0)
            st.insert(0, T(op, a, b))
        else:
            return TermFlow.step(self, ins, ln, st, ev, gd, depth)
        return [(st, ev, gd)]

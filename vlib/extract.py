"""Fact extraction with a content-hash keyed cache. Nothing of /repo is executed except its own
build scripts under `cargo check` (part of the build)."""
import fcntl, glob, hashlib, json, os, shutil, subprocess, sys, time

VERIF = os.path.dirname(os.path.dirname(os.path.abspath(__file__)))
REPO = os.environ.get("VERIF_REPO", "/repo")
CACHE = os.path.join(VERIF, ".cache")
MIRFACTS = os.path.join(VERIF, "tools/mirfacts/target/release/mirfacts")
SRCX = os.path.join(VERIF, "tools/srcx/target/release/srcx")
WORKSPACE_CRATES = ["miden_core", "miden_assembly", "miden_air", "miden_processor", "miden_prover",
                    "miden_verifier", "miden_stdlib", "miden_test_utils"]
# function-count floors per crate (counted on the pinned tree: core 256, assembly 955, air 448, processor 787,
# prover 11, verifier 5); floors sit a little below so that deleting a few functions is not an alarm
FN_FLOORS = {"miden_core": 240, "miden_assembly": 900, "miden_air": 430, "miden_processor": 750,
             "miden_prover": 8, "miden_verifier": 4}


def log(*a):
    print("[extract]", *a, file=sys.stderr, flush=True)


def repo_hash():
    """hash of every tracked or untracked-but-not-ignored file of /repo (contents)."""
    out = subprocess.run(["git", "-C", REPO, "ls-files", "-co", "--exclude-standard", "-z"],
                         capture_output=True, check=True).stdout
    files = sorted(f for f in out.decode().split("\0") if f)
    h = hashlib.sha256()
    for f in files:
        p = os.path.join(REPO, f)
        if f.startswith("target/") or not os.path.isfile(p):
            continue
        h.update(f.encode() + b"\0")
        with open(p, "rb") as fh:
            h.update(hashlib.sha256(fh.read()).digest())
    # the analysers are part of the key: a rebuilt tool must not read facts of the old tool
    for tool in (MIRFACTS, SRCX):
        if os.path.exists(tool):
            with open(tool, "rb") as fh:
                h.update(hashlib.sha256(fh.read()).digest())
    return h.hexdigest()[:24]


def sysroot():
    return subprocess.run(["rustc", "+nightly", "--print", "sysroot"], capture_output=True, text=True,
                          check=True).stdout.strip()


def run_mirfacts(outdir):
    tgt = os.path.join(CACHE, "tgt")
    os.makedirs(tgt, exist_ok=True)
    # force the wrapper to run on every workspace member: remove their fingerprints
    for fp in glob.glob(os.path.join(tgt, "debug/.fingerprint/miden-*")):
        shutil.rmtree(fp, ignore_errors=True)
    os.makedirs(outdir, exist_ok=True)
    env = dict(os.environ)
    env.update({
        "MIRFACTS_OUT": outdir,
        "LD_LIBRARY_PATH": sysroot() + "/lib",
        "RUSTFLAGS": "-Zmir-opt-level=0 -Awarnings",
        "RUSTC_WORKSPACE_WRAPPER": MIRFACTS,
        "CARGO_TARGET_DIR": tgt,
        "CARGO_NET_OFFLINE": "true",
    })
    env.pop("RUSTC_WRAPPER", None)
    t0 = time.time()
    r = subprocess.run(["cargo", "+nightly", "check", "--offline", "--workspace", "-q"], cwd=REPO, env=env,
                       capture_output=True, text=True)
    if r.returncode != 0:
        sys.stderr.write(r.stderr[-4000:])
        raise SystemExit("EXTRACT-FAILED: cargo check of /repo failed (the tree does not compile?)")
    log("mirfacts %.1fs" % (time.time() - t0))
    # assert one fact file per expected crate and the floors
    for c in WORKSPACE_CRATES:
        fs = glob.glob(os.path.join(outdir, c + "-*.jsonl"))
        if not fs:
            raise SystemExit("ANCHOR-LOST: no fact file for crate %s (wrapper skipped?)" % c)


def run_srcx(outdir):
    if not os.path.exists(SRCX):
        return
    os.makedirs(outdir, exist_ok=True)
    t0 = time.time()
    r = subprocess.run([SRCX, REPO, outdir], capture_output=True, text=True)
    if r.returncode != 0:
        sys.stderr.write(r.stderr[-4000:])
        raise SystemExit("EXTRACT-FAILED: srcx failed")
    log("srcx %.1fs" % (time.time() - t0))


def ensure_facts(force=False):
    """returns the cache directory holding facts for the current /repo tree."""
    os.makedirs(CACHE, exist_ok=True)
    if not os.path.exists(MIRFACTS):
        raise SystemExit("SETUP-MISSING: %s not built; run MANIFEST.setup_cmd" % MIRFACTS)
    key = repo_hash()
    d = os.path.join(CACHE, "facts-" + key)
    lock = open(os.path.join(CACHE, "lock"), "w")
    fcntl.flock(lock, fcntl.LOCK_EX)
    try:
        if force and os.path.isdir(d):
            shutil.rmtree(d)
        if not os.path.exists(os.path.join(d, "DONE")):
            if os.path.isdir(d):
                shutil.rmtree(d)
            # drop old entries (disk), keeping the two most recent trees (a seeded patch applied and undone
            # gives the same key as before)
            olds = sorted(glob.glob(os.path.join(CACHE, "facts-*")), key=os.path.getmtime, reverse=True)
            for old in olds[2:]:
                shutil.rmtree(old, ignore_errors=True)
            tmp = d + ".tmp"
            shutil.rmtree(tmp, ignore_errors=True)
            run_mirfacts(os.path.join(tmp, "mir"))
            run_srcx(os.path.join(tmp, "src"))
            open(os.path.join(tmp, "DONE"), "w").write(key)
            os.rename(tmp, d)
    finally:
        fcntl.flock(lock, fcntl.LOCK_UN)
    return d

"""Exhaustive enumeration of the operation-batch accumulator (core/src/program/blocks/span_block.rs) as a finite-state
machine, by abstract interpretation of its methods on every reachable abstract state, and of the executor
(Process::execute_op_batch) on the batch produced from every reachable state.

The accumulator's behaviour depends only on (op_idx, group_idx, next_group_idx, group == 0); the abstract state adds the
op_counts array and the kind of every group slot (empty / operations / immediate). Input classes: NOOP (opcode 0),
a non-zero opcode without immediate (ADD) and an operation carrying an immediate (PUSH). The specification is the batching
rules of docs/src/design/programs.md: <= 9 operations per group, <= 8 groups per batch, an immediate occupies the next free
group, an operation with an immediate is never the last of its group, and (maximality) an operation is refused only when it
does not fit under these rules."""
import re, collections
from .mirsym import *
from . import opmodel, procmodel

ACC = r"^miden_core::program::blocks::span_block::OpBatchAccumulator::%s$"
GROUP_SIZE, BATCH_SIZE = 9, 8


def mk_op(cls):
    if cls == "noop":
        return Agg([], "adt", opmodel.OPS, "Noop")
    if cls == "add":
        return Agg([], "adt", opmodel.OPS, "Add")
    return Agg([Poly.const(7)], "adt", opmodel.OPS, "Push")


class AccState:
    def __init__(self, acc, shadow):
        self.acc = acc          # Agg (interpreter value)
        self.shadow = shadow    # list of 8 slots: None | ("ops", [classes]) | ("imm",)
        self.hist = []

    def fields(self, names):
        return dict(zip(names, self.acc.items))


def spec_can_accept(op_idx, next_group_idx, cls):
    """docs/src/design/programs.md: a group holds up to 9 operations, a batch up to 8 groups, an immediate takes the next
    free group, an operation with an immediate cannot be the last (9th) of its group"""
    if cls == "push":
        if op_idx < GROUP_SIZE - 1:
            return next_group_idx < BATCH_SIZE
        return next_group_idx + 1 < BATCH_SIZE        # must open a new group and still have a slot for the immediate
    return op_idx < GROUP_SIZE or next_group_idx < BATCH_SIZE


def explore(F, max_states=20000):
    """returns dict(states, transitions, violations[list of (kind, state description, message)], finals)"""
    names = [f["name"] for f in F.adt(r"^miden_core::program::blocks::span_block::OpBatchAccumulator$")["variants"][0]["fields"]]
    fid = {n: F.fn(ACC % n).id for n in ("new", "can_accept_op", "add_op", "into_batch")}
    opcode = opmodel.opcode_table(F)
    code = {"noop": opcode["Noop"], "add": opcode["Add"], "push": opcode["Push"]}
    OP_BITS = F.const(r"^miden_core::operations::Operation::OP_BITS$")
    out = {"states": 0, "transitions": 0, "violations": [], "finals": [], "samples": []}

    def key(st):
        f = st.fields(names)
        kinds = tuple(None if s is None else s[0] for s in st.shadow)
        return (f["op_idx"], f["group_idx"], f["next_group_idx"], f["group"] == 0, tuple(f["op_counts"].items), kinds)

    def viol(kind, st, msg):
        f = st.fields(names)
        desc = "op_idx=%s group_idx=%s next_group_idx=%s history=%s" % (f["op_idx"], f["group_idx"], f["next_group_idx"], "".join(c[0] for c in st.hist))
        out["violations"].append((kind, desc, msg))

    I0 = Interp(F)
    init = AccState(I0.call(fid["new"], []), [None] * BATCH_SIZE)
    init.shadow[0] = ("ops", [])
    seen = {key(init): init}
    queue = collections.deque([init])
    while queue and len(seen) < max_states:
        st = queue.popleft()
        out["states"] += 1
        f = st.fields(names)
        # invariants of the state
        if not (0 <= f["op_idx"] <= GROUP_SIZE):
            viol("group-overfull", st, "op_idx = %s exceeds the 9 operations a group can hold" % f["op_idx"])
        if not (f["next_group_idx"] <= BATCH_SIZE and f["group_idx"] < BATCH_SIZE):
            viol("batch-overfull", st, "group indexes (%s, %s) exceed the 8 groups of a batch" % (f["group_idx"], f["next_group_idx"]))
        # final: into_batch
        if st.hist:
            I = Interp(F)
            try:
                batch = I.call(fid["into_batch"], [clone_val(st.acc)])
                check_batch(F, st, batch, code, OP_BITS, viol)
                out["finals"].append((st, batch))
            except (PanicReached, Unanalysable) as e:
                viol("into_batch-panic", st, str(e))
        for cls in ("noop", "add", "push"):
            I = Interp(F)
            op = mk_op(cls)
            try:
                can = I.call(fid["can_accept_op"], [Ptr([st.acc], 0), op])
            except (PanicReached, Unanalysable) as e:
                viol("can_accept_op-panic", st, str(e))
                continue
            want = spec_can_accept(f["op_idx"], f["next_group_idx"], cls)
            out["transitions"] += 1
            if can is not want:
                viol("acceptance|%s" % cls, st, "can_accept_op(%s) = %s but under the documented batching rules (9 ops per group, 8 groups per batch, immediates in the "
                     "next free group, no immediate-carrying operation last in a group) it is %s" % (cls.upper(), can, want))
            if not can:
                continue
            acc2 = clone_val(st.acc)
            try:
                I.call(fid["add_op"], [Ptr([acc2], 0), op])
            except (PanicReached, Unanalysable) as e:
                viol("add_op-panic|%s" % cls, st, "add_op(%s) after can_accept_op = true: %s" % (cls.upper(), e))
                continue
            st2 = AccState(acc2, [None if s is None else (s[0], list(s[1])) if s[0] == "ops" else s for s in st.shadow])
            st2.hist = st.hist + [cls]
            f2 = st2.fields(names)
            # shadow update: which group did the op land in, where did the immediate go
            g = f2["group_idx"]
            if not (0 <= g < BATCH_SIZE):
                viol("batch-overfull", st2, "operation placed in group %s" % g)
                continue
            if st2.shadow[g] is None:
                st2.shadow[g] = ("ops", [])
            if st2.shadow[g][0] != "ops":
                viol("immediate-slot-reused", st2, "group %d holds an immediate value but is now used as an operation group" % g)
                continue
            st2.shadow[g][1].append(cls)
            if len(st2.shadow[g][1]) != f2["op_idx"]:
                viol("op-index-mismatch", st2, "group %d holds %d operations but op_idx = %s" % (g, len(st2.shadow[g][1]), f2["op_idx"]))
            if cls == "push":
                slot = f2["next_group_idx"] - 1
                if not (0 <= slot < BATCH_SIZE) or st2.shadow[slot] is not None:
                    viol("immediate-placement", st2, "immediate stored in slot %s which is not a free group" % slot)
                    continue
                st2.shadow[slot] = ("imm",)
                if len(st2.shadow[g][1]) == GROUP_SIZE:
                    viol("immediate-last-in-group", st2, "an operation carrying an immediate is the 9th operation of group %d" % g)
            k = key(st2)
            if k not in seen:
                seen[k] = st2
                queue.append(st2)
    if queue:
        out["violations"].append(("state-explosion", "", "more than %d abstract states" % max_states))
    return out


def check_batch(F, st, batch, code, OP_BITS, viol):
    bf = dict(zip([f["name"] for f in F.adt(r"^miden_core::program::blocks::span_block::OpBatch$")["variants"][0]["fields"]], batch.items))
    counts = list(bf["op_counts"].items)
    groups = [g.const_value() if isinstance(g, Poly) else None for g in bf["groups"].items]
    for gi, s in enumerate(st.shadow):
        if s is not None and s[0] == "ops":
            want_n = len(s[1])
            packed = 0
            for i, c in enumerate(s[1]):
                packed |= code[c] << (OP_BITS * i)
            if counts[gi] != want_n:
                viol("op-count|%d" % want_n, st, "into_batch reports op_counts[%d] = %s for a group holding %d operations (%s)" % (gi, counts[gi], want_n, "".join(x[0] for x in s[1])))
            if groups[gi] != packed:
                viol("group-value", st, "group %d value %s does not encode its operations %s (expected %s)" % (gi, groups[gi], s[1], packed))
        else:
            if counts[gi] != 0:
                viol("op-count-nonop-group", st, "op_counts[%d] = %s for a group that holds no operations" % (gi, counts[gi]))
    nf = st.fields([f["name"] for f in F.adt(r"^miden_core::program::blocks::span_block::OpBatchAccumulator$")["variants"][0]["fields"]])
    if bf["num_groups"] != nf["next_group_idx"]:
        viol("num-groups", st, "num_groups %s != next free group %s" % (bf["num_groups"], nf["next_group_idx"]))


def run_executor(F, st, batch):
    """interprets Process::execute_op_batch on the batch; returns list of events:
    ('op', variant, op_idx) for Decoder::execute_user_op, ('exec', variant) for execute_op, ('group', value) for start_op_group"""
    fn = F.fn(r"^miden_processor::Process::execute_op_batch$")
    events = []
    I = Interp(F)
    I.havoc = True
    ok = lambda v: Agg([v], "adt", "core::result::Result", "Ok")
    unit = lambda: Agg([], "tuple")
    ov = I.overrides
    def add(rx, m):
        ov.append((re.compile(rx), m))
    add(r"decoder::Decoder::execute_user_op$", lambda I, a, f: (events.append(("op", a[1].variant, a[2])), unit())[1])
    add(r"operations::Process::execute_op$", lambda I, a, f: (events.append(("exec", a[1].variant)), ok(unit()))[1])
    add(r"decoder::Decoder::start_op_group$", lambda I, a, f: (events.append(("group", a[1].const_value() if isinstance(a[1], Poly) else repr(a[1]))), unit())[1])
    add(r"DecoratorIterator::next_filtered$", lambda I, a, f: Agg([], "adt", "core::option::Option", "None"))
    add(r"core::num::usize::next_power_of_two$|core::num::\w+::next_power_of_two$", lambda I, a, f: 1 << (a[0] - 1).bit_length() if a[0] > 0 else 1)
    procmodel.install_field(I)
    proc = Opaque("Process")
    comps = {n: Opaque(n) for n in ("system", "decoder", "stack", "range", "chiplets", "host", "max_cycles", "enable_tracing")}
    proc.field = lambda name: comps[name]
    r = I.call(fn.id, [Ptr([proc], 0), Ptr([batch], 0), Ptr([Opaque("decorators")], 0), 0])
    return events, r


def check_executor(F, st, batch, viol):
    """the executed stream is the batch's operations in order with NOOPs only at the documented places; one start_op_group per
    further group; the number of groups consumed is num_groups rounded up to a power of two"""
    try:
        events, r = run_executor(F, st, batch)
    except PanicReached as e:
        viol("executor-panic", st, "execute_op_batch panics on the batch produced from this state: %s" % e)
        return None
    except Unanalysable as e:
        viol("executor-unanalysable", st, str(e))
        return None
    ops_in = []
    for gi, s in enumerate(st.shadow):
        pass
    prog = [c for c in st.hist]                         # program order of classes
    name = {"noop": "Noop", "add": "Add", "push": "Push"}
    decoded = [e for e in events if e[0] == "op"]
    execd = [e for e in events if e[0] == "exec"]
    groups = [e for e in events if e[0] == "group"]
    if [d[1] for d in decoded] != [e[1] for e in execd]:
        viol("decode-exec-mismatch", st, "decoder rows %s vs executed operations %s" % ([d[1] for d in decoded], [e[1] for e in execd]))
    # expected stream from the shadow layout: per op group in order, its ops, plus a NOOP after a group-final PUSH
    exp = []
    nslots = sum(1 for s in st.shadow if s is not None)
    total = 1 << (max(nslots, 1) - 1).bit_length()
    op_groups = [s for s in st.shadow if s is not None and s[0] == "ops"]
    for gi, s in enumerate(op_groups):
        for i, c in enumerate(s[1]):
            exp.append((name[c], i))
        if s[1] and s[1][-1] == "push":
            exp.append(("Noop", len(s[1])))
    # an empty trailing op group (opened but unused) is executed as a padding NOOP group
    pad = total - nslots
    for _ in range(pad):
        exp.append(("Noop", 0))
    got = [(d[1], d[2]) for d in decoded]
    # drop expected entries of empty op groups (a finalised-but-empty group cannot exist; the last open group may be empty)
    if got != exp:
        viol("executed-stream", st, "execute_op_batch decodes %s; the batch layout %s requires %s (NOOPs only after a group-final immediate operation and as padding groups)"
             % (got, [(s[0], "".join(x[0] for x in s[1])) if s and s[0] == "ops" else (s[0] if s else None) for s in st.shadow], exp))
    # start_op_group: once per further operation group, once per padding group (immediate slots are consumed by their operation)
    want_groups = (len(op_groups) - 1) + (total - nslots)
    if len(groups) != want_groups:
        viol("group-count", st, "execute_op_batch starts %d further groups; %d operation groups and %d slots rounded up to %d require %d" % (len(groups), len(op_groups), nslots, total, want_groups))
    # the values handed to start_op_group are the values of the operation groups, in order, then zeros
    return events
    return events

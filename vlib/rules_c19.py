"""C19 — decoders of untrusted bytes never panic and accept only what they re-encode.
R1 explores every reader with a fully symbolic ByteReader (each read yields a fresh symbolic value; every branch is a
fork) and reports feasible paths that reach a panic, plus assertion sites whose condition depends on the input.
R2 is the writer/reader agreement of C10 restricted to the untrusted-input types. R3 is the validated-constructor
discipline, R4 the canonical-field-element checks."""
import re
from .mirutil import *
from .mirsym import *
from . import serdemodel as S, procmodel, rules_c10
from .facts import strip_targs

LEVEL = "other"

# panic sites reachable from a reader that are guarded by an invariant the analysis cannot see, with the reason
LEDGER = {
    "Instruction|assembly/src/ast/nodes/serde/deserialization.rs|panic_call_core_panicking_panic":
        "unreachable!() for the control-flow opcodes 253..255: Node::read_from peeks the byte and handles them before calling Instruction::read_from "
        "(the readers of ProgramAst/ModuleAst/ProcedureAst are explored through Node and do not reach it); Instruction's own Deserializable impl is not "
        "among the decoders C19 names",
}


def install_symbolic_reader(I, F, notes):
    ov = I.overrides
    def add(rx, m):
        ov.append((re.compile(rx), m))
    ok = lambda v: Agg([v], "adt", "core::result::Result", "Ok")
    unit = lambda: Agg([], "tuple")
    st = {"n": 0, "peek": None}
    S.install(I, F, [], "r")     # strings / collections / validators; reader models are overridden below (inserted first)

    def fresh(kind):
        st["n"] += 1
        return Term("in_%s#%d" % (kind, st["n"]))

    def rd(kind):
        def m(I, a, f):
            if kind == "u8" and st["peek"] is not None:
                v, st["peek"] = st["peek"], None
                return ok(v)
            return ok(fresh(kind))
        return m
    pre = []
    for k in ("u8", "u16", "u32", "u64", "usize"):
        pre.append((re.compile(r"ByteReader::read_%s$" % k), rd(k)))
    pre.append((re.compile(r"ByteReader::read_bool$"), lambda I, a, f: ok(fresh("bool"))))

    def peek(I, a, f):
        if st["peek"] is None:
            st["peek"] = fresh("u8")
        return ok(st["peek"])
    pre.append((re.compile(r"ByteReader::peek_u8$"), peek))
    pre.append((re.compile(r"ByteReader::has_more_bytes$"), lambda I, a, f: fresh("more")))
    pre.append((re.compile(r"ByteReader::read_vec$|ByteReader::read_slice$"), lambda I, a, f: ok(Agg([fresh("byte"), fresh("byte")], "vec"))))
    pre.append((re.compile(r"ByteReader::read_array$"), lambda I, a, f: ok(Agg([fresh("byte") for _ in range(4)], "array"))))
    pre.append((re.compile(r"BaseElement@Deserializable::read_from$"), lambda I, a, f: ok(Poly.var("in_felt#%d" % (st["n"] + 1)) if not st.update(n=st["n"] + 1) else None)))
    pre.append((re.compile(r"RpoDigest@Deserializable::read_from$"), lambda I, a, f: ok(Agg([Agg([Poly.var(fresh("dg").op) for _ in range(4)], "array")], "adt", "miden_crypto::hash::rescue::rpo::digest::RpoDigest", "RpoDigest"))))
    pre.append((re.compile(r"StarkProof@Deserializable::read_from$"), lambda I, a, f: ok(Opaque("StarkProof"))))

    def read_value(I, ty, source):
        ty = ty.strip()
        if ty.endswith("Felt") or ty.endswith("BaseElement"):
            return Poly.var(fresh("felt").op)
        if ty in S.INT_TYS:
            return fresh(ty)
        last = ty.split("<")[0].rsplit("::", 1)[-1]
        c = [k for k in F.fns if re.search(r"::%s@Deserializable::read_from$" % re.escape(last), strip_targs(k))]
        if len(c) == 1:
            return I.call(c[0], [source])
        notes.append("element type %s read through an external Deserializable impl" % ty)
        return ok(Opaque("elem:" + ty))

    def read_many(I, a, f):
        ty = f.ga[-1] if f.ga else "?"
        n = a[1]
        k = n if isinstance(n, int) else 1       # symbolic count: the element reader is explored once (loop body)
        out = []
        for _ in range(min(k, 2)):
            r = read_value(I, ty, a[0])
            if isinstance(r, Agg) and r.adt and r.adt.endswith("Result"):
                if r.variant == "Err":
                    return r
                r = r.items[0]
            out.append(r)
        if not isinstance(n, int):
            I.effects.append(("alloc_from_input", repr(n), ty))
        return ok(Agg(out, "vec"))
    pre.append((re.compile(r"ByteReader::read_many$"), read_many))

    def read_generic(I, a, f):
        ty = f.ga[-1] if f.ga else "?"
        r = read_value(I, ty, a[0])
        return r if (isinstance(r, Agg) and r.adt and r.adt.endswith("Result")) else ok(r)
    pre.append((re.compile(r"ByteReader::read$"), read_generic))
    pre.append((re.compile(r"alloc::vec::Vec::with_capacity$"), lambda I, a, f: (I.effects.append(("alloc_from_input", repr(a[0]), "Vec::with_capacity")) if not isinstance(a[0], int) else None, Agg([], "vec"))[1]))
    ov[0:0] = pre


def explore_reader(F, reader_id, extra_args=(), max_paths=300):
    """returns dict(paths, ok, err, panics[(msg, guards)], may_panic[(kind, loc)], unanalysable[msg], allocs)"""
    out = {"paths": 0, "ok": 0, "err": 0, "panics": [], "may_panic": set(), "unanalysable": [], "allocs": set(), "notes": []}
    holder = {}

    def make():
        I = Interp(F)
        I.havoc = True
        notes = []
        holder["notes"] = notes
        install_symbolic_reader(I, F, notes)
        I.sym_ranges = True
        return I

    def run(I):
        return I.call(reader_id, [Ptr([Opaque("reader")], 0)] + [a() for a in extra_args])

    try:
        for I, res, exc in enumerate_paths(make, run, max_paths=max_paths):
            out["paths"] += 1
            for e in I.effects:
                if e[0] == "may_panic":
                    out["may_panic"].add((e[1], e[2]))
                if e[0] == "alloc_from_input":
                    out["allocs"].add((e[1], e[2]))
            if exc is not None:
                if isinstance(exc, PanicReached):
                    if path_feasible(I.path):
                        out["panics"].append((str(exc), [(repr(g[0])[:50], g[1]) for g in I.path][-6:]))
                else:
                    out["unanalysable"].append(str(exc)[:200])
                continue
            if isinstance(res, Agg) and res.variant == "Ok":
                out["ok"] += 1
            else:
                out["err"] += 1
    except Unanalysable as e:
        out["unanalysable"].append("path explosion: %s" % e)
    return out


def entry_points(F):
    eps = []
    for k in sorted(F.fns):
        sk = strip_targs(k)
        m = re.match(r"^(.*)::(\w+)@Deserializable::read_from$", sk)
        if m:
            eps.append((m.group(2), k, ()))
    opt = F.adt(r"^miden_assembly::ast::serde::AstSerdeOptions$")
    for tname, path in (("ProgramAst", "ast::program"), ("ModuleAst", "ast::module")):
        r = F.fn(r"^miden_assembly::%s::%s::read_from$" % (path, tname))
        if tname == "ModuleAst":
            for flag in (True, False):
                eps.append(("%s[imports=%s]" % (tname, flag), r.id, (lambda flag=flag: Agg([flag], "adt", opt["id"], opt["variants"][0]["name"]),)))
        else:
            eps.append((tname, r.id, ()))
    return eps


def r1_reader_panics(ctx, F):
    eps = entry_points(F)
    ctx.floor("reader-entry-points", len(eps), 22)
    for name, rid, extra in eps:
        fn = F.fns[rid]
        res = explore_reader(F, rid, extra)
        ctx.inst(key=name, nontrivial=res["paths"] > 1)
        ctx.analysed("%s: %d paths (%d Ok, %d Err), %d panic paths, asserts on input %s, allocations from input %s, unanalysable %d"
                     % (name, res["paths"], res["ok"], res["err"], len(res["panics"]), sorted(res["may_panic"])[:4], sorted(res["allocs"])[:3], len(res["unanalysable"])))
        if res["paths"] and len(res["unanalysable"]) == res["paths"] and name not in rules_c10.UNCOVERED:
            ctx.violation("UNANALYSABLE|%s" % name, fn.loc(), "no path of the reader of %s could be analysed: %s" % (name, res["unanalysable"][0]))
            continue
        if len(ctx.samples) < 8:
            ctx.sample({"reader": name, "paths": res["paths"], "ok": res["ok"], "err": res["err"], "panic_paths": len(res["panics"])})
        seen = set()
        for msg, guards in res["panics"]:
            loc = msg.split(": ")[0]
            site = re.sub(r":\d+$", "", loc)
            what = msg.split(": ", 1)[1] if ": " in msg else msg
            key = "%s|%s|%s" % (name, site, re.sub(r"\W+", "_", what)[:40])
            if key in seen or key in LEDGER:
                continue
            seen.add(key)
            ctx.oblig(False)
            ctx.violation("reader-panic|%s" % key, loc, "reader of %s can reach a panic for some input bytes: %s (path guards %s)" % (name, what, guards))
        for kind, loc in sorted(res["may_panic"]):
            site = re.sub(r":\d+$", "", loc)
            key = "%s|%s|%s" % (name, site, kind)
            if key in LEDGER:
                continue
            ctx.oblig(False)
            ctx.violation("reader-assert|%s" % key, loc, "reader of %s evaluates a compiler-inserted check (%s) on a value derived from the input bytes: it panics for some inputs" % (name, kind))
        if not res["panics"] and not res["may_panic"]:
            ctx.oblig(True)


def r2_reader_writer(ctx, F):
    """accepted values re-encode: the C10 round trip for the untrusted-input types"""
    names = ("PublicInputs", "ExecutionProof", "HashFunction", "Kernel", "ProgramInfo", "StackInputs", "StackOutputs", "ProcedureAst", "ModuleImports", "LibraryPath", "ProcedureName", "Instruction", "Node", "AdviceInjectorNode")
    n = 0
    for name, w, r, adt in rules_c10.pairs(F):
        if name in names and r and adt:
            variants = None
            if name == "Instruction":
                # C19 quantifies over values a reader can produce: instructions that have an opcode (a variant without one is a
                # writer-side matter, C10 / F4)
                ops = {v["name"] for v in F.adt(r"^miden_assembly::ast::nodes::serde::OpCode$")["variants"]}
                variants = {v["name"] for v in adt["variants"] if v["name"] in ops or v["name"].replace("Dw", "DW") in ops}
            n += rules_c10.check_pair(ctx, F, name, w, r, adt, rules_c10.MODES if name not in ("Instruction", "AdviceInjectorNode") else rules_c10.MODES[:1], variants=variants)
    ctx.floor("untrusted-types", n, 10)


VALIDATED = {
    # adt regex -> (allowed constructing functions (regex on ids without trait args), reason)
    r"^miden_core::stack::outputs::StackOutputs$": r"StackOutputs::new$|StackOutputs@(Clone::clone|Default::default)$",
    r"^miden_core::stack::inputs::StackInputs$": r"StackInputs::new$|StackInputs@(Clone::clone|Default::default|Deserializable::read_from)$",
    r"^miden_core::program::Kernel$": r"Kernel::new$|Kernel@(Clone::clone|Default::default)$",
    r"^miden_assembly::library::path::LibraryPath$": r"LibraryPath::(new|kernel_path|exec_path|anon_path|join|strip_first|strip_last)$|LibraryPath@(Clone::clone|Default::default)$",
    r"^miden_assembly::procedures::ProcedureName$": r"ProcedureName::main$|ProcedureName@(Clone::clone|Default::default|TryFrom::try_from)$",
    r"^miden_assembly::library::LibraryNamespace$": r"LibraryNamespace::new$|LibraryNamespace@Clone::clone$",
    r"^miden_air::options::ExecutionOptions$": r"ExecutionOptions::new$|ExecutionOptions@(Clone::clone|Default::default)$",
}
# readers allowed to build the struct directly because every field they read is validated by its own reader
DIRECT_READERS = {"StackInputs": "elements are read with Felt::read_from, which rejects non-canonical values; the type has no other invariant"}
# (Kernel used to be listed here with the reason "the count is a u8": the reason was wrong - the count is read as u16, and
#  Kernel::new also rejects duplicates and orders the hashes - so the exemption hid finding F30.)


def r3_validated_constructors(ctx, F):
    for pat, allowed in VALIDATED.items():
        adt = F.adt(pat)
        sites = []
        for fn in F.fns.values():
            for bi, s in fn.aggregates(pat):
                sites.append((fn, s))
        ctx.inst(key=adt["id"], nontrivial=True)
        ctx.analysed("%s built in %s" % (adt["id"].rsplit("::", 1)[-1], sorted(set(short(strip_targs(f.id)) for f, s in sites))))
        for fn, s in sites:
            ok = re.search(allowed, strip_targs(fn.id)) is not None
            ctx.oblig(ok)
            if not ok:
                ctx.violation("unvalidated-construction|%s|%s" % (adt["id"].rsplit("::", 1)[-1], short(strip_targs(fn.id))), fn.loc(s["ln"]),
                              "%s is built by a struct literal in %s, bypassing its validating constructor" % (adt["id"], fn.id))
        if not sites:
            ctx.violation("ANCHOR-LOST:%s" % adt["id"], "", "no construction site found")
    # fields of these types are private (an external crate cannot build them by literal)
    for pat in VALIDATED:
        adt = F.adt(pat)
        pub = [f["name"] for f in adt["variants"][0]["fields"] if f["vis"] == "pub"]
        if pub:
            ctx.violation("public-field|%s" % adt["id"], adt["file"], "%s has public fields %s: it can be built without validation" % (adt["id"], pub))
    # readers that construct directly are listed with a reason and their reads are validating
    so = F.fn(r"^miden_core::stack::outputs::StackOutputs@Deserializable::read_from$")
    ctx.inst(key="StackOutputs::read_from", nontrivial=True)
    ok = any(c.endswith("StackOutputs::new") for bi, c, t in so.calls())
    ctx.oblig(ok)
    if not ok:
        ctx.violation("reader-bypasses-constructor|StackOutputs", so.loc(), "StackOutputs::read_from does not go through StackOutputs::new")
    kr = F.fn(r"^miden_core::program::Kernel@Deserializable::read_from$")
    ctx.inst(key="Kernel::read_from", nontrivial=True)
    ok = any(c.endswith("Kernel::new") for bi, c, t in kr.calls())
    ctx.oblig(ok)
    if not ok:
        ctx.violation("reader-bypasses-constructor|Kernel", kr.loc(), "Kernel::read_from does not go through Kernel::new: more than MAX_KERNEL_PROCEDURES hashes and duplicated hashes are accepted from untrusted bytes")
    lp = F.fn(r"^miden_assembly::library::path::LibraryPath@Deserializable::read_from$")
    ok = any(re.search(r"LibraryPath::new$|LibraryPath@TryFrom::try_from$", c) for bi, c, t in lp.calls())
    ctx.oblig(ok)
    if not ok:
        ctx.violation("reader-bypasses-constructor|LibraryPath", lp.loc(), "LibraryPath::read_from does not go through LibraryPath::new")


def r4_canonical_elements(ctx, F):
    """integer -> field element conversions of the input constructors reject values >= the modulus for EVERY integer parameter"""
    # StackOutputs::new: both vectors go through find_invalid_elements before construction
    new = F.fn(r"^miden_core::stack::outputs::StackOutputs::new$")
    checks = new.calls_to(r"outputs::find_invalid_elements$")
    covered = set()
    for bi, c, t in checks:
        sl = new.backward_slice(t["args"][0]["l"]) if "l" in t["args"][0] else {"args": set()}
        covered |= sl["args"]
    ctx.inst(key="StackOutputs::new", nontrivial=True)
    ctx.sample({"StackOutputs::new parameters checked by find_invalid_elements": sorted(covered)})
    for argno, name in ((1, "stack"), (2, "overflow_addrs")):
        ok = argno in covered
        ctx.oblig(ok)
        if not ok:
            ctx.violation("unchecked-parameter|StackOutputs::new|%s" % name, new.loc(),
                          "StackOutputs::new does not pass its `%s` parameter to find_invalid_elements: values >= the field modulus are accepted and silently reduced later" % name)
    agg = new.aggregates(r"StackOutputs$")
    if agg and checks and not all(new.dominates(bi, agg[0][0]) for bi, c, t in checks):
        ctx.violation("check-after-construction|StackOutputs::new", new.loc(), "validity checks do not dominate construction")
    # find_invalid_elements(&[x0, x1, x2]) interpreted on symbolic integers: every path's branch conditions are evaluated on all
    # assignments of boundary values; the result must be the first element >= the modulus, None when there is none
    from . import execmodel
    import itertools
    fie = F.fn(r"^miden_core::stack::outputs::find_invalid_elements$")
    MOD = 18446744069414584321
    ctx.inst(key="find_invalid_elements", nontrivial=True)
    names = ["x0", "x1", "x2"]
    probes = (0, MOD - 1, MOD, 2 ** 64 - 1)
    results = []
    try:
        for I, res, exc in enumerate_paths(lambda: Interp(F), lambda I: I.call(fie.id, [SlicePtr([Term(n) for n in names], 0, len(names))]), max_paths=256):
            if exc is not None:
                raise exc
            results.append((list(I.path), res))
        bad = None
        for vals in itertools.product(probes, repeat=len(names)):
            env = dict(zip(names, vals))
            want = next((v for v in vals if v >= MOD), None)
            hits = [res for g, res in results if execmodel.consistent(g, env)]
            got = set()
            for res in hits:
                if isinstance(res, Agg) and res.variant == "Some":
                    got.add(execmodel.ev(res.items[0], env))
                elif isinstance(res, Agg) and res.variant == "None":
                    got.add(None)
                else:
                    got.add("?")
            if got != {want}:
                bad = (vals, sorted(map(str, got)), want)
                break
        ok = bad is None and bool(results)
        ctx.oblig(ok)
        ctx.analysed("find_invalid_elements: %d paths x %d boundary assignments" % (len(results), len(probes) ** len(names)))
        if not ok:
            ctx.violation("modulus-comparison|find_invalid_elements", fie.loc(), "find_invalid_elements does not return the first element >= Felt::MODULUS: for %s it yields %s, expected %s" % bad if bad else "no path")
    except (Unanalysable, PanicReached) as e:
        ctx.violation("UNANALYSABLE|find_invalid_elements", fie.loc(), str(e)[:300])
    # StackInputs::try_from_values / AdviceInputs::with_stack_values: every element through Felt::try_from (never Felt::new / From<u64>)
    for pat in (r"^miden_core::stack::inputs::StackInputs::try_from_values$", r"^miden_processor::host::advice::inputs::AdviceInputs::with_stack_values$"):
        fn = F.fn(pat)
        fam = [fn] + [g for g in F.fns.values() if g.id.startswith(fn.id + "::{closure")]
        calls = [c for g in fam for bi, c, t in g.calls()]
        ctx.inst(key=fn.id, nontrivial=True)
        ok = any(re.search(r"BaseElement@TryFrom::try_from$", c) for c in calls) and not any(re.search(r"BaseElement::new$|BaseElement@From::from$", c) for c in calls)
        ctx.oblig(ok)
        if not ok:
            ctx.violation("non-canonical-conversion|%s" % short(fn.id), fn.loc(), "%s must convert integers with Felt::try_from (rejecting values >= modulus), calls: %s" % (short(fn.id), sorted(set(short(c) for c in calls))[:8]))


# ---- R5: slicing calls of the standard library on the reader paths are guarded ----------------------------------------------------
SLICERS = r"^core::str::str::(split_at|split_at_mut)$|^core::slice::\[T\]::(split_at|split_at_mut)$"


def _str_const(F, name):
    """the literal of a named &str constant, read from its definition line (the fact extractor does not evaluate &str)"""
    c = F.consts.get(name)
    if not c:
        return None
    try:
        line = open("/repo/" + c["file"]).read().split("\n")[c["line"] - 1]
    except (OSError, IndexError):
        return None
    m = re.search(r'=\s*"((?:[^"\\]|\\.)*)"\s*;', line)
    return bytes(m.group(1), "utf-8").decode("unicode_escape") if m else None


def _named_str(F, fn, o, depth=6):
    """the named &str constant an operand denotes, through copies, reborrows and derefs"""
    while depth > 0 and o is not None:
        depth -= 1
        if o.get("named"):
            return o["named"]
        if "l" not in o:
            return None
        ds = fn.defs().get(o["l"], ())
        if len(ds) != 1 or ds[0][0] != "s":
            return None
        r = ds[0][2]["r"]
        if r["k"] == "use":
            o = r["o"]
        elif r["k"] == "ref":
            o = {"l": r["p"]["l"]} if "l" in r["p"] else None
        else:
            return None
    return None


def _usize_value(F, fn, o, depth=8):
    """evaluate an operand built from integer constants, lengths of named &str constants and + (else None)"""
    if depth == 0 or o is None:
        return None
    o = resolve_copy(fn, o)
    if "c" in o and isinstance(o["c"], int):
        return o["c"]
    if "l" not in o:
        return None
    if o.get("p"):
        # field 0 of a checked-arithmetic pair
        fs = [x for x in o["p"] if isinstance(x, dict)]
        if len(o["p"]) == 1 and fs and fs[0].get("f") == "0":
            return _usize_value(F, fn, {"l": o["l"]}, depth - 1)
        return None
    dc = def_call(fn, o)
    if dc is not None:
        t = dc[2]
        if re.search(r"^core::str::str::len$", strip_targs(t["f"].get("fn", ""))):
            nm = _named_str(F, fn, t["args"][0])
            sv = _str_const(F, nm) if nm else None
            return len(sv.encode()) if sv is not None else None
        return None
    r = def_rvalue(fn, o)
    if r is None:
        return None
    if r["k"] == "bin" and r["op"] in ("+", "+?"):
        x, y = _usize_value(F, fn, r["a"], depth - 1), _usize_value(F, fn, r["b"], depth - 1)
        return x + y if x is not None and y is not None else None
    return None


def _base_local(fn, o, depth=10):
    """the local an operand ultimately refers to, through copies, reborrows and derefs"""
    while depth > 0 and o is not None and "l" in o:
        depth -= 1
        ds = fn.defs().get(o["l"], ())
        if len(ds) != 1 or ds[0][0] != "s":
            return o["l"]
        r = ds[0][2]["r"]
        if r["k"] == "use" and "l" in r["o"]:
            o = r["o"]
        elif r["k"] == "ref" and "l" in r["p"]:
            o = {"l": r["p"]["l"]}
        else:
            return o["l"]
    return o.get("l") if o else None


def r5b_guarded_unwraps(ctx, F):
    """every Option/Result unwrap or expect on the paths of the readers (validating constructors and helpers included - the
    symbolic exploration of C19-R1 replaces some of them by summaries) cannot fail: a widening integer conversion, or the first
    character of a string that the false branch of `is_empty()` on the same string dominates.  Any other unwrap of a value
    computed from the input is reported."""
    roots = [k for name, k, extra in entry_points(F)]
    reach = F.reachable(roots)
    scanned = 0
    n = 0
    WIDEN = {("u8", "usize"), ("u16", "usize"), ("u32", "usize"), ("u8", "u64"), ("u16", "u64"), ("u32", "u64"), ("u8", "u32"), ("u16", "u32"), ("u8", "u16"), ("usize", "u64")}
    for fid in sorted(reach):
        fn = F.fns.get(fid)
        if fn is None or not re.match(r"^miden_", fid):
            continue
        scanned += 1
        for bi, cal, t in fn.calls():
            c = strip_targs(cal)
            if not re.search(r"^core::(option::Option|result::Result)::(unwrap|expect)$", c):
                continue
            n += 1
            dc = def_call(fn, resolve_copy(fn, t["args"][0]))
            src = strip_targs(dc[2]["f"].get("fn", "?")) if dc else "?"
            key = "%s|%s" % (short(fid), src.rsplit("::", 2)[-2] + "::" + src.rsplit("::", 1)[-1] if "::" in src else src)
            ctx.inst(key="unwrap@" + key, nontrivial=True)
            ok, why = False, "its value comes from %s, which yields None / Err for some inputs, and no dominating check excludes them" % src
            if dc is not None and re.search(r"TryInto::try_into$|TryFrom::try_from$", src):
                ga = tuple(str(g) for g in (dc[2]["f"].get("ga") or [])[:2])
                if src.endswith("try_from"):
                    ga = ga[::-1]
                ok = ga in WIDEN
                why = "the conversion %s -> %s can fail" % ga if len(ga) == 2 else why
            elif dc is not None and re.search(r"Chars@Iterator::next$", src):
                def producer(o, depth=6):
                    # the call that produced the value an operand refers to, through copies and reborrows
                    while depth > 0 and o is not None and "l" in o:
                        depth -= 1
                        d0 = def_call(fn, resolve_copy(fn, o))
                        if d0 is not None:
                            return d0
                        r0 = def_rvalue(fn, o)
                        if r0 is not None and r0["k"] == "ref" and "l" in r0["p"]:
                            o = {"l": r0["p"]["l"]}
                        else:
                            return None
                    return None
                it = producer(dc[2]["args"][0])
                if it is not None and not re.search(r"str::chars$", strip_targs(it[2]["f"].get("fn", ""))):
                    it = None
                base = _base_local(fn, it[2]["args"][0]) if it is not None else None
                for sb, b in enumerate(fn.blocks):
                    tt = b["t"]
                    if tt["k"] != "switch":
                        continue
                    d2 = def_call(fn, resolve_copy(fn, tt["o"]))
                    if d2 is None or not re.search(r"str::is_empty$", strip_targs(d2[2]["f"].get("fn", ""))):
                        continue
                    arms = dict((a[0], a[1]) for a in tt["arms"])
                    if 0 in arms and arms[0] != tt["else"] and fn.dominates(arms[0], bi) and base is not None and _base_local(fn, d2[2]["args"][0]) == base:
                        ok = True
                why = "the string may be empty: no dominating `is_empty()` test of the same string"
            ctx.oblig(ok)
            if not ok:
                ctx.violation("unguarded-unwrap|%s" % key, fn.loc(t["ln"]), "%s unwraps a value that can be absent: %s; reachable from %s - an input reaching it makes the reader panic"
                              % (short(fid), why, ", ".join(sorted(set(short(r) for r in roots if fid in F.reachable([r]))))[:240]))
    ctx.floor("functions-on-reader-paths", scanned, 80)
    ctx.floor("unwrap-sites-on-reader-paths", n, 3)


def r5_guarded_slicing(ctx, F):
    """every `split_at(mid)` on the paths of the readers (including the validating constructors they call) has a receiver whose
    length is known to be at least `mid`: the call is dominated by the true branch of `receiver.starts_with(PREFIX)` with
    len(PREFIX) >= mid, or by a comparison of the receiver's length.  Otherwise some input makes the reader panic."""
    roots = [k for name, k, extra in entry_points(F)]
    reach = F.reachable(roots)
    n = 0
    for fid in sorted(reach):
        fn = F.fns.get(fid)
        if fn is None or not re.match(r"^miden_", fid):
            continue
        for bi, cal, t in fn.calls():
            if not re.search(SLICERS, strip_targs(cal)):
                continue
            n += 1
            key = "%s|split_at" % short(fid)
            ctx.inst(key=key, nontrivial=True)
            mid = _usize_value(F, fn, t["args"][1])
            recv_src = fn.backward_slice(t["args"][0]["l"], through_calls=True)["locals"] if "l" in t["args"][0] else set()
            guard = None
            for sb, b in enumerate(fn.blocks):
                tt = b["t"]
                if tt["k"] != "switch":
                    continue
                dc = def_call(fn, resolve_copy(fn, tt["o"]))
                if dc is None or not re.search(r"^core::str::str::starts_with$", strip_targs(dc[2]["f"].get("fn", ""))):
                    continue
                arms = dict((a[0], a[1]) for a in tt["arms"])
                if 0 not in arms or not fn.dominates(tt["else"], bi):
                    continue
                nm = _named_str(F, fn, dc[2]["args"][1])
                sv = _str_const(F, nm) if nm else None
                ra = dc[2]["args"][0]
                same_recv = "l" in ra and bool(set(fn.backward_slice(ra["l"], through_calls=True)["locals"]) & set(recv_src))
                if sv is not None and same_recv:
                    guard = max(guard or 0, len(sv.encode()))
            ok = mid is not None and guard is not None and guard >= mid
            ctx.oblig(ok)
            ctx.analysed("%s split_at(%s) guarded by a prefix of %s bytes" % (fn.loc(t["ln"]), mid, guard))
            if not ok:
                ctx.violation("unguarded-slicing|%s" % short(fid), fn.loc(t["ln"]),
                              "%s splits its input at byte %s, but the only thing known about the input there is a prefix of %s bytes: an input consisting of just that prefix (or the prefix and fewer than %s further bytes) "
                              "makes split_at panic - reachable from %s" % (short(fid), mid if mid is not None else "<not constant>", guard if guard is not None else "no", (mid - guard) if (mid is not None and guard is not None) else "the missing",
                                                                             ", ".join(sorted(short(r) for r in roots if fid in F.reachable([r])))[:200]))
    # the expected number of slicing sites may legitimately be zero (slicing replaced by checked accessors): the anti-vacuity
    # floor is on the functions scanned, and the matcher is exercised on the canonical callee names
    assert all(re.search(SLICERS, x) for x in ("core::str::str::split_at", "core::slice::[T]::split_at_mut"))
    ctx.floor("functions-on-reader-paths", len([f for f in reach if f.startswith("miden_") and f in F.fns]), 80)


# ---- R6: every value a validating constructor accepts can be re-encoded ---------------------------------------------------------
def _len_bound(fn, panicking):
    """(op, constant) of the comparison `len OP constant` whose failing side panics (writer assertion, panicking=True) or whose
    true side rejects (validator, panicking=False); None when the function has no such single comparison"""
    out = []
    cs = [c for c in cmp_branches(fn) if c["kind"] == "bin"]
    for c in cs + [m for m in map(mirrored, cs) if m is not None]:      # `MAX < len` is the same test as `len > MAX`
        if c["op"] not in ("<", "<=", ">", ">="):
            continue
        k = fn.const_of(c["b"])
        if not isinstance(k, int) or isinstance(k, bool) or fn.const_of(c["a"]) is not None:
            continue
        side = c["false"] if panicking else c["true"]
        reach = fn.reachable_blocks(side)
        if panicking:
            hit = any(fn.blocks[b]["t"]["k"] == "call" and re.search(r"panicking::|panic", fn.blocks[b]["t"]["f"].get("fn", "")) for b in reach)
        else:
            hit = bool(reach & err_blocks(fn)) or any(fn.blocks[b]["t"]["k"] == "call" and re.search(r"Error::|_too_long$|TooMany", fn.blocks[b]["t"]["f"].get("fn", "")) for b in reach) \
                or any(s_["r"]["k"] == "agg" and s_["r"].get("variant") == "Err" for b in reach for s_ in fn.blocks[b]["s"])
        if hit:
            out.append((c["op"], k))
    return out[0] if len(out) == 1 else None


def r6_writer_assertions(ctx, F):
    """a writer's (debug) assertion on a length must hold for every length the type's validation accepts, otherwise a value
    accepted from untrusted bytes cannot be re-encoded (the writer panics in debug builds)"""
    pairs = [("LibraryPath", r"LibraryPath@Serializable::write_into$", r"^miden_assembly::library::path::validate_path_len$"),
             ("Kernel", r"Kernel@Serializable::write_into$", r"^miden_core::program::Kernel::new$")]
    for name, wp, vp in pairs:
        ctx.inst(key="writer-assertion|" + name, nontrivial=True)
        w, v = F.fn(wp), F.fn(vp)
        wb, vb = _len_bound(w, True), _len_bound(v, False)
        if wb is None or vb is None:
            # no assertion in the writer: nothing it can refuse
            if wb is None and not any(re.search(r"panicking::|panic", t["f"].get("fn", "")) for b, c_, t in w.calls()):
                ctx.oblig(True)
                continue
            ctx.violation("UNANALYSABLE|writer-assertion|%s" % name, w.loc(), "could not read the length bounds of %s / %s (%s, %s)" % (short(w.id), short(v.id), wb, vb))
            continue
        # largest length the validator accepts / the writer's assertion admits
        acc = {">": vb[1], ">=": vb[1] - 1}.get(vb[0])
        adm = {"<": wb[1] - 1, "<=": wb[1]}.get(wb[0])
        ok = acc is not None and adm is not None and acc <= adm
        ctx.oblig(ok)
        ctx.analysed("%s: validation accepts lengths up to %s, the writer asserts length %s %s" % (name, acc, wb[0], wb[1]))
        if not ok:
            ctx.violation("writer-refuses-accepted-value|%s" % name, w.loc(), "%s accepts a length of %s (it rejects only `len %s %s`), but %s asserts `len %s %s`: a value of that length, accepted from untrusted bytes, "
                          "makes the writer panic in debug builds - it cannot be re-encoded" % (short(v.id), acc, vb[0], vb[1], short(w.id), wb[0], wb[1]))


def run(ctx, F):
    ctx.trusted += ["rustc MIR via mirfacts", "mirsym; symbolic ByteReader model", "winter-utils / miden-crypto readers are trusted (external crates)"]
    ctx.assumptions += ["loops over input-sized collections are explored for one iteration of the body", "string validators are abstract",
                        "an allocation sized by a u32/usize read from the input is reported in the evidence (analysed), not as a violation"]
    ctx.run_rule("C19-R1", "every reader explored with a symbolic ByteReader: no feasible path reaches a panic and no compiler-inserted check depends on input bytes (non-trivial = reader with branching)", r1_reader_panics, F)
    ctx.run_rule("C19-R2", "accepted values re-encode: symbolic round trip of the untrusted-input types", r2_reader_writer, F)
    ctx.run_rule("C19-R3", "types with validating constructors are built only there (or Default/Clone), have no public fields, and their readers go through the constructor", r3_validated_constructors, F)
    ctx.run_rule("C19-R4", "integer inputs are checked against the field modulus for every parameter", r4_canonical_elements, F)
    ctx.run_rule("C19-R5", "slicing calls on the reader paths (str / slice split_at in the readers and the validating constructors they call) are dominated by a check that makes the receiver long enough", r5_guarded_slicing, F)
    ctx.run_rule("C19-R5b", "unwrap / expect on the reader paths (readers, validating constructors and the helpers they call) cannot fail: widening conversions, or the first character of a string dominated by the false branch of is_empty() on that string", r5b_guarded_unwraps, F)
    ctx.run_rule("C19-R6", "the length assertions of the LibraryPath and Kernel writers hold for every length their validation accepts (an accepted value can be re-encoded in debug builds too)", r6_writer_assertions, F)
